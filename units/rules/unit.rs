//@unit props=C15,C14,C12,C05,C01
// Unit rules — `InferenceRule::infer` of the fourteen inference rules that are not under contract elsewhere
// (packed_encoding.rs, masked_word.rs: unit packed_lift; mapping_access.rs: unit arith_sites) and
// `InferenceRules::infer`, the loop that runs every rule on a value:
//
//   src/tc/rule/arithmetic_operations.rs  bit_shifts.rs  boolean_operations.rs  call_data.rs  create.rs
//                dynamic_array_write.rs  environment_opcodes.rs  ext_code.rs  external_calls.rs  offset_size.rs
//                s_load_is_inner_types.rs  sha3.rs  storage_key.rs  storage_write.rs  mod.rs (InferenceRules::infer)
//   (+ TE::{word, numeric, unsigned_word, signed_word, bool, address, bytes, eq, dyn_array}, WordUse::size, the width
//      constants, TCSV::type_var, TypeCheckerState::{var_unchecked, infer_for})
//
// What is decided, per rule, written from the rule's DOC COMMENT ("equating: a = .., b = ..") and from the
// property texts, over the typing state seen as the LOG of judgements `(variable, expression)` handed to it:
//   C05 / C02-mechanism  the rule only APPENDS to the log (`append_only`), and appends NOTHING for a value whose
//                        constructor is not one the rule is about (`only_on_its_constructors`); what it appends is a
//                        function of the value alone (it cannot read what other rules recorded: the state stand-in
//                        offers no way to);
//   C15                  for its constructors the SET of judgements after the call is the set before plus exactly the
//                        documented ones (`judgements_as_documented`: which variable — the value's own / which
//                        child's — gets which word type). Sets, because the state keeps a HashSet per variable: the
//                        order of the rule's calls and repeated judgements do not matter, a missing, an extra or a
//                        different judgement does;
//   C14                  the same for equalities between the documented variables (`equalities_as_documented`);
//   C12                  every `Word { width: Some(w), .. }` a rule emits has w <= 256 (`width_at_most_the_word`);
//   C01                  no panic: unwraps, arithmetic, callee preconditions (the state's `infer` panics on an unknown
//                        variable) — under the STATED preconditions of the rule interface (see `rule_pre`).
// Everything marked A-... is an ASSUMPTION. What is not decided: the //@dropped lines at the end.
use vstd::prelude::*;
use std::sync::Arc;
use std::collections::HashSet;
//@include common/value_tree_items.rs
#[allow(dead_code, unused)]
mod ru_ext {
    use super::vt_ext::KnownWord;
    // A-CALLEE: the truncating conversions of `KnownWord` (src/vm/value/known.rs: `value.value.as_usize()`).
    impl<'a> From<&'a KnownWord> for usize { fn from(_v: &'a KnownWord) -> usize { unimplemented!() } }
    impl From<KnownWord> for usize { fn from(_v: KnownWord) -> usize { unimplemented!() } }
    // A-ETHNUM: stand-in for ethnum::U256 (external crate); only a field type of `TypeExpression` here.
    #[derive(Clone, Copy, PartialEq, Eq)]
    pub struct U256(pub [u128; 2]);
    // A-EXT: the error container only appears in return types.
    pub struct Errors(pub u8);
}
use ru_ext::U256;
#[allow(dead_code, unused)]
mod error { pub mod unification { pub type Result<T> = std::result::Result<T, crate::ru_ext::Errors>; } }
use error::unification::Result;

verus! {

#[verifier::external_type_specification]
#[verifier::external_body]
pub struct ExU256(U256);
#[verifier::external_type_specification]
#[verifier::external_body]
pub struct ExErrors(ru_ext::Errors);

//@extract file=src/constant.rs path="const WORD_SIZE_BITS" kind=type
//@end
//@extract file=src/constant.rs path="const BYTE_SIZE_BITS" kind=type
//@end
//@extract file=src/constant.rs path="const BOOL_WIDTH_BITS" kind=type
//@end
//@extract file=src/constant.rs path="const ADDRESS_WIDTH_BITS" kind=type
//@end
//@extract file=src/constant.rs path="const SELECTOR_WIDTH_BITS" kind=type
//@end
//@extract file=src/constant.rs path="const FUNCTION_WIDTH_BITS" kind=type
//@end

// A-CALLEE: `From<&KnownWord> for usize` / `From<KnownWord> for usize` truncate the 256-bit word (`as_usize`).
// Assumed: the conversion is a FUNCTION of the word (`kw_usize`, uninterpreted) — NOTHING about which usize
// comes out: any usize may (as in unit arith_sites, plus determinism, which the preconditions below need in
// order to talk about "the size this constant converts to").
pub uninterp spec fn kw_usize(w: KnownWord) -> usize;
impl<'a> vstd::std_specs::convert::FromSpecImpl<&'a KnownWord> for usize {
    open spec fn obeys_from_spec() -> bool { true }
    open spec fn from_spec(v: &'a KnownWord) -> usize { kw_usize(*v) }
}
impl vstd::std_specs::convert::FromSpecImpl<KnownWord> for usize {
    open spec fn obeys_from_spec() -> bool { true }
    open spec fn from_spec(v: KnownWord) -> usize { kw_usize(v) }
}
pub assume_specification<'a>[ <usize as core::convert::From<&'a KnownWord>>::from ](v: &'a KnownWord) -> (r: usize);
pub assume_specification[ <usize as core::convert::From<KnownWord>>::from ](v: KnownWord) -> (r: usize);

// A-CALLEE: `SymbolicValueData::constant_fold` on a type-checker payload: uninterpreted (determinism only).
pub uninterp spec fn cfold_tc(d: TCSVD) -> TCSVD;
impl TCSVD {
    #[verifier::external_body]
    pub fn constant_fold(&self) -> (r: Self) ensures r == cfold_tc(*self) { unimplemented!() }
}

// =====================================================================================================
//                              type expressions (re-extracted) and their constructors
// =====================================================================================================
#[derive(Copy, Clone)]
//@extract file=src/tc/expression.rs path="struct Span" kind=type
//@end
//@extract file=src/tc/expression.rs path="type TE" kind=type
//@end
//@extract file=src/tc/expression.rs path="enum WordUse" kind=type
//@end
//@extract file=src/tc/expression.rs path="enum TypeExpression" kind=type
//@end

/// the widths the documentation of `WordUse` gives the sized usages (bits): bool = one byte, address = 160,
/// selector = 32, function = address followed by selector
pub open spec fn wu_size(u: WordUse) -> Option<usize> {
    match u {
        WordUse::Bool => Some(8usize),
        WordUse::Address => Some(160usize),
        WordUse::Selector => Some(32usize),
        WordUse::Function => Some(192usize),
        _ => None,
    }
}
//@extract file=src/tc/expression.rs path="impl WordUse" kind=header
//@end
//@extract file=src/tc/expression.rs path="impl WordUse|fn size" props=C12
//@ret r
//@spec
        ensures
            r == wu_size(*self),                                                                      //@ob C12.rule.word_use_size.documented_widths
            r matches Some(w) ==> w <= 256,                                                           //@ob C12.rule.word_use_size.width_at_most_the_word
//@end
}

//@extract file=src/tc/expression.rs path="impl TypeExpression" kind=header
//@end
//@extract file=src/tc/expression.rs path="impl TypeExpression|fn word" props=C15
//@ret r
//@spec
        ensures r == (TypeExpression::Word { width, usage }),                                         //@ob C15.rule.te_word.fields
//@end
//@extract file=src/tc/expression.rs path="impl TypeExpression|fn numeric" props=C15
//@ret r
//@spec
        ensures r == (TypeExpression::Word { width, usage: WordUse::Numeric }),                       //@ob C15.rule.te_numeric.width_kept_usage_numeric
//@end
//@extract file=src/tc/expression.rs path="impl TypeExpression|fn unsigned_word" props=C15
//@ret r
//@spec
        ensures r == (TypeExpression::Word { width, usage: WordUse::UnsignedNumeric }),               //@ob C15.rule.te_unsigned_word.width_kept_usage_unsigned
//@end
//@extract file=src/tc/expression.rs path="impl TypeExpression|fn signed_word" props=C15
//@ret r
//@spec
        ensures r == (TypeExpression::Word { width, usage: WordUse::SignedNumeric }),                 //@ob C15.rule.te_signed_word.width_kept_usage_signed
//@end
//@extract file=src/tc/expression.rs path="impl TypeExpression|fn bool" props=C15
//@ret r
//@spec
        ensures r == (TypeExpression::Word { width: Some(8usize), usage: WordUse::Bool }),            //@ob C15.rule.te_bool.one_byte_bool C12.rule.te_bool.width_at_most_the_word
//@end
//@extract file=src/tc/expression.rs path="impl TypeExpression|fn address" props=C15
//@ret r
//@spec
        ensures r == (TypeExpression::Word { width: Some(160usize), usage: WordUse::Address }),       //@ob C15.rule.te_address.160_bit_address C12.rule.te_address.width_at_most_the_word
//@end
//@extract file=src/tc/expression.rs path="impl TypeExpression|fn bytes" props=C15
//@ret r
//@spec
        ensures r == (TypeExpression::Word { width, usage: WordUse::Bytes }),                         //@ob C15.rule.te_bytes.width_kept_usage_bytes
//@end
//@extract file=src/tc/expression.rs path="impl TypeExpression|fn eq" props=C14
//@ret r
//@spec
        ensures r == (TypeExpression::Equal { id }),                                                  //@ob C14.rule.te_eq.names_the_variable
//@end
//@extract file=src/tc/expression.rs path="impl TypeExpression|fn dyn_array" props=C15
//@ret r
//@spec
        ensures r == (TypeExpression::DynamicArray { element }),                                      //@ob C15.rule.te_dyn_array.names_the_element
//@end
}

//@extract file=src/vm/value/mod.rs path="impl TCSV" kind=header
//@end
//@extract file=src/vm/value/mod.rs path="impl TCSV|fn type_var" props=C01
//@ret r
//@spec
        ensures r == self.aux(),
//@end
}

// =====================================================================================================
//                                       specification vocabulary
// =====================================================================================================
/// a typing judgement: this variable has this type expression
pub type Jm = (TypeVariable, TypeExpression);

/// append-only: everything that was in the log is still there, at the same place
pub open spec fn extends(a: Seq<Jm>, b: Seq<Jm>) -> bool {
    a.len() <= b.len() && forall|i: int| 0 <= i < a.len() ==> #[trigger] b[i] == a[i]
}
/// a word type with a known width fits the 256-bit word
pub open spec fn width_ok(e: TypeExpression) -> bool {
    e matches TypeExpression::Word { width: Some(w), .. } ==> w <= 256
}
/// every judgement appended to `a` to give `b` satisfies `width_ok`
pub open spec fn new_widths_ok(a: Seq<Jm>, b: Seq<Jm>) -> bool {
    forall|k: int| a.len() <= k < b.len() ==> width_ok((#[trigger] b[k]).1)
}
/// Lemma (proved, not assumed): membership in a log that grew by one judgement. Broadcast so that the set-valued
/// postconditions below unfold along the rule's calls, whatever their order. (In a module of its own: Verus
/// rejects a module-level `broadcast use` of a lemma of the same module.)
pub mod ru_lemmas {
    use vstd::prelude::*;
    pub broadcast proof fn lemma_push_contains<A>(s: Seq<A>, a: A, j: A)
        ensures #[trigger] s.push(a).contains(j) == (s.contains(j) || a == j),
    {
        if s.push(a).contains(j) {
            let i = choose|i: int| 0 <= i < s.push(a).len() && s.push(a)[i] == j;
            if i < s.len() { assert(s[i] == j); }
        }
        if s.contains(j) {
            let i = choose|i: int| 0 <= i < s.len() && s[i] == j;
            assert(s.push(a)[i] == j);
        }
        if a == j { assert(s.push(a)[s.len() as int] == j); }
    }
}
broadcast use ru_lemmas::lemma_push_contains;

/// "`v` is a word of width `w` used as `u`"
pub open spec fn wj(v: TCBoxedVal, w: Option<usize>, u: WordUse) -> Jm { (v.aux(), TypeExpression::Word { width: w, usage: u }) }
pub open spec fn j_num(v: TCBoxedVal) -> Jm { wj(v, None, WordUse::Numeric) }
pub open spec fn j_uns(v: TCBoxedVal) -> Jm { wj(v, None, WordUse::UnsignedNumeric) }
pub open spec fn j_sig(v: TCBoxedVal) -> Jm { wj(v, None, WordUse::SignedNumeric) }
pub open spec fn j_byt(v: TCBoxedVal) -> Jm { wj(v, None, WordUse::Bytes) }
pub open spec fn j_b32(v: TCBoxedVal) -> Jm { wj(v, Some(256usize), WordUse::Bytes) }
pub open spec fn j_bool(v: TCBoxedVal) -> Jm { wj(v, Some(8usize), WordUse::Bool) }
pub open spec fn j_addr(v: TCBoxedVal) -> Jm { wj(v, Some(160usize), WordUse::Address) }
/// "`a = b`": the state records an equality in BOTH directions, and drops an equality of a variable with itself
/// (documented at `TypeCheckerState::infer`: "we want to make it symmetric so we add it to both sets")
pub open spec fn equates(a: TCBoxedVal, b: TCBoxedVal, j: Jm) -> bool {
    a.aux() != b.aux() && (j == (a.aux(), TypeExpression::Equal { id: b.aux() }) || j == (b.aux(), TypeExpression::Equal { id: a.aux() }))
}

pub open spec fn seq_all<A>(s: Seq<BoxedVal<A>>, p: spec_fn(SymbolicValue<A>) -> bool) -> bool {
    forall|i: int| 0 <= i < s.len() ==> p(*#[trigger] s[i])
}
pub open spec fn span_all<A>(s: Seq<PackedSpan<A>>, p: spec_fn(SymbolicValue<A>) -> bool) -> bool {
    forall|i: int| 0 <= i < s.len() ==> p(*(#[trigger] s[i]).value)
}
/// every direct child of `d` satisfies `p` (copied from unit transform, where gen_rebuilt.py generates it from the
/// enum; a variant missing here is a rustc "non-exhaustive patterns" error = unit undecided, never a silent pass)
pub open spec fn kids_all<A>(d: SVD<A>, p: spec_fn(SymbolicValue<A>) -> bool) -> bool {
    match d {
        SVD::Value { .. } => true,
        SVD::KnownData { .. } => true,
        SVD::Add { left, right } => p(*left) && p(*right),
        SVD::Multiply { left, right } => p(*left) && p(*right),
        SVD::Subtract { left, right } => p(*left) && p(*right),
        SVD::Divide { dividend, divisor } => p(*dividend) && p(*divisor),
        SVD::SignedDivide { dividend, divisor } => p(*dividend) && p(*divisor),
        SVD::Modulo { dividend, divisor } => p(*dividend) && p(*divisor),
        SVD::SignedModulo { dividend, divisor } => p(*dividend) && p(*divisor),
        SVD::Exp { value, exponent } => p(*value) && p(*exponent),
        SVD::SignExtend { size, value } => p(*size) && p(*value),
        SVD::CallWithValue { gas, address, value, argument_data, ret_offset, ret_size } => p(*gas) && p(*address) && p(*value) && p(*argument_data) && p(*ret_offset) && p(*ret_size),
        SVD::CallWithoutValue { gas, address, argument_data, ret_offset, ret_size } => p(*gas) && p(*address) && p(*argument_data) && p(*ret_offset) && p(*ret_size),
        SVD::Sha3 { data } => p(*data),
        SVD::Address => true,
        SVD::Balance { address } => p(*address),
        SVD::Origin => true,
        SVD::Caller => true,
        SVD::CallValue => true,
        SVD::GasPrice => true,
        SVD::ExtCodeHash { address } => p(*address),
        SVD::BlockHash { block_number } => p(*block_number),
        SVD::CoinBase => true,
        SVD::BlockTimestamp => true,
        SVD::BlockNumber => true,
        SVD::Prevrandao => true,
        SVD::GasLimit => true,
        SVD::ChainId => true,
        SVD::SelfBalance => true,
        SVD::BaseFee => true,
        SVD::Gas => true,
        SVD::Log { data, topics } => p(*data) && seq_all(topics@, p),
        SVD::Create { value, data } => p(*value) && p(*data),
        SVD::Create2 { value, salt, data } => p(*value) && p(*salt) && p(*data),
        SVD::SelfDestruct { target } => p(*target),
        SVD::LessThan { left, right } => p(*left) && p(*right),
        SVD::GreaterThan { left, right } => p(*left) && p(*right),
        SVD::SignedLessThan { left, right } => p(*left) && p(*right),
        SVD::SignedGreaterThan { left, right } => p(*left) && p(*right),
        SVD::Equals { left, right } => p(*left) && p(*right),
        SVD::IsZero { number } => p(*number),
        SVD::And { left, right } => p(*left) && p(*right),
        SVD::Or { left, right } => p(*left) && p(*right),
        SVD::Xor { left, right } => p(*left) && p(*right),
        SVD::Not { value } => p(*value),
        SVD::LeftShift { shift, value } => p(*shift) && p(*value),
        SVD::RightShift { shift, value } => p(*shift) && p(*value),
        SVD::ArithmeticRightShift { shift, value } => p(*shift) && p(*value),
        SVD::CallData { offset, size, .. } => p(*offset) && p(*size),
        SVD::CallDataSize => true,
        SVD::CodeCopy { offset, size } => p(*offset) && p(*size),
        SVD::ExtCodeSize { address } => p(*address),
        SVD::ExtCodeCopy { address, offset, size } => p(*address) && p(*offset) && p(*size),
        SVD::ReturnData { offset, size } => p(*offset) && p(*size),
        SVD::Return { data } => p(*data),
        SVD::Revert { data } => p(*data),
        SVD::UnwrittenStorageValue { key } => p(*key),
        SVD::SLoad { key, value } => p(*key) && p(*value),
        SVD::StorageSlot { key } => p(*key),
        SVD::StorageWrite { key, value } => p(*key) && p(*value),
        SVD::Concat { values } => seq_all(values@, p),
        SVD::MappingIndex { slot, key, .. } => p(*slot) && p(*key),
        SVD::DynamicArrayIndex { slot, index } => p(*slot) && p(*index),
        SVD::SubWord { value, .. } => p(*value),
        SVD::Shifted { value, .. } => p(*value),
        SVD::Packed { elements } => span_all(elements@, p),
    }
}

// =====================================================================================================
//                              the typing state and the rule interface (ASSUMPTIONS)
// =====================================================================================================
// A-CALLEE: the unifier state is opaque (same stand-in as units packed_lift / arith_sites). Its views here: the
// LOG of inference judgements `(variable, expression)` recorded, in order, and the set of type variables it
// `knows` (has an inference set for). It offers the rules NO way to read what was recorded.
#[verifier::external_body]
pub struct TypeCheckerState { _p: u8 }
pub uninterp spec fn inferred(s: &TypeCheckerState) -> Seq<Jm>;
/// the set of known variables, as one value (so that "unchanged" is an equality, not a quantified formula)
#[verifier::external_body]
pub ghost struct KnownVars { _p: u8 }
pub uninterp spec fn known(s: &TypeCheckerState) -> KnownVars;
pub uninterp spec fn is_known(k: KnownVars, tv: TypeVariable) -> bool;
pub open spec fn knows(s: &TypeCheckerState, tv: TypeVariable) -> bool { is_known(known(s), tv) }
/// what `infer(variable, expression)` records — written from its body and its doc comment: an expression that
/// is not an equality is recorded for the variable it is handed; an equality `variable = id` is recorded for
/// BOTH variables (`id := Eq<variable>` first, then `variable := Eq<id>`), and not at all when `id == variable`
pub open spec fn log_after(log: Seq<Jm>, variable: TypeVariable, expression: TypeExpression) -> Seq<Jm> {
    match expression {
        TypeExpression::Equal { id } => if id == variable { log } else {
            log.push((id, TypeExpression::Equal { id: variable })).push((variable, expression))
        },
        _ => log.push((variable, expression)),
    }
}
/// when `infer` does not panic (`self.inferences.get_mut(..).unwrap()`): every variable it touches is known
pub open spec fn infer_pre(s: &TypeCheckerState, variable: TypeVariable, expression: TypeExpression) -> bool {
    match expression {
        TypeExpression::Equal { id } => id == variable || (knows(s, id) && knows(s, variable)),
        _ => knows(s, variable),
    }
}
/// `infer_for_many(values, e)` = `infer_for(values[0], e)`, `infer_for(values[1], e)`, … in that order
pub open spec fn log_after_many(log: Seq<Jm>, values: Seq<&TCBoxedVal>, expression: TypeExpression, n: nat) -> Seq<Jm>
    decreases n,
{
    if n == 0 { log } else { log_after(log_after_many(log, values, expression, (n - 1) as nat), values[n - 1].aux(), expression) }
}
/// Lemma (proved): the clauses N = 1 .. 6 of `infer_for_many`'s assumed contract are the unfolded definition
proof fn lemma_many_unfolded(log: Seq<Jm>, v: Seq<&TCBoxedVal>, e: TypeExpression)
    requires !(e is Equal), v.len() >= 6,
    ensures
        log_after_many(log, v, e, 1) == log.push((v[0].aux(), e)),
        log_after_many(log, v, e, 2) == log.push((v[0].aux(), e)).push((v[1].aux(), e)),
        log_after_many(log, v, e, 3) == log.push((v[0].aux(), e)).push((v[1].aux(), e)).push((v[2].aux(), e)),
        log_after_many(log, v, e, 4) == log.push((v[0].aux(), e)).push((v[1].aux(), e)).push((v[2].aux(), e)).push((v[3].aux(), e)),
        log_after_many(log, v, e, 5) == log.push((v[0].aux(), e)).push((v[1].aux(), e)).push((v[2].aux(), e)).push((v[3].aux(), e)).push((v[4].aux(), e)),
        log_after_many(log, v, e, 6) == log.push((v[0].aux(), e)).push((v[1].aux(), e)).push((v[2].aux(), e)).push((v[3].aux(), e)).push((v[4].aux(), e)).push((v[5].aux(), e)),
{
    reveal_with_fuel(log_after_many, 8);
}
impl TypeCheckerState {
    // A-CALLEE: `infer(variable, expression)` (HashMap<_, HashSet<_>> bookkeeping; `impl Into` arguments
    // monomorphised). The stand-in of units packed_lift / arith_sites, EXTENDED to equalities (those units
    // never hand it one). The set of known variables is unchanged.
    #[verifier::external_body]
    pub fn infer(&mut self, variable: TypeVariable, expression: TypeExpression)
        requires
            infer_pre(old(self), variable, expression),
        ensures
            inferred(final(self)) == log_after(inferred(old(self)), variable, expression),
            known(final(self)) == known(old(self)),
    { unimplemented!() }

    // A-CALLEE: `infer_for_many(values, expression)` (`array::from_fn` with a closure that pulls the values
    // from an iterator and calls `infer_for(value, expression.clone())` — outside Verus' subset). Assumed
    // EXACTLY as its body reads: one `infer_for` per value, in array order, with the same expression. The
    // clauses for N = 1 .. 6 are the unfolded definition (the rules use 2 and 3; no node has more than 6 children).
    #[verifier::external_body]
    pub fn infer_for_many<const N: usize>(&mut self, values: [&TCBoxedVal; N], expression: TypeExpression) -> (r: [TypeVariable; N])
        requires
            forall|i: int| 0 <= i < N ==> infer_pre(old(self), (#[trigger] values@[i]).aux(), expression),
            !(expression is Equal),
        ensures
            inferred(final(self)) == log_after_many(inferred(old(self)), values@, expression, N as nat),
            N == 1 ==> inferred(final(self)) == inferred(old(self)).push((values@[0].aux(), expression)),
            N == 2 ==> inferred(final(self)) == inferred(old(self)).push((values@[0].aux(), expression)).push((values@[1].aux(), expression)),
            N == 3 ==> inferred(final(self)) == inferred(old(self)).push((values@[0].aux(), expression)).push((values@[1].aux(), expression)).push((values@[2].aux(), expression)),
            N == 4 ==> inferred(final(self)) == inferred(old(self)).push((values@[0].aux(), expression)).push((values@[1].aux(), expression)).push((values@[2].aux(), expression)).push((values@[3].aux(), expression)),
            N == 5 ==> inferred(final(self)) == inferred(old(self)).push((values@[0].aux(), expression)).push((values@[1].aux(), expression)).push((values@[2].aux(), expression)).push((values@[3].aux(), expression)).push((values@[4].aux(), expression)),
            N == 6 ==> inferred(final(self)) == inferred(old(self)).push((values@[0].aux(), expression)).push((values@[1].aux(), expression)).push((values@[2].aux(), expression)).push((values@[3].aux(), expression)).push((values@[4].aux(), expression)).push((values@[5].aux(), expression)),
            forall|i: int| 0 <= i < N ==> (#[trigger] r@[i]) == values@[i].aux(),
            known(final(self)) == known(old(self)),
    { unimplemented!() }

//@extract file=src/tc/state/mod.rs path="impl TypeCheckerState|fn var_unchecked" props=C01
//@ret r
//@spec
        ensures r == value.aux(),
//@end
//@extract file=src/tc/state/mod.rs path="impl TypeCheckerState|fn infer_for" props=C01
//@ret r
//@rw R-IMPL-INTO
//@old
expression: impl Into<TypeExpression>
//@new
expression: TypeExpression
//@spec
        requires
            infer_pre(old(self), value.aux(), expression),
        ensures
            r == value.aux(),
            inferred(final(self)) == log_after(inferred(old(self)), value.aux(), expression),
            known(final(self)) == known(old(self)),
//@end
}

/// the typing state's registration invariant ("the only source of new type variables is the state": a value
/// handed to a rule was registered together with its whole sub-tree by `TypeCheckerState::register`), down to
/// the depth the rules look (value, children, grand-children, great-grand-children)
pub open spec fn registered(s: &TypeCheckerState, v: TCSV) -> bool { registered_in(known(s), v) }
pub open spec fn registered_in(k: KnownVars, v: TCSV) -> bool {
    is_known(k, v.aux()) && kids_all(v.dt(), |c: TCSV| is_known(k, c.aux()) && kids_all(c.dt(), |g: TCSV|
        is_known(k, g.aux()) && kids_all(g.dt(), |h: TCSV| is_known(k, h.aux()))))
}
/// A-CALLEE-established tree invariant (NOT proved here): a `CallData` node whose size folds to a constant reads
/// at most one word. Its only producers are CALLDATALOAD (size = the constant 32) and CALLDATACOPY, which folds
/// its size operand and, when that is a constant, stores 32-byte `call_data` words instead (src/opcode/memory.rs;
/// the symbolic-size branch is C07.env.CallDataCopy.symbolic_copy_operands_in_evm_roles of unit env_ops); no
/// lifting pass turns a non-constant size into a constant. WITHOUT it `byte_size * BYTE_SIZE_BITS` overflows
/// usize for a constant size >= 2^61 (panic in debug builds, a wrapped width in release builds) and the width
/// exceeds the word for any constant size > 32: reachable through the public rule API with a hand-built value,
/// not from bytecode. See //@dropped.
pub open spec fn call_data_sized(v: TCSV) -> bool {
    v.dt() matches TCSVD::CallData { size, .. } ==>
        (cfold_tc(size.dt()) matches TCSVD::KnownData { value: w } ==> kw_usize(w) <= 32)
}
pub open spec fn rule_pre(s: &TypeCheckerState, v: TCSV) -> bool { registered(s, v) && call_data_sized(v) }

// A-EXT: the `InferenceRule` interface of src/tc/rule/mod.rs (supertraits dropped; a declaration without
// executable content). Its precondition is `rule_pre`. Its postconditions are the documented contract of the
// interface ("rules ... ascribe typing judgements"; "inference rules only add judgements to sets and must not read
// other rules' output"), which every rule below is checked against: append-only, no variable forgotten (so that the
// next rule can run on the same value), and when it returns Ok the judgement SET has grown by exactly the rule's own
// `says(value, .)` — a function of the value alone. `fails` = the values the rule reports an error for (none of
// the fourteen ever does); `says` = the judgements the rule's documentation promises for a value.
pub trait InferenceRule {
    spec fn fails(&self, v: TCBoxedVal) -> bool;
    spec fn says(&self, v: TCBoxedVal, j: Jm) -> bool;
    fn infer(&self, value: &TCBoxedVal, state: &mut TypeCheckerState) -> (r: Result<()>)
        requires
            rule_pre(old(state), **value),
        ensures
            extends(inferred(old(state)), inferred(final(state))),
            known(final(state)) == known(old(state)),
            r is Err <==> self.fails(*value),
            r is Ok ==> forall|j: Jm| #[trigger] inferred(final(state)).contains(j) <==> inferred(old(state)).contains(j) || self.says(*value, j);
}

// =====================================================================================================
//                                   src/tc/rule/arithmetic_operations.rs
// =====================================================================================================
/// doc: "marks the operands and result of the arithmetic operations as being the appropriate type of word".
///   + - *   sign-agnostic: numeric          / %   unsigned           s/ s%   signed          **   numeric
///   sign_ext(size, value): the value is signed, the size unsigned, the result signed; "if we can unpick the size
///   itself to a known value, we can get a width" (in-file comment and test: the constant is taken as the width in
///   bits) — but never a width beyond the word.   SEE //@dropped: SIGNEXTEND's operand is a BYTE INDEX, not a width.
pub open spec fn sext_width(size: TCBoxedVal) -> Option<usize> {
    match size.dt() {
        TCSVD::KnownData { value } => if kw_usize(value) <= 256 { Some(kw_usize(value)) } else { None },
        _ => None,
    }
}
pub open spec fn all3(j: Jm, a: TCBoxedVal, b: TCBoxedVal, c: TCBoxedVal, u: WordUse) -> bool {
    j == wj(a, None, u) || j == wj(b, None, u) || j == wj(c, None, u)
}
pub open spec fn fires_arithmetic(v: TCBoxedVal) -> bool {
    v.dt() is Add || v.dt() is Multiply || v.dt() is Subtract || v.dt() is Divide || v.dt() is Modulo
        || v.dt() is SignedDivide || v.dt() is SignedModulo || v.dt() is Exp || v.dt() is SignExtend
}
pub open spec fn says_arithmetic(v: TCBoxedVal, j: Jm) -> bool {
    match v.dt() {
        TCSVD::Add { left, right } => all3(j, v, left, right, WordUse::Numeric),
        TCSVD::Multiply { left, right } => all3(j, v, left, right, WordUse::Numeric),
        TCSVD::Subtract { left, right } => all3(j, v, left, right, WordUse::Numeric),
        TCSVD::Divide { dividend, divisor } => all3(j, v, dividend, divisor, WordUse::UnsignedNumeric),
        TCSVD::Modulo { dividend, divisor } => all3(j, v, dividend, divisor, WordUse::UnsignedNumeric),
        TCSVD::SignedDivide { dividend, divisor } => all3(j, v, dividend, divisor, WordUse::SignedNumeric),
        TCSVD::SignedModulo { dividend, divisor } => all3(j, v, dividend, divisor, WordUse::SignedNumeric),
        TCSVD::Exp { value, exponent } => all3(j, v, value, exponent, WordUse::Numeric),
        TCSVD::SignExtend { value, size } => j == j_sig(value) || j == j_uns(size) || j == wj(v, sext_width(size), WordUse::SignedNumeric),
        _ => false,
    }
}
//@extract file=src/tc/rule/arithmetic_operations.rs path="struct ArithmeticOperationRule" kind=type
//@end
//@extract file=src/tc/rule/arithmetic_operations.rs path="impl InferenceRule for ArithmeticOperationRule" kind=header
//@end
    open spec fn fails(&self, v: TCBoxedVal) -> bool { false }
    open spec fn says(&self, v: TCBoxedVal, j: Jm) -> bool { says_arithmetic(v, j) }
//@extract file=src/tc/rule/arithmetic_operations.rs path="impl InferenceRule for ArithmeticOperationRule|fn infer" props=C01
//@ret r
//@spec
        ensures
            extends(inferred(old(state)), inferred(final(state))),                                                           //@ob C05.rule.arithmetic.append_only
            !fires_arithmetic(*value) ==> inferred(final(state)) == inferred(old(state)),                                    //@ob C05.rule.arithmetic.only_on_its_constructors
            forall|j: Jm| #[trigger] inferred(final(state)).contains(j) <==> inferred(old(state)).contains(j) || says_arithmetic(*value, j),   //@ob C15.rule.arithmetic.judgements_as_documented
            new_widths_ok(inferred(old(state)), inferred(final(state))),                                                     //@ob C12.rule.arithmetic.width_at_most_the_word
//@end
}

// =====================================================================================================
//                                   src/tc/rule/bit_shifts.rs
// =====================================================================================================
/// doc: "the shift amount is always unsigned, and depending on the kind of shift we may know that the value being
/// shifted is signed or not": << >> say nothing more than "a word" (bytes) about value and result; the arithmetic
/// right shift treats the value as signed "and hence so is the result".
pub open spec fn fires_bit_shifts(v: TCBoxedVal) -> bool { v.dt() is LeftShift || v.dt() is RightShift || v.dt() is ArithmeticRightShift }
pub open spec fn says_bit_shifts(v: TCBoxedVal, j: Jm) -> bool {
    match v.dt() {
        TCSVD::LeftShift { shift, value } => j == j_uns(shift) || j == j_byt(v) || j == j_byt(value),
        TCSVD::RightShift { shift, value } => j == j_uns(shift) || j == j_byt(v) || j == j_byt(value),
        TCSVD::ArithmeticRightShift { shift, value } => j == j_uns(shift) || j == j_sig(v) || j == j_sig(value),
        _ => false,
    }
}
//@extract file=src/tc/rule/bit_shifts.rs path="struct BitShiftRule" kind=type
//@end
//@extract file=src/tc/rule/bit_shifts.rs path="impl InferenceRule for BitShiftRule" kind=header
//@end
    open spec fn fails(&self, v: TCBoxedVal) -> bool { false }
    open spec fn says(&self, v: TCBoxedVal, j: Jm) -> bool { says_bit_shifts(v, j) }
//@extract file=src/tc/rule/bit_shifts.rs path="impl InferenceRule for BitShiftRule|fn infer" props=C01
//@ret r
//@spec
        ensures
            extends(inferred(old(state)), inferred(final(state))),                                                           //@ob C05.rule.bit_shifts.append_only
            !fires_bit_shifts(*value) ==> inferred(final(state)) == inferred(old(state)),                                    //@ob C05.rule.bit_shifts.only_on_its_constructors
            forall|j: Jm| #[trigger] inferred(final(state)).contains(j) <==> inferred(old(state)).contains(j) || says_bit_shifts(*value, j), //@ob C15.rule.bit_shifts.judgements_as_documented
            new_widths_ok(inferred(old(state)), inferred(final(state))),                                                     //@ob C12.rule.bit_shifts.width_at_most_the_word
//@end
}

// =====================================================================================================
//                                   src/tc/rule/boolean_operations.rs
// =====================================================================================================
/// doc (per arm): "LT and GT are numeric comparisons ... not treated as signed"; "SLT and SGT are numeric and signed";
/// "equality can operate over arbitrary words, of any width"; ISZERO "is a numeric comparison to zero"; the result
/// of each of them is a bool; & | ^ ~ "operate over arbitrary words as well" (operands and result: bytes).
pub open spec fn fires_boolean(v: TCBoxedVal) -> bool {
    v.dt() is LessThan || v.dt() is GreaterThan || v.dt() is SignedLessThan || v.dt() is SignedGreaterThan || v.dt() is Equals
        || v.dt() is IsZero || v.dt() is And || v.dt() is Or || v.dt() is Xor || v.dt() is Not
}
pub open spec fn says_boolean(v: TCBoxedVal, j: Jm) -> bool {
    match v.dt() {
        TCSVD::LessThan { left, right } => j == j_uns(left) || j == j_uns(right) || j == j_bool(v),
        TCSVD::GreaterThan { left, right } => j == j_uns(left) || j == j_uns(right) || j == j_bool(v),
        TCSVD::SignedLessThan { left, right } => j == j_sig(left) || j == j_sig(right) || j == j_bool(v),
        TCSVD::SignedGreaterThan { left, right } => j == j_sig(left) || j == j_sig(right) || j == j_bool(v),
        TCSVD::Equals { left, right } => j == j_byt(left) || j == j_byt(right) || j == j_bool(v),
        TCSVD::IsZero { number } => j == j_num(number) || j == j_bool(v),
        TCSVD::And { left, right } => all3(j, v, left, right, WordUse::Bytes),
        TCSVD::Or { left, right } => all3(j, v, left, right, WordUse::Bytes),
        TCSVD::Xor { left, right } => all3(j, v, left, right, WordUse::Bytes),
        TCSVD::Not { value } => j == j_byt(v) || j == j_byt(value),
        _ => false,
    }
}
//@extract file=src/tc/rule/boolean_operations.rs path="struct BooleanOpsRule" kind=type
//@end
//@extract file=src/tc/rule/boolean_operations.rs path="impl InferenceRule for BooleanOpsRule" kind=header
//@end
    open spec fn fails(&self, v: TCBoxedVal) -> bool { false }
    open spec fn says(&self, v: TCBoxedVal, j: Jm) -> bool { says_boolean(v, j) }
//@extract file=src/tc/rule/boolean_operations.rs path="impl InferenceRule for BooleanOpsRule|fn infer" props=C01
//@ret r
//@spec
        ensures
            extends(inferred(old(state)), inferred(final(state))),                                                           //@ob C05.rule.boolean.append_only
            !fires_boolean(*value) ==> inferred(final(state)) == inferred(old(state)),                                       //@ob C05.rule.boolean.only_on_its_constructors
            forall|j: Jm| #[trigger] inferred(final(state)).contains(j) <==> inferred(old(state)).contains(j) || says_boolean(*value, j), //@ob C15.rule.boolean.judgements_as_documented
            new_widths_ok(inferred(old(state)), inferred(final(state))),                                                     //@ob C12.rule.boolean.width_at_most_the_word
//@end
}

// =====================================================================================================
//                                   src/tc/rule/call_data.rs
// =====================================================================================================
/// doc: `call_data[id](offset, read_size)`: "a = word(size = read_size, usage = Bytes) if read_size is constant" —
/// the read size is in BYTES, a word's width in BITS. "Constant" = folds to a constant. Nothing otherwise.
pub open spec fn fires_call_data(v: TCBoxedVal) -> bool {
    v.dt() matches TCSVD::CallData { size, .. } && cfold_tc(size.dt()) is KnownData
}
pub open spec fn says_call_data(v: TCBoxedVal, j: Jm) -> bool {
    match v.dt() {
        TCSVD::CallData { size, .. } => match cfold_tc(size.dt()) {
            TCSVD::KnownData { value: byte_size } => j == wj(v, Some((kw_usize(byte_size) * 8) as usize), WordUse::Bytes),
            _ => false,
        },
        _ => false,
    }
}
//@extract file=src/tc/rule/call_data.rs path="struct CallDataRule" kind=type
//@end
//@extract file=src/tc/rule/call_data.rs path="impl InferenceRule for CallDataRule" kind=header
//@end
    open spec fn fails(&self, v: TCBoxedVal) -> bool { false }
    open spec fn says(&self, v: TCBoxedVal, j: Jm) -> bool { says_call_data(v, j) }
//@extract file=src/tc/rule/call_data.rs path="impl InferenceRule for CallDataRule|fn infer" props=C01
//@ret r
//@spec
        ensures
            extends(inferred(old(state)), inferred(final(state))),                                                           //@ob C05.rule.call_data.append_only
            !fires_call_data(*value) ==> inferred(final(state)) == inferred(old(state)),                                     //@ob C05.rule.call_data.only_on_its_constructors
            forall|j: Jm| #[trigger] inferred(final(state)).contains(j) <==> inferred(old(state)).contains(j) || says_call_data(*value, j), //@ob C15.rule.call_data.judgements_as_documented
            new_widths_ok(inferred(old(state)), inferred(final(state))),                                                     //@ob C12.rule.call_data.width_at_most_the_word
//@end
}

// =====================================================================================================
//                                   src/tc/rule/create.rs
// =====================================================================================================
/// doc: "the result of calling either CREATE or CREATE2 is an address, and the provided `value` upon creation is some
/// unsigned integer. We know nothing about the data". (The salt of CREATE2 is a full word, bytes32: not in the doc
/// comment, in the body and in the EVM — taken over, see coverage notes.)
pub open spec fn fires_create(v: TCBoxedVal) -> bool { v.dt() is Create || v.dt() is Create2 }
pub open spec fn says_create(v: TCBoxedVal, j: Jm) -> bool {
    match v.dt() {
        TCSVD::Create { value, .. } => j == j_addr(v) || j == j_uns(value),
        TCSVD::Create2 { value, salt, .. } => j == j_addr(v) || j == j_uns(value) || j == j_b32(salt),
        _ => false,
    }
}
//@extract file=src/tc/rule/create.rs path="struct CreateContractRule" kind=type
//@end
//@extract file=src/tc/rule/create.rs path="impl InferenceRule for CreateContractRule" kind=header
//@end
    open spec fn fails(&self, v: TCBoxedVal) -> bool { false }
    open spec fn says(&self, v: TCBoxedVal, j: Jm) -> bool { says_create(v, j) }
//@extract file=src/tc/rule/create.rs path="impl InferenceRule for CreateContractRule|fn infer" props=C01
//@ret r
//@spec
        ensures
            extends(inferred(old(state)), inferred(final(state))),                                                           //@ob C05.rule.create.append_only
            !fires_create(*value) ==> inferred(final(state)) == inferred(old(state)),                                        //@ob C05.rule.create.only_on_its_constructors
            forall|j: Jm| #[trigger] inferred(final(state)).contains(j) <==> inferred(old(state)).contains(j) || says_create(*value, j), //@ob C15.rule.create.judgements_as_documented
            new_widths_ok(inferred(old(state)), inferred(final(state))),                                                     //@ob C12.rule.create.width_at_most_the_word
//@end
}

// =====================================================================================================
//                                   src/tc/rule/dynamic_array_write.rs
// =====================================================================================================
/// doc: `s_store(storage_slot(dynamic_array<storage_slot(base_slot)>[index]), value)`
///         a          b            c             d          e         f        g
/// equating  d = dynamic_array<b>,  f = word(width = unknown, usage = UnsignedWord),  b = g
pub open spec fn dyn_site(v: TCBoxedVal) -> Option<(TCBoxedVal, TCBoxedVal, TCBoxedVal, TCBoxedVal)> {
    match v.dt() {
        TCSVD::StorageWrite { key: b, value: g } => match b.dt() {
            TCSVD::StorageSlot { key: c } => match c.dt() {
                TCSVD::DynamicArrayIndex { slot: d, index: f } => match d.dt() {
                    TCSVD::StorageSlot { .. } => Some((b, d, f, g)),
                    _ => None,
                },
                _ => None,
            },
            _ => None,
        },
        _ => None,
    }
}
pub open spec fn fires_dynamic_array_write(v: TCBoxedVal) -> bool { dyn_site(v) is Some }
pub open spec fn says_dynamic_array_write(v: TCBoxedVal, j: Jm) -> bool {
    dyn_site(v) matches Some((b, d, f, g)) && (j == j_uns(f) || j == (d.aux(), TypeExpression::DynamicArray { element: b.aux() }))
}
pub open spec fn equates_dynamic_array_write(v: TCBoxedVal, j: Jm) -> bool {
    dyn_site(v) matches Some((b, d, f, g)) && equates(b, g, j)
}
//@extract file=src/tc/rule/dynamic_array_write.rs path="struct DynamicArrayWriteRule" kind=type
//@end
//@extract file=src/tc/rule/dynamic_array_write.rs path="impl InferenceRule for DynamicArrayWriteRule" kind=header
//@end
    open spec fn fails(&self, v: TCBoxedVal) -> bool { false }
    open spec fn says(&self, v: TCBoxedVal, j: Jm) -> bool { says_dynamic_array_write(v, j) || equates_dynamic_array_write(v, j) }
//@extract file=src/tc/rule/dynamic_array_write.rs path="impl InferenceRule for DynamicArrayWriteRule|fn infer" props=C01
//@ret r
//@spec
        ensures
            extends(inferred(old(state)), inferred(final(state))),                                                           //@ob C05.rule.dynamic_array_write.append_only
            !fires_dynamic_array_write(*value) ==> inferred(final(state)) == inferred(old(state)),                           //@ob C05.rule.dynamic_array_write.only_on_its_constructors
            forall|j: Jm| !(j.1 is Equal) ==> (#[trigger] inferred(final(state)).contains(j) <==> inferred(old(state)).contains(j) || says_dynamic_array_write(*value, j)), //@ob C15.rule.dynamic_array_write.judgements_as_documented
            forall|j: Jm| j.1 is Equal ==> (#[trigger] inferred(final(state)).contains(j) <==> inferred(old(state)).contains(j) || equates_dynamic_array_write(*value, j)), //@ob C14.rule.dynamic_array_write.equalities_as_documented
            new_widths_ok(inferred(old(state)), inferred(final(state))),                                                     //@ob C12.rule.dynamic_array_write.width_at_most_the_word
//@end
}

// =====================================================================================================
//                                   src/tc/rule/environment_opcodes.rs
// =====================================================================================================
/// doc: values that "result from interactions with the environment ... all have fixed return types": ADDRESS, ORIGIN,
/// CALLER, COINBASE are addresses; BALANCE takes an address and gives an unsigned number; CALLVALUE, GASPRICE,
/// TIMESTAMP, NUMBER, PREVRANDAO, GASLIMIT, CHAINID, SELFBALANCE, BASEFEE, GAS, CALLDATASIZE are unsigned numbers;
/// SELFDESTRUCT's target is an address.
pub open spec fn env_address(v: TCBoxedVal) -> bool { v.dt() is Address || v.dt() is Origin || v.dt() is Caller || v.dt() is CoinBase }
pub open spec fn env_unsigned(v: TCBoxedVal) -> bool {
    v.dt() is CallValue || v.dt() is GasPrice || v.dt() is BlockTimestamp || v.dt() is BlockNumber || v.dt() is Prevrandao
        || v.dt() is GasLimit || v.dt() is ChainId || v.dt() is SelfBalance || v.dt() is BaseFee || v.dt() is Gas || v.dt() is CallDataSize
}
pub open spec fn fires_environment(v: TCBoxedVal) -> bool { env_address(v) || env_unsigned(v) || v.dt() is Balance || v.dt() is SelfDestruct }
pub open spec fn says_environment(v: TCBoxedVal, j: Jm) -> bool {
    ||| env_address(v) && j == j_addr(v)
    ||| env_unsigned(v) && j == j_uns(v)
    ||| (v.dt() matches TCSVD::Balance { address } && (j == j_addr(address) || j == j_uns(v)))
    ||| (v.dt() matches TCSVD::SelfDestruct { target } && j == j_addr(target))
}
//@extract file=src/tc/rule/environment_opcodes.rs path="struct EnvironmentCodesRule" kind=type
//@end
//@extract file=src/tc/rule/environment_opcodes.rs path="impl InferenceRule for EnvironmentCodesRule" kind=header
//@end
    open spec fn fails(&self, v: TCBoxedVal) -> bool { false }
    open spec fn says(&self, v: TCBoxedVal, j: Jm) -> bool { says_environment(v, j) }
//@extract file=src/tc/rule/environment_opcodes.rs path="impl InferenceRule for EnvironmentCodesRule|fn infer" props=C01
//@ret r
//@spec
        ensures
            extends(inferred(old(state)), inferred(final(state))),                                                           //@ob C05.rule.environment.append_only
            !fires_environment(*value) ==> inferred(final(state)) == inferred(old(state)),                                   //@ob C05.rule.environment.only_on_its_constructors
            forall|j: Jm| #[trigger] inferred(final(state)).contains(j) <==> inferred(old(state)).contains(j) || says_environment(*value, j), //@ob C15.rule.environment.judgements_as_documented
            new_widths_ok(inferred(old(state)), inferred(final(state))),                                                     //@ob C12.rule.environment.width_at_most_the_word
//@end
}

// =====================================================================================================
//                                   src/tc/rule/ext_code.rs
// =====================================================================================================
/// doc: `ext_code_size(address)`: a = unsigned, b = address;  `ext_code_copy(address, offset, size)`: b = address,
///             a          b                                           a          b        c      d
/// c = unsigned, d = unsigned
pub open spec fn fires_ext_code(v: TCBoxedVal) -> bool { v.dt() is ExtCodeSize || v.dt() is ExtCodeCopy }
pub open spec fn says_ext_code(v: TCBoxedVal, j: Jm) -> bool {
    match v.dt() {
        TCSVD::ExtCodeSize { address } => j == j_uns(v) || j == j_addr(address),
        TCSVD::ExtCodeCopy { address, offset, size } => j == j_addr(address) || j == j_uns(offset) || j == j_uns(size),
        _ => false,
    }
}
//@extract file=src/tc/rule/ext_code.rs path="struct ExtCodeRule" kind=type
//@end
//@extract file=src/tc/rule/ext_code.rs path="impl InferenceRule for ExtCodeRule" kind=header
//@end
    open spec fn fails(&self, v: TCBoxedVal) -> bool { false }
    open spec fn says(&self, v: TCBoxedVal, j: Jm) -> bool { says_ext_code(v, j) }
//@extract file=src/tc/rule/ext_code.rs path="impl InferenceRule for ExtCodeRule|fn infer" props=C01
//@ret r
//@spec
        ensures
            extends(inferred(old(state)), inferred(final(state))),                                                           //@ob C05.rule.ext_code.append_only
            !fires_ext_code(*value) ==> inferred(final(state)) == inferred(old(state)),                                      //@ob C05.rule.ext_code.only_on_its_constructors
            forall|j: Jm| #[trigger] inferred(final(state)).contains(j) <==> inferred(old(state)).contains(j) || says_ext_code(*value, j), //@ob C15.rule.ext_code.judgements_as_documented
            new_widths_ok(inferred(old(state)), inferred(final(state))),                                                     //@ob C12.rule.ext_code.width_at_most_the_word
//@end
}

// =====================================================================================================
//                                   src/tc/rule/external_calls.rs
// =====================================================================================================
/// doc: `call_with_value(gas, address, value, argument_data, ret_offset, ret_size)`
///              a         b      c       d          e             f          g
///   a = address, b = unsigned, c = address, d = unsigned, f = unsigned, g = unsigned
///      `call_without_value(gas, address, argument_data, ret_offset, ret_size)`
///               a           b      c           d             e          f
///   a = address, b = unsigned, c = address, e = unsigned, f = unsigned
pub open spec fn fires_external_calls(v: TCBoxedVal) -> bool { v.dt() is CallWithValue || v.dt() is CallWithoutValue }
pub open spec fn says_external_calls(v: TCBoxedVal, j: Jm) -> bool {
    match v.dt() {
        TCSVD::CallWithValue { gas, address, value, ret_offset, ret_size, .. } =>
            j == j_addr(v) || j == j_uns(gas) || j == j_addr(address) || j == j_uns(value) || j == j_uns(ret_offset) || j == j_uns(ret_size),
        TCSVD::CallWithoutValue { gas, address, ret_offset, ret_size, .. } =>
            j == j_addr(v) || j == j_uns(gas) || j == j_addr(address) || j == j_uns(ret_offset) || j == j_uns(ret_size),
        _ => false,
    }
}
//@extract file=src/tc/rule/external_calls.rs path="struct ExternalCallRule" kind=type
//@end
//@extract file=src/tc/rule/external_calls.rs path="impl InferenceRule for ExternalCallRule" kind=header
//@end
    open spec fn fails(&self, v: TCBoxedVal) -> bool { false }
    open spec fn says(&self, v: TCBoxedVal, j: Jm) -> bool { says_external_calls(v, j) }
//@extract file=src/tc/rule/external_calls.rs path="impl InferenceRule for ExternalCallRule|fn infer" props=C01
//@ret r
//@spec
        ensures
            extends(inferred(old(state)), inferred(final(state))),                                                           //@ob C05.rule.external_calls.append_only
            !fires_external_calls(*value) ==> inferred(final(state)) == inferred(old(state)),                                //@ob C05.rule.external_calls.only_on_its_constructors
            forall|j: Jm| #[trigger] inferred(final(state)).contains(j) <==> inferred(old(state)).contains(j) || says_external_calls(*value, j), //@ob C15.rule.external_calls.judgements_as_documented
            new_widths_ok(inferred(old(state)), inferred(final(state))),                                                     //@ob C12.rule.external_calls.width_at_most_the_word
//@end
}

// =====================================================================================================
//                                   src/tc/rule/offset_size.rs
// =====================================================================================================
/// doc: `call_data(id, offset, size)`, `code_copy(offset, size)`, `return_data(offset, size)`: offset = unsigned, size = unsigned
pub open spec fn fires_offset_size(v: TCBoxedVal) -> bool { v.dt() is CallData || v.dt() is CodeCopy || v.dt() is ReturnData }
pub open spec fn says_offset_size(v: TCBoxedVal, j: Jm) -> bool {
    match v.dt() {
        TCSVD::CallData { offset, size, .. } => j == j_uns(offset) || j == j_uns(size),
        TCSVD::CodeCopy { offset, size } => j == j_uns(offset) || j == j_uns(size),
        TCSVD::ReturnData { offset, size } => j == j_uns(offset) || j == j_uns(size),
        _ => false,
    }
}
//@extract file=src/tc/rule/offset_size.rs path="struct OffsetSizeRule" kind=type
//@end
//@extract file=src/tc/rule/offset_size.rs path="impl InferenceRule for OffsetSizeRule" kind=header
//@end
    open spec fn fails(&self, v: TCBoxedVal) -> bool { false }
    open spec fn says(&self, v: TCBoxedVal, j: Jm) -> bool { says_offset_size(v, j) }
//@extract file=src/tc/rule/offset_size.rs path="impl InferenceRule for OffsetSizeRule|fn infer" props=C01
//@ret r
//@spec
        ensures
            extends(inferred(old(state)), inferred(final(state))),                                                           //@ob C05.rule.offset_size.append_only
            !fires_offset_size(*value) ==> inferred(final(state)) == inferred(old(state)),                                   //@ob C05.rule.offset_size.only_on_its_constructors
            forall|j: Jm| #[trigger] inferred(final(state)).contains(j) <==> inferred(old(state)).contains(j) || says_offset_size(*value, j), //@ob C15.rule.offset_size.judgements_as_documented
            new_widths_ok(inferred(old(state)), inferred(final(state))),                                                     //@ob C12.rule.offset_size.width_at_most_the_word
//@end
}

// =====================================================================================================
//                                   src/tc/rule/s_load_is_inner_types.rs
// =====================================================================================================
/// doc: `s_load(key, value)`: equating a = b, a = c
///          a    b     c
pub open spec fn fires_s_load(v: TCBoxedVal) -> bool { v.dt() is SLoad }
pub open spec fn says_s_load(v: TCBoxedVal, j: Jm) -> bool { false }
pub open spec fn equates_s_load(v: TCBoxedVal, j: Jm) -> bool {
    v.dt() matches TCSVD::SLoad { key, value } && (equates(v, key, j) || equates(v, value, j))
}
//@extract file=src/tc/rule/s_load_is_inner_types.rs path="struct SLoadIsInnerTypesRule" kind=type
//@end
//@extract file=src/tc/rule/s_load_is_inner_types.rs path="impl InferenceRule for SLoadIsInnerTypesRule" kind=header
//@end
    open spec fn fails(&self, v: TCBoxedVal) -> bool { false }
    open spec fn says(&self, v: TCBoxedVal, j: Jm) -> bool { says_s_load(v, j) || equates_s_load(v, j) }
//@extract file=src/tc/rule/s_load_is_inner_types.rs path="impl InferenceRule for SLoadIsInnerTypesRule|fn infer" props=C01
//@ret r
//@spec
        ensures
            extends(inferred(old(state)), inferred(final(state))),                                                           //@ob C05.rule.s_load.append_only
            !fires_s_load(*value) ==> inferred(final(state)) == inferred(old(state)),                                        //@ob C05.rule.s_load.only_on_its_constructors
            forall|j: Jm| !(j.1 is Equal) ==> (#[trigger] inferred(final(state)).contains(j) <==> inferred(old(state)).contains(j) || says_s_load(*value, j)), //@ob C15.rule.s_load.judgements_as_documented
            forall|j: Jm| j.1 is Equal ==> (#[trigger] inferred(final(state)).contains(j) <==> inferred(old(state)).contains(j) || equates_s_load(*value, j)), //@ob C14.rule.s_load.equalities_as_documented
            new_widths_ok(inferred(old(state)), inferred(final(state))),                                                     //@ob C12.rule.s_load.width_at_most_the_word
//@end
}

// =====================================================================================================
//                                   src/tc/rule/sha3.rs
// =====================================================================================================
/// doc: "the output of the SHA3 opcode is a bytes32, which is always true". (EXTCODEHASH — the hash of the code at an
/// address — is handled by the same rule: result bytes32, operand an address; not in the doc comment, see coverage notes.)
pub open spec fn fires_sha3(v: TCBoxedVal) -> bool { v.dt() is Sha3 || v.dt() is ExtCodeHash }
pub open spec fn says_sha3(v: TCBoxedVal, j: Jm) -> bool {
    match v.dt() {
        TCSVD::Sha3 { .. } => j == j_b32(v),
        TCSVD::ExtCodeHash { address } => j == j_addr(address) || j == j_b32(v),
        _ => false,
    }
}
//@extract file=src/tc/rule/sha3.rs path="struct HashRule" kind=type
//@end
//@extract file=src/tc/rule/sha3.rs path="impl InferenceRule for HashRule" kind=header
//@end
    open spec fn fails(&self, v: TCBoxedVal) -> bool { false }
    open spec fn says(&self, v: TCBoxedVal, j: Jm) -> bool { says_sha3(v, j) }
//@extract file=src/tc/rule/sha3.rs path="impl InferenceRule for HashRule|fn infer" props=C01
//@ret r
//@spec
        ensures
            extends(inferred(old(state)), inferred(final(state))),                                                           //@ob C05.rule.sha3.append_only
            !fires_sha3(*value) ==> inferred(final(state)) == inferred(old(state)),                                          //@ob C05.rule.sha3.only_on_its_constructors
            forall|j: Jm| #[trigger] inferred(final(state)).contains(j) <==> inferred(old(state)).contains(j) || says_sha3(*value, j), //@ob C15.rule.sha3.judgements_as_documented
            new_widths_ok(inferred(old(state)), inferred(final(state))),                                                     //@ob C12.rule.sha3.width_at_most_the_word
//@end
}

// =====================================================================================================
//                                   src/tc/rule/storage_key.rs
// =====================================================================================================
/// doc: `slot<key>`: b = unsigned
///         a   b
pub open spec fn fires_storage_key(v: TCBoxedVal) -> bool { v.dt() is StorageSlot }
pub open spec fn says_storage_key(v: TCBoxedVal, j: Jm) -> bool { v.dt() matches TCSVD::StorageSlot { key } && j == j_uns(key) }
//@extract file=src/tc/rule/storage_key.rs path="struct StorageKeyRule" kind=type
//@end
//@extract file=src/tc/rule/storage_key.rs path="impl InferenceRule for StorageKeyRule" kind=header
//@end
    open spec fn fails(&self, v: TCBoxedVal) -> bool { false }
    open spec fn says(&self, v: TCBoxedVal, j: Jm) -> bool { says_storage_key(v, j) }
//@extract file=src/tc/rule/storage_key.rs path="impl InferenceRule for StorageKeyRule|fn infer" props=C01
//@ret r
//@spec
        ensures
            extends(inferred(old(state)), inferred(final(state))),                                                           //@ob C05.rule.storage_key.append_only
            !fires_storage_key(*value) ==> inferred(final(state)) == inferred(old(state)),                                   //@ob C05.rule.storage_key.only_on_its_constructors
            forall|j: Jm| #[trigger] inferred(final(state)).contains(j) <==> inferred(old(state)).contains(j) || says_storage_key(*value, j), //@ob C15.rule.storage_key.judgements_as_documented
            new_widths_ok(inferred(old(state)), inferred(final(state))),                                                     //@ob C12.rule.storage_key.width_at_most_the_word
//@end
}

// =====================================================================================================
//                                   src/tc/rule/storage_write.rs
// =====================================================================================================
/// doc: `s_store(slot, value)`: equating b = c
///          a     b      c
pub open spec fn fires_storage_write(v: TCBoxedVal) -> bool { v.dt() is StorageWrite }
pub open spec fn says_storage_write(v: TCBoxedVal, j: Jm) -> bool { false }
pub open spec fn equates_storage_write(v: TCBoxedVal, j: Jm) -> bool {
    v.dt() matches TCSVD::StorageWrite { key, value } && equates(key, value, j)
}
//@extract file=src/tc/rule/storage_write.rs path="struct StorageWriteRule" kind=type
//@end
//@extract file=src/tc/rule/storage_write.rs path="impl InferenceRule for StorageWriteRule" kind=header
//@end
    open spec fn fails(&self, v: TCBoxedVal) -> bool { false }
    open spec fn says(&self, v: TCBoxedVal, j: Jm) -> bool { says_storage_write(v, j) || equates_storage_write(v, j) }
//@extract file=src/tc/rule/storage_write.rs path="impl InferenceRule for StorageWriteRule|fn infer" props=C01
//@ret r
//@spec
        ensures
            extends(inferred(old(state)), inferred(final(state))),                                                           //@ob C05.rule.storage_write.append_only
            !fires_storage_write(*value) ==> inferred(final(state)) == inferred(old(state)),                                 //@ob C05.rule.storage_write.only_on_its_constructors
            forall|j: Jm| !(j.1 is Equal) ==> (#[trigger] inferred(final(state)).contains(j) <==> inferred(old(state)).contains(j) || says_storage_write(*value, j)), //@ob C15.rule.storage_write.judgements_as_documented
            forall|j: Jm| j.1 is Equal ==> (#[trigger] inferred(final(state)).contains(j) <==> inferred(old(state)).contains(j) || equates_storage_write(*value, j)), //@ob C14.rule.storage_write.equalities_as_documented
            new_widths_ok(inferred(old(state)), inferred(final(state))),                                                     //@ob C12.rule.storage_write.width_at_most_the_word
//@end
}

// =====================================================================================================
//                                   src/tc/rule/mod.rs — InferenceRules::infer
// =====================================================================================================
// A-EXT / A-STD: the rule container is a `HashSet<RulesItem>` (an item = a `TypeId` key + `Box<dyn InferenceRule>`,
// with a `Deref` to the box). Iterating it visits every item exactly once in an ARBITRARY order: `rule_order` is
// that order — one fixed, otherwise unknown sequence per set. R-FOREACH turns `for rule in &self.rules {` into an
// index loop over it (`vx_rule_at` = the i-th item, already dereferenced to its box: the Deref coercion is the
// item's one-line `&self.rule`).
#[verifier::external_body]
pub struct RulesItem { _p: u8 }
pub uninterp spec fn rule_order(s: &HashSet<RulesItem>) -> Seq<Box<dyn InferenceRule>>;
#[verifier::external_body]
fn vx_rule_count(s: &HashSet<RulesItem>) -> (n: usize)
    ensures n == rule_order(s).len(),
{ unimplemented!() }
#[verifier::external_body]
fn vx_rule_at(s: &HashSet<RulesItem>, i: usize) -> (r: &Box<dyn InferenceRule>)
    requires i < rule_order(s).len(),
    ensures *r == rule_order(s)[i as int],
{ unimplemented!() }

/// one of the first `n` rules (in the order they happen to run) promises judgement `j` for value `v`
pub open spec fn any_says(order: Seq<Box<dyn InferenceRule>>, n: nat, v: TCBoxedVal, j: Jm) -> bool
    decreases n,
{
    if n == 0 { false } else { any_says(order, (n - 1) as nat, v, j) || order[n - 1].says(v, j) }
}
/// the same, not by position: SOME rule of the set promises `j` (this is what does not depend on the order)
pub open spec fn some_rule_says(order: Seq<Box<dyn InferenceRule>>, v: TCBoxedVal, j: Jm) -> bool {
    exists|i: int| 0 <= i < order.len() && (#[trigger] order[i]).says(v, j)
}
proof fn lemma_any_says(order: Seq<Box<dyn InferenceRule>>, n: nat, v: TCBoxedVal, j: Jm)
    requires n <= order.len(),
    ensures any_says(order, n, v, j) <==> exists|i: int| 0 <= i < n && (#[trigger] order[i]).says(v, j),
    decreases n,
{
    if n > 0 {
        lemma_any_says(order, (n - 1) as nat, v, j);
        if any_says(order, n, v, j) {
            if order[n - 1].says(v, j) { } else {
                let i = choose|i: int| 0 <= i < n - 1 && (#[trigger] order[i]).says(v, j);
                assert(order[i].says(v, j));
            }
        }
        if exists|i: int| 0 <= i < n && (#[trigger] order[i]).says(v, j) {
            let i = choose|i: int| 0 <= i < n && (#[trigger] order[i]).says(v, j);
            if i < n - 1 { assert(order[i].says(v, j)); }
        }
    }
}

//@extract file=src/tc/rule/mod.rs path="struct InferenceRules" kind=type
//@end
impl InferenceRules {
    /// the order in which this container's hash set hands out its rules
    pub closed spec fn order(&self) -> Seq<Box<dyn InferenceRule>> { rule_order(&self.rules) }
}
//@extract file=src/tc/rule/mod.rs path="impl InferenceRules" kind=header
//@end
//@extract file=src/tc/rule/mod.rs path="impl InferenceRules|fn infer" props=C01
//@ret r
//@rw R-FOREACH
//@old
for rule in &self.rules {
//@new
let mut vx_i: usize = 0;
        while vx_i < vx_rule_count(&self.rules) { let rule = vx_rule_at(&self.rules, vx_i); vx_i += 1;
//@spec
        requires
            rule_pre(old(state), **value),
        ensures
            *final(self) == *old(self),
            extends(inferred(old(state)), inferred(final(state))),                                                           //@ob C05.rule.run_all.append_only
            known(final(state)) == known(old(state)),
            // runs every rule on the value: Ok exactly when no rule of the set fails on it ...
            r is Ok <==> forall|i: int| 0 <= i < old(self).order().len() ==> !(#[trigger] old(self).order()[i]).fails(*value),   //@ob C15.rule.run_all.ok_iff_every_rule_ran_and_none_failed
            // ... and then the judgement SET is the set before plus what EACH rule of the set promises for this value,
            // whatever the order the hash set hands the rules out in (C02-mechanism: rules run in an arbitrary order)
            r is Ok ==> forall|j: Jm| #[trigger] inferred(final(state)).contains(j) <==>
                inferred(old(state)).contains(j) || some_rule_says(old(self).order(), *value, j),                 //@ob C15.rule.run_all.union_of_every_rules_judgements_whatever_the_order
//@loop 1 kind=while
            invariant
                *self == *old(self),
                vx_i <= self.order().len(),
                rule_pre(state, **value),
                extends(inferred(old(state)), inferred(state)),                                                              //@ob C05.rule.run_all.loop.append_only
                known(state) == known(old(state)),
                forall|i: int| 0 <= i < vx_i ==> !(#[trigger] self.order()[i]).fails(*value),                     //@ob C15.rule.run_all.loop.goes_on_only_after_ok
                forall|j: Jm| #[trigger] inferred(state).contains(j) <==>
                    inferred(old(state)).contains(j) || any_says(self.order(), vx_i as nat, *value, j),           //@ob C15.rule.run_all.loop.every_rule_so_far_contributed
            decreases self.order().len() - vx_i,
//@proof afterloop #1
        proof {
            assert forall|j: Jm| #[trigger] inferred(state).contains(j) <==>
                inferred(old(state)).contains(j) || some_rule_says(self.order(), *value, j) by {
                lemma_any_says(self.order(), vx_i as nat, *value, j);
            }
        }
//@end
}

//@dropped TypeCheckerState::infer (HashMap<TypeVariable, HashSet<TypeExpression>> bookkeeping): assumed callee, written from its body and doc comment — a non-equality is recorded for the variable, an equality for BOTH variables, a self-equality not at all; it panics on an unknown variable. That the variables of the value handed to a rule and of its sub-tree (three levels down: what DynamicArrayWriteRule reaches) ARE known is the trait-level precondition `registered` = the typing state's registration invariant (`register` registers the whole sub-tree), assumed, not proved here
//@dropped TypeCheckerState::infer_for_many (array::from_fn + closure + iterator): assumed callee with the exact meaning of its body (one infer_for per array element, in order, same expression)
//@dropped CallDataRule: `byte_size * BYTE_SIZE_BITS` overflows usize for a constant size >= 2^61 bytes (debug: panic "attempt to multiply with overflow"; release: wrapped width) and gives a width > 256 for any constant size > 32 (64 bytes -> Word<Bytes, 512>). Both reproduced through the public rule API on a hand-built `call_data(offset, const)`; NOT reachable from bytecode by reading: CALLDATALOAD builds size = 32, CALLDATACOPY folds its size and for a constant stores 32-byte call_data words, so a CallData node with another size has a size that does not fold to a constant, the folder is idempotent (it only folds all-constant operator nodes), and no lifting pass creates a constant below a CallData node. Stated as the precondition `call_data_sized` (tree invariant), not proved
//@dropped SIGNEXTEND: the rule takes the numeric value of the node's `size` child as the result's width in BITS (its own test: 128 -> signed_word(Some(128))), the contract follows that in-file documentation; the EVM's operand is a BYTE INDEX b (width 8*(b+1)), and SignExtend::execute puts the EVM's byte index into `value` and the extended value into `size` (known finding D19, unit alu_ops) — so from bytecode the reported width is the extended VALUE when that is a constant <= 256: `6007 6000 0b 6000 55 00` (SIGNEXTEND(0, 7) stored to slot 0) is reported as Int { size: Some(7) }, `6010 6000 35 0b 6000 55 00` as Int { size: Some(16) }. Not a labelled obligation here (C12 only bounds the width by 256); reported
//@dropped ExtCodeRule is under contract here but is NOT in `InferenceRules::default()` (src/tc/rule/mod.rs neither imports nor adds it): its documented judgements are never produced by the default pipeline (`6000 35 3b 6000 55 00`, EXTCODESIZE stored to slot 0, is typed Any where BALANCE gives UInt). InferenceRules::{new, add, default}, RulesItem::{new, deref} (TypeId, Box<dyn>, HashSet insert) are not extracted: WHICH rules are in the default set is not under contract
//@dropped InferenceRules::infer: the HashSet iteration is an index loop over `rule_order`, an arbitrary fixed sequence (R-FOREACH); that the hash set yields every inserted rule exactly once is A-STD. "Stops at the first Err" is decided as: Ok iff no rule of the set fails on the value (a failing rule's error is returned at once — the `?` — and nothing is claimed about the log in that case beyond append-only); WHICH error is returned is not claimed
//@dropped SymbolicValueData::constant_fold (CallDataRule): assumed callee, uninterpreted (determinism only); KnownWord -> usize: uninterpreted function of the word (any usize may come out); the tests of every file; derived Debug/Eq/Hash on the rule structs
//@dropped the doc comments of create.rs and sha3.rs do not mention the CREATE2 salt (bytes32) and EXTCODEHASH (operand address, result bytes32): both are in the body and are taken over into the contract as they agree with the EVM; arithmetic_operations.rs, bit_shifts.rs, boolean_operations.rs, environment_opcodes.rs have no "equating" list — the contract follows their prose and per-arm comments
} // verus!
fn main() {}
