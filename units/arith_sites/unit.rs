//@unit props=C01,C12
// Unit arith_sites — properties C01 "analysis is total" (slice: the integer-arithmetic sites that turn
// attacker-chosen 256-bit constants, truncated to `usize`, into offsets and sizes — DESIGN §5 D7, D8) and
// C12 "entries inside their slot" (slice: where such a result is a bit position inside a 256-bit slot).
//
//   src/tc/lift/sub_word.rs         insert_sub_words (nested in SubWordValue::run), SubWordValue::get_shift, SubWord::new
//   src/tc/lift/mul_shifted.rs      MulShiftedValue::which_power_of_2, insert_multiplicative_shifts (nested in run)
//   src/tc/rule/mapping_access.rs   MappingAccessRule::infer  (+ Span::new, TE::mapping, TCSV::type_var,
//                                   TypeCheckerState::{var_unchecked, infer_for})
//   src/vm/state/memory.rs          Memory::{load_slice, decompose_size}
//
// What is decided: for ANY `usize` that comes out of a truncated constant (the conversions have NO
// contract), none of the functions under contract overflows, underflows, indexes out of bounds, unwraps a
// None or violates a callee precondition (Verus' implicit obligations = C01; unlabelled failures are
// attributed to the function's props); every loop terminates; a `SubWord` node that is created lies inside
// its slot; a `Shifted` node's / a reported shift amount is <= 256; the span a mapping access records
// starts at bit projection * 256 exactly, or nothing is recorded when that does not fit.
// What is not: see the //@dropped lines at the end. Everything marked A-... is an ASSUMPTION.
use vstd::prelude::*;
use std::sync::Arc;
use std::collections::HashMap;
//@include common/value_tree_items.rs
#[allow(dead_code, unused)]
mod ar_ext {
    use super::vt_ext::KnownWord;
    // A-CALLEE: the constructors and the truncating conversion of `KnownWord` (src/vm/value/known.rs; their
    // meaning is under contract in unit known_word). Stand-ins: `from_le` is monomorphised to the one
    // argument type the code under contract uses (`u8` literals).
    impl KnownWord {
        pub fn zero() -> KnownWord { unimplemented!() }
        pub fn from_le(_v: u8) -> KnownWord { unimplemented!() }
    }
    impl<'a> From<&'a KnownWord> for usize { fn from(_v: &'a KnownWord) -> usize { unimplemented!() } }
    impl From<KnownWord> for usize { fn from(_v: KnownWord) -> usize { unimplemented!() } }
    // A-ETHNUM: stand-in for ethnum::U256 (external crate); only a field type of `TypeExpression` here.
    #[derive(Clone, Copy, PartialEq, Eq)]
    pub struct U256(pub [u128; 2]);
    // A-EXT: the error container only appears in `infer`'s return type.
    pub struct Errors(pub u8);
}
use ar_ext::U256;
#[allow(dead_code, unused)]
mod error { pub mod unification { pub type Result<T> = std::result::Result<T, crate::ar_ext::Errors>; } }
use error::unification::Result;

verus! {

//@extract file=src/constant.rs path="const WORD_SIZE_BITS" kind=type
//@end

// ---- A-CALLEE: KnownWord constructors: uninterpreted words (determinism only; NOTHING is assumed about
// which word a literal denotes, nor about `/` and `%` — see value_tree_items.rs: `kw_div`, `kw_rem`).
pub uninterp spec fn kw_zero() -> KnownWord;
pub uninterp spec fn kw_of_u8(v: u8) -> KnownWord;
pub assume_specification[ KnownWord::zero ]() -> (r: KnownWord) ensures r == kw_zero();
pub assume_specification[ KnownWord::from_le ](v: u8) -> (r: KnownWord) ensures r == kw_of_u8(v);
// A-CALLEE: `From<&KnownWord> for usize` / `From<KnownWord> for usize` truncate the 256-bit word
// (`as_usize`): ANY usize may come out — no contract at all (obeys_from_spec = false).
impl<'a> vstd::std_specs::convert::FromSpecImpl<&'a KnownWord> for usize {
    open spec fn obeys_from_spec() -> bool { false }
    open spec fn from_spec(v: &'a KnownWord) -> usize { arbitrary() }
}
impl vstd::std_specs::convert::FromSpecImpl<KnownWord> for usize {
    open spec fn obeys_from_spec() -> bool { false }
    open spec fn from_spec(v: KnownWord) -> usize { arbitrary() }
}
pub assume_specification<'a>[ <usize as core::convert::From<&'a KnownWord>>::from ](v: &'a KnownWord) -> (r: usize);
pub assume_specification[ <usize as core::convert::From<KnownWord>>::from ](v: KnownWord) -> (r: usize);

// A-STD: `Option::is_some_and(f)` = `match self { Some(x) => f(x), None => false }` (core::option).
pub assume_specification<T, F: FnOnce(T) -> bool>[ Option::<T>::is_some_and ](o: Option<T>, f: F) -> (r: bool)
    requires o matches Some(x) ==> f.requires((x,)),
    ensures o is None ==> !r, o matches Some(x) ==> f.ensures((x,), r);

// ---------------- A-CALLEE: the traversal combinator and the folder ----------------
// `v.transform_data(f)` from within `f` itself (R-SELFREF: `tx_exec_isw` for insert_sub_words, `tx_exec_ims`
// for insert_multiplicative_shifts) and `constant_fold()` on a node / on a payload: assumed callees,
// uninterpreted results (determinism only). The folder's own no-overflow precondition (`child_size() + 1`,
// unit value_size) is not carried here (see //@dropped).
pub uninterp spec fn tx_isw(v: RSV) -> RSV;
pub uninterp spec fn tx_ims(v: RSV) -> RSV;
pub uninterp spec fn cfold(v: RSV) -> RSV;
pub uninterp spec fn cfold_data(d: RSVD) -> RSVD;
impl RSVD {
    #[verifier::external_body]
    pub fn constant_fold(&self) -> (r: Self) ensures r == cfold_data(*self) { unimplemented!() }
}
impl RSV {
    #[verifier::external_body]
    pub fn tx_exec_ims(&self) -> (r: RuntimeBoxedVal) ensures *r == tx_ims(*self) { unimplemented!() }
    #[verifier::external_body]
    pub fn tx_exec_isw(&self) -> (r: RuntimeBoxedVal) ensures *r == tx_isw(*self) { unimplemented!() }
    #[verifier::external_body]
    pub fn constant_fold(&self) -> (r: RuntimeBoxedVal) ensures *r == cfold(*self) { unimplemented!() }
}

// =========================== mul_shifted.rs ===========================
//@extract file=src/tc/lift/mul_shifted.rs path="struct MulShiftedValue" kind=type
//@end
//@extract file=src/tc/lift/mul_shifted.rs path="impl MulShiftedValue" kind=header
//@end
//@extract file=src/tc/lift/mul_shifted.rs path="impl MulShiftedValue|fn which_power_of_2"
//@ret r
//@spec
        ensures
            r matches Some(k) ==> k <= 256,                                                       //@ob C12.arith.which_power_of_2.bounded
            r == Some(0usize) ==> number == kw_of_u8(1),                                          //@ob C12.arith.which_power_of_2.zero_only_for_one
//@loop 1 kind=while
                invariant
                    counter <= 256,                                                               //@ob C12.arith.which_power_of_2.bounded
                    counter >= 1,                                                                 //@ob C12.arith.which_power_of_2.zero_only_for_one
                decreases 257 - counter,
//@end
}

//@extract file=src/tc/lift/mul_shifted.rs path="impl Lift for MulShiftedValue|fn run|fn insert_multiplicative_shifts"
//@ret r
//@rw R-SELFREF count=2
//@old
.transform_data(insert_multiplicative_shifts)
//@new
.tx_exec_ims()
//@spec
    ensures
        r matches Some(RSVD::Shifted { offset, .. }) ==> offset <= 256,                           //@ob C12.arith.mul_shifted.shift_inside_slot
        r matches Some(d2) ==> d2 is Shifted,                                                     //@ob C12.arith.mul_shifted.creates_only_shifted
        r is Some ==> *data is Multiply,                                                          //@ob C12.arith.mul_shifted.only_on_multiplication
        // what is shifted is the (traversed) operand whose folded form is a sub-word, the other operand folding to a constant:
        // the packed-encoding lift (unit packed_lift) relies on a Shifted wrapping a sub-word
        r matches Some(RSVD::Shifted { value, .. }) ==> (*data matches RSVD::Multiply { left, right } && (
            (cfold_data(right.dt()) is SubWord && cfold_data(left.dt()) is KnownData && *value == tx_ims(*right))
            || (cfold_data(left.dt()) is SubWord && cfold_data(right.dt()) is KnownData && *value == tx_ims(*left)))),   //@ob C12.arith.mul_shifted.shifts_the_sub_word_operand
//@end

// =========================== sub_word.rs ===========================
#[derive(Copy, Clone)]
//@extract file=src/tc/lift/sub_word.rs path="struct SubWord" kind=type
//@end
//@extract file=src/tc/lift/sub_word.rs path="impl SubWord" kind=header
//@end
//@extract file=src/tc/lift/sub_word.rs path="impl SubWord|fn new" props=C01
//@ret r
//@spec
        ensures r == (SubWord { offset, length }),
//@end
}

pub uninterp spec fn region_of(d: RSVD) -> Option<SubWord>;
/// the mask region of `a & b`: the left operand's if it has one, else the right operand's
pub open spec fn mask_region(d: RSVD) -> Option<SubWord> {
    match d {
        RSVD::And { left, right } => if region_of(left.dt()) is Some { region_of(left.dt()) } else { region_of(right.dt()) },
        _ => None,
    }
}

/// where a region ending at bit `e` of `v` ends in the outermost word: every enclosing sub-word adds its offset
pub open spec fn nested_end(v: RSV, e: int) -> int
    decreases v,
{
    match v.dt() {
        RSVD::SubWord { offset, value, .. } => nested_end(*value, e + offset),
        _ => e,
    }
}

//@extract file=src/tc/lift/sub_word.rs path="struct SubWordValue" kind=type
//@end
//@extract file=src/tc/lift/sub_word.rs path="impl SubWordValue" kind=header
//@end
    // A-CALLEE: `get_region` scans the bits of the folded mask with bitvec / itertools iterators
    // (outside Verus' subset). Assumed: it is a function of its argument (`region_of`, uninterpreted) —
    // NOTHING about the region it reports: any offset and length may come back (the in-slot bound below is
    // established by `insert_sub_words`' own check, not by an assumption about the mask scan).
    #[verifier::external_body]
    pub fn get_region(data: &RSVD) -> (r: Option<SubWord>) ensures r == region_of(*data) { unimplemented!() }

//@extract file=src/tc/lift/sub_word.rs path="impl SubWordValue|fn get_shift" props=C01
//@ret r
//@end
}

//@extract file=src/tc/lift/sub_word.rs path="impl Lift for SubWordValue|fn run|fn insert_sub_words"
//@ret r
//@rw R-SELFREF
//@old
.transform_data(insert_sub_words)
//@new
.tx_exec_isw()
//@rw R-SIG optional
//@old
.is_some_and(|$1| $2)
//@new
.is_some_and(|$1: usize| -> (vx_b: bool) ensures vx_b == ($2) { $2 })
//@spec
    ensures
        r matches Some(RSVD::SubWord { offset, size, .. }) ==> offset + size <= 256,             //@ob C12.arith.sub_word.region_inside_slot
        // the width is the mask's, and the shift moved the region UP without wrapping around (a wrapped
        // `offset + shift` is smaller than `offset`)
        r matches Some(RSVD::SubWord { offset, size, .. }) ==> mask_region(*data) matches Some(w) && size == w.length && offset >= w.offset,   //@ob C12.arith.sub_word.mask_width_kept_offset_not_wrapped
        r matches Some(d2) ==> d2 is SubWord,                                                     //@ob C12.arith.sub_word.creates_only_sub_word
        r is Some ==> *data is And,                                                               //@ob C12.arith.sub_word.only_on_mask_operation
        // sub-words nest with offsets relative to the sub-word they are taken from (abi_type_for_impl adds them up):
        // the region ends inside the word once the offsets of all the sub-words around it are added
        r matches Some(RSVD::SubWord { offset, size, value }) ==> nested_end(*value, offset + size) <= 256,   //@ob C12.arith.sub_word.nested_region_inside_slot
//@loop 1 kind=while
                invariant
                    end >= offset + length,
                    end == usize::MAX || nested_end(**enclosing, end as int) == nested_end(*value, offset + length),   //@ob C12.arith.sub_word.nested_region_inside_slot
                ensures
                    !(enclosing.dt() is SubWord),
                decreases enclosing,
//@end

// =========================== mapping_access.rs ===========================
#[verifier::external_type_specification]
#[verifier::external_body]
pub struct ExU256(U256);
#[verifier::external_type_specification]
#[verifier::external_body]
pub struct ExErrors(ar_ext::Errors);

#[derive(Copy, Clone)]
//@extract file=src/tc/expression.rs path="struct Span" kind=type
//@end
//@extract file=src/tc/expression.rs path="type TE" kind=type
//@end
//@extract file=src/tc/expression.rs path="enum WordUse" kind=type
//@end
//@extract file=src/tc/expression.rs path="enum TypeExpression" kind=type
//@end

//@extract file=src/tc/expression.rs path="impl Span" kind=header
//@end
//@extract file=src/tc/expression.rs path="impl Span|fn new" props=C01
//@ret r
//@spec
        ensures r == (Span { typ, offset, size }),
//@end
}

//@extract file=src/tc/expression.rs path="impl TypeExpression" kind=header
//@end
//@extract file=src/tc/expression.rs path="impl TypeExpression|fn mapping" props=C01
//@ret r
//@spec
        ensures r == (TypeExpression::Mapping { key, value }),
//@end
    // A-CALLEE: `packed_of` converts its elements with itertools' `map_into().collect()` (outside Verus'
    // subset); monomorphised to `Vec<Span>` (the only element type used by the code under contract, for
    // which `Into<Span>` is the identity). Assumed EXACTLY as its body reads: the same spans, in order,
    // not a struct.
    #[verifier::external_body]
    pub fn packed_of(types: Vec<Span>) -> (r: Self)
        ensures r matches TypeExpression::Packed { types: t2, is_struct } && t2@ == types@ && !is_struct,
    { unimplemented!() }
}

//@extract file=src/vm/value/mod.rs path="impl TCSV" kind=header
//@end
//@extract file=src/vm/value/mod.rs path="impl TCSV|fn type_var" props=C01
//@ret r
//@spec
        ensures r == self.aux(),
//@end
}

// A-CALLEE: the unifier state is opaque. Its views here: the LOG of inference judgements
// `(variable, expression)` handed to `infer`, in call order, and the set of type variables it `knows`
// (has an inference set for).
#[verifier::external_body]
pub struct TypeCheckerState { _p: u8 }
pub uninterp spec fn inferred(s: &TypeCheckerState) -> Seq<(TypeVariable, TypeExpression)>;
pub uninterp spec fn knows(s: &TypeCheckerState, tv: TypeVariable) -> bool;
pub uninterp spec fn fresh_tv(s: &TypeCheckerState) -> TypeVariable;
impl TypeCheckerState {
    // A-CALLEE: `infer(variable, expression)` (HashMap<_, HashSet<_>> bookkeeping; `impl Into` arguments
    // monomorphised). Written from its body: it PANICS (`get_mut(&variable).unwrap()`) when `variable` has
    // no inference set — the precondition; for an expression that is not an `Equal` it records exactly the
    // judgement it is handed (for `Equal` it also adds the symmetric judgement or nothing: not needed
    // here, nothing is assumed). The set of known variables is unchanged.
    #[verifier::external_body]
    pub fn infer(&mut self, variable: TypeVariable, expression: TypeExpression)
        requires
            knows(old(self), variable),
            !(expression is Equal),
        ensures
            inferred(final(self)) == inferred(old(self)).push((variable, expression)),
            forall|tv: TypeVariable| #[trigger] knows(final(self), tv) == knows(old(self), tv),
    { unimplemented!() }
    // A-CALLEE / A-UNSAFE: `unsafe fn allocate_ty_var` (no memory unsafety: "unsafe" marks an API
    // discipline) returns a variable that it registers (`inferences.entry(new_tv).or_insert(..)`), forgets
    // none, and records no judgement.
    #[verifier::external_body]
    pub fn allocate_ty_var_exec(&mut self) -> (r: TypeVariable)
        ensures
            inferred(final(self)) == inferred(old(self)),
            r == fresh_tv(old(self)),
            knows(final(self), r),
            forall|tv: TypeVariable| knows(old(self), tv) ==> #[trigger] knows(final(self), tv),
    { unimplemented!() }

//@extract file=src/tc/state/mod.rs path="impl TypeCheckerState|fn var_unchecked" props=C01
//@ret r
//@spec
        ensures r == value.aux(),
//@end
//@extract file=src/tc/state/mod.rs path="impl TypeCheckerState|fn infer_for" props=C01
//@ret r
//@rw R-IMPL-INTO
//@old
expression: impl Into<TypeExpression>
//@new
expression: TypeExpression
//@spec
        requires
            knows(old(self), value.aux()),
            !(expression is Equal),
        ensures
            r == value.aux(),
            inferred(final(self)) == inferred(old(self)).push((value.aux(), expression)),
            forall|tv: TypeVariable| #[trigger] knows(final(self), tv) == knows(old(self), tv),
//@end
}

// A-EXT: the `InferenceRule` interface of src/tc/rule/mod.rs (supertraits dropped; a declaration
// without executable content).
// Its precondition is the documented invariant of the typing state ("the only source of new type
// variables is the state": a value handed to a rule was registered together with its whole sub-tree by
// `TypeCheckerState::register`), restricted to the nodes this rule looks at.
trait InferenceRule {
    fn infer(&self, value: &TCBoxedVal, state: &mut TypeCheckerState) -> Result<()>
        requires forall|tv: TypeVariable| node_var(**value, tv) ==> #[trigger] knows(old(state), tv);
}
/// `tv` is the type variable of `v`, of its slot key, or of that key's mapping key / mapping slot
pub open spec fn node_var(v: TCSV, tv: TypeVariable) -> bool {
    ||| tv == v.aux()
    ||| (v.dt() matches TCSVD::StorageSlot { key } && (tv == key.aux()
            || (key.dt() matches TCSVD::MappingIndex { key: k, slot, .. } && (tv == k.aux() || tv == slot.aux()))))
}

/// the pattern the rule fires on: `slot< mapping_ix<slot>[key] (+ projection) >`
pub open spec fn mapping_site(v: TCSV) -> Option<(TCSV, TCSV, Option<usize>)> {
    match v.dt() {
        TCSVD::StorageSlot { key } => match key.dt() {
            TCSVD::MappingIndex { key: k, slot, projection } => Some((*k, *slot, projection)),
            _ => None,
        },
        _ => None,
    }
}
pub open spec fn proj(p: Option<usize>) -> int { match p { Some(x) => x as int, None => 0 } }
/// `e` is the packed encoding made of exactly one span
pub open spec fn packs_one(e: TypeExpression, typ: TypeVariable, offset: int, size: int) -> bool {
    e matches TypeExpression::Packed { types, is_struct } && !is_struct && types@.len() == 1
        && types@[0].typ == typ && types@[0].offset as int == offset && types@[0].size as int == size
}

/// what the rule records for `slot<mapping_ix<slot>[k]>` = `value`: two judgements appended to the log,
///   fresh := packed[ span(type of `value`, bit_offset, one word) ]      slot's type := mapping<type of k, fresh>
pub open spec fn access_logged(log0: Seq<(TypeVariable, TypeExpression)>, log: Seq<(TypeVariable, TypeExpression)>,
                               fresh: TypeVariable, value: TCSV, k: TCSV, slot: TCSV, bit_offset: int) -> bool {
    let n = log0.len() as int;
    &&& log.len() == n + 2 && log.subrange(0, n) =~= log0
    &&& log[n].0 == fresh
    &&& packs_one(log[n].1, value.aux(), bit_offset, 256)
    &&& log[n + 1] == (slot.aux(), TypeExpression::Mapping { key: k.aux(), value: fresh })
}

//@extract file=src/tc/rule/mapping_access.rs path="struct MappingAccessRule" kind=type
//@end
//@extract file=src/tc/rule/mapping_access.rs path="impl InferenceRule for MappingAccessRule" kind=header
//@end
//@extract file=src/tc/rule/mapping_access.rs path="impl InferenceRule for MappingAccessRule|fn infer"
//@ret r
//@rw R-CALL
//@old
unsafe { state.allocate_ty_var() }
//@new
state.allocate_ty_var_exec()
//@spec
        ensures
            r is Ok,
            // the value span starts at bit projection * 256 EXACTLY (no wrap-around) and is one word wide
            mapping_site(**value) matches Some((k, slot, p)) ==> proj(p) * 256 + 256 <= usize::MAX ==>
                access_logged(inferred(old(state)), inferred(final(state)), fresh_tv(old(state)), **value, k, slot, proj(p) * 256),   //@ob C12.arith.mapping_access.span_offset_exact
            // a projection whose word [offset, offset + 256) cannot be expressed says nothing (it must not wrap into a small
            // offset, and its END must be representable too: the members' spans are added up when their types meet — D27)
            mapping_site(**value) matches Some((k, slot, p)) ==> proj(p) * 256 + 256 > usize::MAX ==>
                inferred(final(state)) == inferred(old(state)),                                  //@ob C12.arith.mapping_access.unrepresentable_projection_infers_nothing
            mapping_site(**value) is None ==> inferred(final(state)) == inferred(old(state)),       //@ob C12.arith.mapping_access.only_on_mapping_access
//@end
}

// =========================== memory.rs ===========================
//@extract file=src/vm/state/memory.rs path="enum MemStoreSize" kind=type
//@end
//@extract file=src/vm/state/memory.rs path="struct MemStore" kind=type
//@end
//@extract file=src/vm/state/memory.rs path="struct Memory" kind=type
//@end

impl RSV {
    // A-CALLEE: `RSV::new` — contract proved in unit value_size under the precondition "the tree below has
    // fewer than usize::MAX nodes" (`child_size() + 1`); that precondition is NOT carried here (see //@dropped).
    #[verifier::external_body]
    pub fn new(instruction_pointer: u32, data: RSVD, provenance: Provenance, value_size_limit: Option<usize>) -> (r: RuntimeBoxedVal)
    { unimplemented!() }
}

// R-LOOP-OPAQUE stand-in for `for w in (RANGE).step_by(STEP) { values.push(get_or_initialize(map, &w).clone()) }`:
// the RANGE and STEP expressions stay in the verified text as arguments; the loop body may do anything to
// the map and to `values` (no postcondition = havoc). A-STD: `Iterator::step_by` panics on a zero step.
#[verifier::external_body]
fn opaque_for(range: core::ops::Range<usize>, step: usize, map: &mut HashMap<usize, Vec<MemStore>>, values: &mut Vec<RuntimeBoxedVal>)
    requires step > 0,
{ unimplemented!() }

//@extract file=src/vm/state/memory.rs path="impl Memory" kind=header
//@end
    // A-CALLEE: `get_or_initialize` (HashMap Entry API + closure; hands out a reference into the map): opaque,
    // no contract. It cannot panic: the vector it reads `last()` of is created non-empty and only pushed to.
    #[verifier::external_body]
    fn get_or_initialize<'a, K>(map: &'a mut HashMap<K, Vec<MemStore>>, key: &'a K) -> &'a RuntimeBoxedVal
    { unimplemented!() }

//@extract file=src/vm/state/memory.rs path="impl Memory|fn decompose_size" props=C01
//@ret r
//@end
//@extract file=src/vm/state/memory.rs path="impl Memory|fn load_slice" props=C01
//@ret r
//@rw R-LOOP-OPAQUE
//@old
for $3 in ($1).step_by($2) { $4 }
//@new
opaque_for($1, $2, &mut self.constant_offsets, &mut values);
//@end
}

//@dropped SubWordValue::get_region (bitvec bits_le, itertools find_position, closures): assumed callee with NO contract; the in-slot bound of the sub-word is established by insert_sub_words' own check, so nothing about the mask scan is assumed, and nothing about it is proved (DESIGN §6 C12 "get_region: bit-scan" is not decided)
//@dropped load_slice: the body of `for word_offset in (offset..end).step_by(32) { values.push(get_or_initialize(..).clone()) }` is R-LOOP-OPAQUE (StepBy iterator): the range and step expressions are verified as arguments, whatever the body does (incl. any arithmetic added to it) is not; Memory::get_or_initialize (HashMap Entry API, closure, `entry.last().unwrap()`) is an assumed callee without contract — its unwrap relies on the unchecked invariant "every vector in the maps is non-empty"
//@dropped RSV::new / SymbolicValue::constant_fold / SymbolicValueData::constant_fold: assumed callees; their no-overflow precondition `child_size() + 1` ("fewer than usize::MAX nodes below", proved under that precondition in unit value_size) is not carried to the call sites in load_slice, decompose_size, get_shift, insert_multiplicative_shifts
//@dropped SymbolicValue::transform_data applied to the enclosing function (R-SELFREF): assumed callee, uninterpreted; SubWordValue::run / MulShiftedValue::run (one line: hand the nested fn to the traversal) are not extracted
//@dropped TypeCheckerState::{infer, allocate_ty_var}: callee stand-ins here (their contracts are PROVED in unit tc_state: C14.tc_state.infer.*, allocate_ty_var.*); infer's precondition "the variable is known" is discharged for the fresh variable and ASSUMED (trait-level precondition of InferenceRule::infer = the typing state's documented invariant) for the variables of the nodes of the value handed to the rule; TypeExpression::packed_of (itertools map_into) assumed with its exact one-line meaning
//@dropped lift_packed_encodings (src/tc/lift/packed_encoding.rs) is under contract in unit packed_lift (its precondition: sub-words inside the word, shifts <= 256, a Shifted wraps a sub-word, are this unit's postconditions C12.arith.sub_word.region_inside_slot / mul_shifted.shift_inside_slot / mul_shifted.shifts_the_sub_word_operand; that the folded form being a SubWord makes the traversed operand a SubWord rests on the folder and the traversal, both uninterpreted here)
//@dropped Span::end_bit (`offset + size`), the `ofs + offset` accumulation of abi_type_for_impl (src/tc/mod.rs), MemStoreSize::bits_count, Memory::{store_with_size, load}: not under contract in this unit
//@dropped which_power_of_2: that the reported k is the base-2 logarithm of the argument is NOT claimed (KnownWord `%`, `/`, `==` are uninterpreted here; DESIGN §5 notes which_power_of_2(10) == Some(3)); only termination, k <= 256 and "0 only for the word 1"
} // verus!
fn main() {}
