//@unit props=C13,C01
// Unit tc_loops — the four polled phase loops of the type checker (src/tc/mod.rs): `TypeChecker::lift`,
// `TypeChecker::assign_vars`, `TypeChecker::infer` and `TypeChecker::unify` (the METHOD: it calls `unification::unify`
// — unit unify, a callee here — and then builds the layout from the constant storage slots), plus the nested
// `is_constant_storage_slot`, against C13 (watchdog), C05 / C06 / C12 (which `layout.add` calls are made), C17 (where
// the errors are located) and C01 (no overflow of the loop counters, no `% 0`).
//
// EVERYTHING THE LOOPS TALK TO IS AN EXTERNAL ORACLE WITH GHOST CALL HISTORY (the style of unit watchdog):
//   * the watchdog: `answer(k)` is what the k-th poll of the run answers, `polls()` counts the polls made;
//   * the lifting passes: `lift_answer(k)` is what the k-th call of `LiftingPasses::run` returns, `log()` lists the values
//     `run` was called on, in call order;
//   * the typing state: `registered()` lists the values handed to `register`, `inferred()` the values the inference rules
//     were run on (`infer_answer(k)` = what the k-th such run returns), `vals()` is the sequence `values()` enumerates;
//   * `abi_type_for`: returns `abi_spec(state.resolved(), var)` — uninterpreted, `resolved()` = what the variables resolve to, an
//     abstract token — and is a query (it leaves `vals()` and `resolved()` alone); `converted()` lists the variables it was asked about;
//   * `unification::unify`: the state records whether its last call returned Ok (`unified_ok()`) and the poll count at its return
//     (`unified_at()`), so that the polls of the layout loop can be told from those of unification;
//   * the layout: `adds()` lists the `(index, offset, type)` triples `add` was called with, in call order.
// Nothing is assumed about the answers: every contract below holds for every oracle.
//
// Contract (labels Cnn.tcl.<fn>.<what>; <fn> = lift | assign_vars | infer | unify), with e = poll_every() >= 1 (precondition, as in unit
// watchdog: nothing in the repository rejects `polling_every(0)`), D = the sequence the loop runs over (lift: unique_of(all values);
// assign_vars: the parameter; infer: state.values(); unify: the constant storage slots among state.values() after unification) and
// i = how far the callee's ghost history grew = the number of elements processed:
//   C13  loop.polls_once_per_interval             polls made so far == ceil(iterations so far / e): iteration k polls iff k % e == 0, BEFORE element k is touched
//        loop.goes_on_only_if_every_poll_continued  the loop goes round again only if every poll so far answered continue
//        every_poll_but_the_last_continued        on every outcome: either the LAST poll made answered stop and all earlier ones continue, or all answered continue
//        stop_answer_returns_the_stop_error       last poll answered stop ==> Err holding exactly one error, StoppedByWatchdog, located at D[i].ip (C17: the
//                                                 instruction pointer of the value being processed), raised AT THAT POLL (no further poll)
//        stopped_at_the_poll_due_before_that_value  ... i % e == 0 and polls made == ceil(i / e) + 1
//        *_once_per_value_in_order_nothing_after_a_stop   on every outcome the callee's history grew by exactly D[0..i], in order: after a stop neither
//                                                 element i nor any later one is run / registered / inferred / converted (for `unify`: no further abi_type_for, and
//                                                 the layout - a local - is dropped)
//        polls_once_per_interval                  every poll answered continue ==> all of D processed (infer / unify: up to and including the element whose
//                                                 callee returned Err) and polls made == ceil(i / e) EXACTLY
//        ok_only_if_every_poll_continued          r is Ok ==> every poll made answered continue (never a result built from partial work)
//        unify.unification_stop_is_forwarded      a stop inside `unification::unify` is returned as it is; nothing is converted
//   C17  lift.err_iff_some_pass_error / collects_every_pass_error   not stopped ==> Err iff some failed run recorded an error; the container holds exactly
//                                                 the errors of all failed runs (multiset), ordered by location (contracts of unit errors, A-CALLEE)
//        infer.first_error_is_returned_immediately  the error of the first failing rule run is returned as it is, no later value is touched
//        unify.never_an_invalid_tree_error        every Err is a stop error or the error `abi_type_for` returned for the last slot converted: the two
//                                                 InvalidTree exits (located at the slot's ip) are dead code given the filter
//   C05  unify.entries_only_for_constant_slots    every `add` has as index the KnownData word of the key of a StorageSlot value of `state.values()`
//        is_constant_storage_slot.exact           the filter is true iff the value is a StorageSlot whose key is KnownData
//   C06  unify.every_constant_slot_contributes_exactly_its_entries   Ok(layout) ==> layout.adds() == flat_map over filter(state.values(), is_constant_storage_slot) of
//   C12                                           [ (index, 0, t) ] for `Type(t)`,  [ (index, off_j, t_j) .. ] in order for `Packed(..)`: offsets passed through unchanged;
//        unify.ok_only_if_every_slot_converted    and `abi_type_for` returned Ok for every one of them;  the_layout_holds_exactly_the_added_entries (multiset)
//        lift.ok_is_the_run_results_in_order      Ok(new_values) is exactly the Ok results of the runs on D, in order
//   C01  *.modulus_not_zero; *.loop.counter_bounded_by_the_collection (no overflow of `counter += 1`: implicit obligation)
use vstd::prelude::*;
use std::sync::Arc;
use std::collections::VecDeque;
use vstd::multiset::Multiset;
//@dropped tc/mod.rs: TypeChecker::{new, run, abi_type_for, abi_type_for_impl, type_of (unit type_of), accessors}, Config builders, AbiValue::expect_type, From impls; `run` (the four phases chained with `?`) is not under contract
//@dropped `LiftingPasses::run`, `InferenceRules::infer`, `TypeCheckerState::{register, values, var_unchecked}`, `TypeChecker::abi_type_for`, `unification::unify`, `StorageLayout::{default, add}`, `ExecutionResult::all_values`, `Errors::add_many_located` are stand-ins (A-CALLEE) with ghost call histories; WHAT the passes / rules / conversion compute is not under contract here
//@dropped `itertools::unique()` + collect into a VecDeque is a stand-in (A-STD): the result is `unique_of(input)`, uninterpreted: SOME sequence determined by the input; that de-duplication keeps a copy of every value is not under contract
//@dropped `self.watchdog.should_stop()` / `Watchdog::should_stop(&self)` take shared references in the repository (the oracle's state is external); the stand-in takes `&mut` so that the ghost poll counter can advance — the call text is unchanged except `&self.watchdog` -> `&mut self.watchdog` at the call of `unification::unify` (R-SIG, as in unit unify)
//@dropped R-FOREACH: `for (i, x) in v.into_iter().enumerate() {` is rewritten at its HEADER only into an index loop (`i` is the index, `x` the i-th element); `xs.into_iter().filter(|v| P).cloned().collect()` into a loop that keeps the clones of the elements for which P (the closure body, carried over verbatim) holds, in order; `ts.into_iter().for_each(|(a, b)| S)` into an index loop that runs S (carried over verbatim) on every pair in order; `s.values().into_iter().cloned().collect::<Vec<_>>()` (R-CALL) into a stand-in returning the clones in order
//@dropped R-HOIST: the nested fn `is_constant_storage_slot` of `TypeChecker::unify` is extracted as a top-level fn with its own contract and removed from the body of `unify` (fail-closed: exactly that set of nested fns); `while let Some(x) = q.pop_front()` and `let PATTERN = e else { .. }` reach Verus verbatim (no rewrite)
//@dropped the InvalidTree exits of the layout loop are proved DEAD (never_an_invalid_tree_error), so "located at the slot's instruction pointer" is vacuous for them: an edit that only changes their location is not detected
//@dropped order and identity of HashMap iteration (`state.values()`): modelled as ONE fixed sequence `vals()` per state (C02 is not under contract here)
//@include common/value_tree_items.rs

// A-ETHNUM: stand-in for ethnum::U256 (payload of TypeExpression::FixedArray; untouched here)
mod ext {
    #[derive(Clone, Copy, PartialEq, Eq)]
    pub struct U256(pub [u128; 2]);
}
use ext::U256;

pub mod container {
use vstd::prelude::*;
verus! {
//@include stack/container_items.rs
// `Err(e)?` converts the error with `<Errors<E> as From<E>>::from` (proved in units errors / type_of: C17.errors.from_one.lists_it).
// A-STD (link axiom, as in units type_of / unify): vstd specifies the conversion inside `?` only as the uninterpreted relation
// `spec_from(value, ret)`; this axiom connects it to the one impl used here, with exactly the contract proved for it.
impl<E> vstd::std_specs::convert::FromSpecImpl<E> for Errors<E> {
    open spec fn obeys_from_spec() -> bool { false }
    open spec fn from_spec(v: E) -> Errors<E> { arbitrary() }
}
pub broadcast axiom fn axiom_question_mark_converts_with_from<E>(v: E, r: Errors<E>)
    requires #[trigger] vstd::std_specs::control_flow::spec_from::<Errors<E>, E>(v, r),
    ensures r.log() == seq![v];
//@extract file=src/error/container.rs path="impl<E> Default for Errors<E>" kind=header
//@end
//@extract file=src/error/container.rs path="impl<E> Default for Errors<E>|fn default" id=container::Errors::default
//@ret r
//@spec
        ensures r.log() == Seq::<E>::empty(),
//@end
}
//@extract file=src/error/container.rs path="impl<E> From<E> for Errors<E>" kind=header
//@rw R-SIG
//@old
E: std::error::Error,
//@new
E: Sized,
//@end
//@extract file=src/error/container.rs path="impl<E> From<E> for Errors<E>|fn from" id=container::Errors::from_one
//@ret r
//@spec
        ensures r.log() == seq![value],
//@end
}
/// ordered by bytecode location (as in unit errors)
pub open spec fn by_location<E: Clone>(s: Seq<Located<E>>) -> bool {
    forall|i: int, j: int| 0 <= i < j < s.len() ==> s[i].location <= s[j].location
}
impl<E: Clone> Errors<Located<E>> {
    // A-CALLEE: `Errors::add_many_located` with the contract PROVED in unit errors (C17.errors.add_many_located.keeps_every_error_adds_all /
    // .len / .ordered_by_location) composed with `From<Errors<E>> for Vec<E>` (C17.errors.into_vec.lists_every_recorded_error): the caller
    // hands over an `Errors` container (R-IMPL-INTO: `impl Into<Vec<Located<E>>>` monomorphised to the one type `lift` passes).
    #[verifier::external_body]
    pub fn add_many_located(&mut self, errors: Errors<Located<E>>)
        ensures
            final(self).log().to_multiset() == old(self).log().to_multiset().add(errors.log().to_multiset()),
            final(self).log().len() == old(self).log().len() + errors.log().len(),
            by_location(final(self).log()),
    { unimplemented!() }
}
} // verus!
}

verus! {
#[verifier::external_type_specification]
#[verifier::external_body]
pub struct ExU256(U256);

// ---- data types of the error enum (extracted verbatim; untouched here) ---------------------------------------
//@extract file=src/tc/expression.rs path="enum WordUse" kind=type
//@end
//@extract file=src/tc/expression.rs path="struct Span" kind=type
//@end
//@extract file=src/tc/expression.rs path="type TE" kind=type
//@end
//@extract file=src/tc/expression.rs path="enum TypeExpression" kind=type
//@end
// A-STD (type stand-in): `InferenceSet = HashSet<TypeExpression>` (payload of Error::UnificationIncomplete; untouched here)
#[verifier::external_body]
pub struct InferenceSet { _s: std::collections::HashSet<u8> }

// ---- errors (extracted) ------------------------------------------------------------------------------------
//@extract file=src/error/unification.rs path="enum Error" kind=type id=unification::Error
//@end
// A-DERIVE: #[derive(Clone)] on Error returns an equal value (needed by `Located<E: Clone>`)
impl Clone for Error {
    #[verifier::external_body]
    fn clone(&self) -> (r: Self) ensures r == *self { unimplemented!() }
}
//@extract file=src/error/unification.rs path="type LocatedError" kind=type
//@end
//@extract file=src/error/unification.rs path="type Errors" kind=type
//@end
//@extract file=src/error/unification.rs path="type Result" kind=type
//@end
use container::Locatable;
use container::by_location;
//@extract file=src/error/unification.rs path="impl container::Locatable for Error" kind=header
//@end
    type Located = LocatedError;
//@extract file=src/error/unification.rs path="impl container::Locatable for Error|fn locate" id=unification::Error::locate props=C17,C01
//@ret r
//@spec
        ensures r.location == instruction_pointer,     //@ob C17.tcl.locate.location
                r.payload == self,                     //@ob C17.tcl.locate.payload
//@end
}

// ---- the watchdog: an external oracle with ghost poll history (as in units watchdog / unify) -------------------
/// what the k-th poll of the run answers: `true` = stop.  Arbitrary: the contracts hold for every oracle.
pub uninterp spec fn answer(k: nat) -> bool;
/// A-CALLEE (opaque stand-in for `DynWatchdog = Rc<dyn Watchdog>`)
#[verifier::external_body]
pub struct DynWatchdog { _opaque: u8 }
impl DynWatchdog {
    /// GHOST: the number of polls made so far
    pub uninterp spec fn polls(&self) -> nat;
    /// the interval the watchdog asks for
    pub uninterp spec fn interval(&self) -> usize;
    // A-CALLEE: Watchdog::should_stop answers what the oracle answers to this poll, and the poll is counted.
    // (`&mut`: see the //@dropped note - the repository's method takes `&self`, the oracle's state is external.)
    #[verifier::external_body]
    pub fn should_stop(&mut self) -> (r: bool)
        ensures r == answer(old(self).polls()), final(self).polls() == old(self).polls() + 1, final(self).interval() == old(self).interval(),
    { unimplemented!() }
    // A-CALLEE: Watchdog::poll_every returns the fixed interval and is not a poll
    #[verifier::external_body]
    pub fn poll_every(&self) -> (r: usize)
        ensures r == self.interval(),
    { unimplemented!() }
}
/// "stopped at the first stop answer": the LAST poll made answered stop, every earlier one answered continue
pub open spec fn stopped_at_first_stop(before: &DynWatchdog, after: &DynWatchdog) -> bool {
    &&& after.polls() > before.polls()
    &&& answer((after.polls() - 1) as nat)
    &&& forall|k: nat| before.polls() <= k < after.polls() - 1 ==> !answer(k)
}
/// every poll made between the two states answered continue
pub open spec fn every_poll_continued(before: &DynWatchdog, after: &DynWatchdog) -> bool {
    &&& after.polls() >= before.polls()
    &&& forall|k: nat| before.polls() <= k < after.polls() ==> !answer(k)
}
/// polls made between the two states
pub open spec fn polls_made(before: &DynWatchdog, after: &DynWatchdog) -> int { after.polls() - before.polls() }

// ---- arithmetic of "once per `every` iterations, starting with the first" = ceil(n / every) (as in unit watchdog, proved here too) ----
/// polls a loop of `iterations` iterations makes when it polls on the iterations 0, every, 2 * every, ..
pub open spec fn polls_due(iterations: nat, every: nat) -> nat { if every == 0 { 0 } else { ((iterations + every - 1) as nat) / every } }
/// one more iteration costs one more poll exactly when its index is a multiple of the interval
pub proof fn lemma_polls_due_step(c: nat, e: nat)
    requires e >= 1,
    ensures polls_due(c + 1, e) == polls_due(c, e) + (if c % e == 0 { 1nat } else { 0nat }),
{
    let q = (c / e) as int;
    let r = (c % e) as int;
    let d = e as int;
    vstd::arithmetic::div_mod::lemma_fundamental_div_mod(c as int, d);
    assert(c as int == q * d + r) by (nonlinear_arith) requires c as int == d * q + r;
    assert((q + 1) * d == q * d + d) by (nonlinear_arith);
    if r == 0 {
        vstd::arithmetic::div_mod::lemma_fundamental_div_mod_converse(c as int + d - 1, d, q, d - 1);
        vstd::arithmetic::div_mod::lemma_fundamental_div_mod_converse(c as int + d, d, q + 1, 0);
    } else {
        vstd::arithmetic::div_mod::lemma_fundamental_div_mod_converse(c as int + d - 1, d, q + 1, r - 1);
        vstd::arithmetic::div_mod::lemma_fundamental_div_mod_converse(c as int + d, d, q + 1, r);
    }
    assert(((c + e - 1) as nat) as int == c as int + d - 1);
    assert(((c + 1 + e - 1) as nat) as int == c as int + d);
}
pub proof fn lemma_polls_due_zero(e: nat)
    requires e >= 1,
    ensures polls_due(0, e) == 0,
{
    vstd::arithmetic::div_mod::lemma_fundamental_div_mod_converse((e - 1) as int, e as int, 0, (e - 1) as int);
}

// A-STD: a VecDeque never holds more than usize::MAX elements (`len()` returns a usize)
pub broadcast axiom fn axiom_vecdeque_len<T>(q: &VecDeque<T>)
    ensures #[trigger] q@.len() <= usize::MAX;

// ---- the outcome vocabulary ----------------------------------------------------------------------------------
/// the error value is exactly one error: stopped-by-watchdog, located at `at`
pub open spec fn stop_error(e: Errors, at: u32) -> bool {
    e.log().len() == 1 && e.log()[0].location == at && e.log()[0].payload is StoppedByWatchdog
}

// ---- lifting passes: an opaque callee with ghost call history ---------------------------------------------------
/// what the k-th call of `LiftingPasses::run` of the run returns.  Arbitrary.
pub uninterp spec fn lift_answer(k: nat) -> Result<RuntimeBoxedVal>;
/// A-CALLEE (opaque stand-in for `LiftingPasses`)
#[verifier::external_body]
pub struct LiftingPasses { _opaque: u8 }
impl LiftingPasses {
    /// GHOST: the values `run` has been called on so far, in call order
    pub uninterp spec fn log(&self) -> Seq<RuntimeBoxedVal>;
    // A-CALLEE: the call is recorded; the result is whatever the oracle says for this call.  The state is only read.
    #[verifier::external_body]
    pub fn run(&mut self, value: RuntimeBoxedVal, state: &TypeCheckerState) -> (r: Result<RuntimeBoxedVal>)
        ensures final(self).log() == old(self).log().push(value), r == lift_answer(old(self).log().len()),
    { unimplemented!() }
}
/// the Ok results of the calls k0 .. k0 + n, in call order
pub open spec fn lift_oks(k0: nat, n: nat) -> Seq<RuntimeBoxedVal>
    decreases n,
{
    if n == 0 { Seq::empty() } else {
        match lift_answer((k0 + n - 1) as nat) { Ok(v) => lift_oks(k0, (n - 1) as nat).push(v), Err(_) => lift_oks(k0, (n - 1) as nat) }
    }
}
/// all errors of the failed calls among k0 .. k0 + n
pub open spec fn lift_errs(k0: nat, n: nat) -> Multiset<LocatedError>
    decreases n,
{
    if n == 0 { Multiset::empty() } else {
        match lift_answer((k0 + n - 1) as nat) { Ok(_) => lift_errs(k0, (n - 1) as nat), Err(e) => lift_errs(k0, (n - 1) as nat).add(e.log().to_multiset()) }
    }
}
pub proof fn lemma_lift_step(k0: nat, c: nat)
    ensures
        lift_oks(k0, c + 1) == (match lift_answer(k0 + c) { Ok(v) => lift_oks(k0, c).push(v), Err(_) => lift_oks(k0, c) }),
        lift_errs(k0, c + 1) == (match lift_answer(k0 + c) { Ok(_) => lift_errs(k0, c), Err(e) => lift_errs(k0, c).add(e.log().to_multiset()) }),
{
    assert((k0 + (c + 1) - 1) as nat == k0 + c);
    assert(((c + 1) - 1) as nat == c);
}

// ---- inference rules ------------------------------------------------------------------------------------------
/// what the k-th run of the inference rules (over the whole run) returns.  Arbitrary.
pub uninterp spec fn infer_answer(k: nat) -> Result<()>;
/// A-CALLEE (opaque stand-in for `InferenceRules`)
#[verifier::external_body]
pub struct InferenceRules { _opaque: u8 }
impl InferenceRules {
    // A-CALLEE: the run is recorded in the state's ghost history; the result is whatever the oracle says for this run
    #[verifier::external_body]
    pub fn infer(&mut self, value: &TCBoxedVal, state: &mut TypeCheckerState) -> (r: Result<()>)
        ensures
            final(state).inferred() == old(state).inferred().push(*value),
            r == infer_answer(old(state).inferred().len()),
    { unimplemented!() }
}

// ---- the typing state ---------------------------------------------------------------------------------------
/// what every variable resolves to after unification (the classes of the forest and their data): an abstract token.
/// `abi_type_for` / `type_of` only QUERY it (C14.type_of.type_of.classes_unchanged).
#[verifier::external_body]
pub struct Resolution { _opaque: u8 }
/// A-CALLEE (type stand-in for `TypeCheckerState`)
#[verifier::external_body]
pub struct TypeCheckerState { _opaque: u8 }
impl TypeCheckerState {
    /// the sequence `values()` enumerates (HashMap order: one fixed sequence per state)
    pub uninterp spec fn vals(&self) -> Seq<TCBoxedVal>;
    /// what every variable resolves to
    pub uninterp spec fn resolved(&self) -> Resolution;
    /// GHOST: the values handed to `register` so far, in call order
    pub uninterp spec fn registered(&self) -> Seq<RuntimeBoxedVal>;
    /// GHOST: the values the inference rules have been run on so far, in call order
    pub uninterp spec fn inferred(&self) -> Seq<TCBoxedVal>;
    /// GHOST: the variables `abi_type_for` has been asked about so far, in call order
    pub uninterp spec fn converted(&self) -> Seq<TypeVariable>;
    /// GHOST: whether the last call of `unification::unify` on this state returned Ok, and the poll count when it returned
    pub uninterp spec fn unified_ok(&self) -> bool;
    pub uninterp spec fn unified_at(&self) -> nat;
    // A-CALLEE: `register` - the call is recorded (what it registers is not under contract here)
    #[verifier::external_body]
    pub fn register(&mut self, value: RuntimeBoxedVal) -> (r: TypeVariable)
        ensures final(self).registered() == old(self).registered().push(value),
    { unimplemented!() }
    // A-CALLEE / A-STD: `values()` = `self.expressions.values().collect()`: references to the registered values, in the map's order
    #[verifier::external_body]
    pub fn values(&self) -> (r: Vec<&TCBoxedVal>)
        ensures r@.len() == self.vals().len(), forall|k: int| 0 <= k < r@.len() ==> *(#[trigger] r@[k]) == self.vals()[k],
    { unimplemented!() }
    // A-CALLEE: `var_unchecked(v)` = `v.type_var()` = the value's aux data (read from src/tc/state/mod.rs)
    #[verifier::external_body]
    pub fn var_unchecked(&self, value: &TCBoxedVal) -> (r: TypeVariable)
        ensures r == value.aux(),
    { unimplemented!() }
}
// A-STD (R-CALL stand-in): `refs.into_iter().cloned().collect::<Vec<_>>()` — the clones of the referenced values, in order
// (`Arc::clone` returns an equal value).
#[verifier::external_body]
pub fn vx_cloned(refs: Vec<&TCBoxedVal>) -> (r: Vec<TCBoxedVal>)
    ensures r@.len() == refs@.len(), forall|k: int| 0 <= k < r@.len() ==> #[trigger] r@[k] == *refs@[k],
{ unimplemented!() }
// A-STD (R-FOREACH stand-in): by-value iteration over a Vec hands out its elements in index order (a move in the real
// loop; the stand-in returns the element itself) — as in unit unify.
#[verifier::external_body]
pub fn vx_nth<T>(v: &Vec<T>, i: usize) -> (r: T)
    requires i < v@.len(),
    ensures r == v@[i as int],
{ unimplemented!() }

// ---- the execution result and de-duplication ------------------------------------------------------------------
/// A-CALLEE (opaque stand-in for `ExecutionResult`)
#[verifier::external_body]
pub struct ExecutionResult { _opaque: u8 }
impl ExecutionResult {
    pub uninterp spec fn vals(&self) -> Seq<RuntimeBoxedVal>;
    // A-CALLEE: `all_values(self)`: the values recorded by all states (which ones: units storage / threads)
    #[verifier::external_body]
    pub fn all_values(self) -> (r: Vec<RuntimeBoxedVal>)
        ensures r@ == self.vals(),
    { unimplemented!() }
}
/// what `itertools::unique()` keeps of a sequence (uninterpreted)
pub uninterp spec fn unique_of(s: Seq<RuntimeBoxedVal>) -> Seq<RuntimeBoxedVal>;
// A-STD (R-CALL stand-in): `v.into_iter().unique().collect::<VecDeque<_>>()`.  ASSUMED: the result is SOME sequence that is a
// function of the input sequence - nothing else (that it keeps one copy of every value is itertools' business; C06's
// "de-duplication never drops a slot" is NOT decided here).
#[verifier::external_body]
pub fn vx_unique_deque(v: Vec<RuntimeBoxedVal>) -> (r: VecDeque<RuntimeBoxedVal>)
    ensures r@ == unique_of(v@),
{ unimplemented!() }



// ---- ABI values and the layout -----------------------------------------------------------------------------------
// A-CALLEE: AbiType (src/tc/abi.rs) is an opaque payload here.
#[verifier::external_body]
pub struct AbiType { _p: u8 }
//@extract file=src/tc/mod.rs path="enum AbiValue" kind=type
//@end
/// one `StorageLayout::add` call: (index, offset, type)
pub type Entry = (KnownWord, usize, AbiType);
/// A-CALLEE (opaque stand-in for `StorageLayout`) with the ghost history of its `add` calls.  `entries()` is the multiset of the
/// layout's slots: unit layout PROVES that `add` keeps every previous entry and inserts exactly `(index, offset, typ)`
/// (C12.layout.add.keeps_entries_adds_one), that the 256-bit index is carried exactly (C06.layout.wrapper_from_known_word_ref.exact)
/// and that the slots stay ordered by (index, offset) (C12.layout.add.sorted); `default()` is empty (C12.layout.default.empty_sorted).
#[verifier::external_body]
pub struct StorageLayout { _opaque: u8 }
impl StorageLayout {
    /// GHOST: the `add` calls made so far, in call order
    pub uninterp spec fn adds(&self) -> Seq<Entry>;
    /// the slots of the layout, as a multiset of (index, offset, type)
    pub uninterp spec fn entries(&self) -> Multiset<Entry>;
    // A-CALLEE (R-IMPL-INTO: `index: impl Into<U256Wrapper>` monomorphised to the one type the loop passes, `&KnownWord`)
    #[verifier::external_body]
    pub fn add(&mut self, index: &KnownWord, offset: usize, typ: AbiType)
        ensures
            final(self).adds() == old(self).adds().push((*index, offset, typ)),
            final(self).entries() == old(self).entries().insert((*index, offset, typ)),
    { unimplemented!() }
}
impl Default for StorageLayout {
    #[verifier::external_body]
    fn default() -> (r: Self)
        ensures r.adds() == Seq::<Entry>::empty(), r.entries() == Multiset::<Entry>::empty(),
    { unimplemented!() }
}

// ---- which values are constant storage slots, and what they contribute ------------------------------------------------
/// the key of a `StorageSlot` node
pub open spec fn slot_key(v: TCBoxedVal) -> Option<TCBoxedVal> {
    match v.dt() { SymbolicValueData::StorageSlot { key } => Some(key), _ => None }
}
/// "a storage slot whose key is a constant"
pub open spec fn is_csl(v: TCBoxedVal) -> bool { slot_key(v) is Some && aw(*slot_key(v)->Some_0) is Some }
/// the constant key of such a slot
pub open spec fn slot_index(v: TCBoxedVal) -> KnownWord { aw(*slot_key(v)->Some_0)->Some_0 }
/// the constant storage slots among `s`, in order (= `s.filter(is_csl)`, written out)
pub open spec fn csl_filter(s: Seq<TCBoxedVal>) -> Seq<TCBoxedVal>
    decreases s.len(),
{
    if s.len() == 0 { Seq::empty() } else if is_csl(s.last()) { csl_filter(s.drop_last()).push(s.last()) } else { csl_filter(s.drop_last()) }
}
pub proof fn lemma_csl_filter_step(s: Seq<TCBoxedVal>, k: int)
    requires 0 <= k < s.len(),
    ensures csl_filter(s.subrange(0, k + 1)) == (if is_csl(s[k]) { csl_filter(s.subrange(0, k)).push(s[k]) } else { csl_filter(s.subrange(0, k)) }),
{
    assert(s.subrange(0, k + 1).drop_last() =~= s.subrange(0, k));
    assert(s.subrange(0, k + 1).last() == s[k]);
}
/// everything the filter keeps is a constant storage slot of the input
pub proof fn lemma_csl_filter_props(s: Seq<TCBoxedVal>)
    ensures forall|j: int| 0 <= j < csl_filter(s).len() ==> is_csl(#[trigger] csl_filter(s)[j]) && s.contains(csl_filter(s)[j]),
    decreases s.len(),
{
    if s.len() > 0 {
        lemma_csl_filter_props(s.drop_last());
        assert forall|j: int| 0 <= j < csl_filter(s).len() implies is_csl(#[trigger] csl_filter(s)[j]) && s.contains(csl_filter(s)[j]) by {
            if j < csl_filter(s.drop_last()).len() {
                let x = csl_filter(s.drop_last())[j];
                assert(s.drop_last().contains(x));
                let m = choose|m: int| 0 <= m < s.drop_last().len() && s.drop_last()[m] == x;
                assert(s[m] == x);
            } else {
                assert(csl_filter(s)[j] == s.last());
                assert(s[s.len() - 1] == s.last());
            }
        }
    }
}
/// what `abi_type_for` answers for a variable, given what the variables resolve to.  Uninterpreted.
pub uninterp spec fn abi_spec(res: Resolution, v: TypeVariable) -> Result<AbiValue>;
/// the entries of the first `k` pairs of a packed answer: (index, offset_j, type_j), offsets unchanged, in order
pub open spec fn packed_entries_upto(idx: KnownWord, ps: Seq<(AbiType, usize)>, k: nat) -> Seq<Entry> {
    Seq::new(k, |j: int| (idx, ps[j].1, ps[j].0))
}
/// the `add` calls owed for the first `n` slots of `s`
pub open spec fn entries_upto(res: Resolution, s: Seq<TCBoxedVal>, n: nat) -> Seq<Entry>
    decreases n,
{
    if n == 0 { Seq::empty() } else {
        let p = entries_upto(res, s, (n - 1) as nat);
        let v = s[n - 1];
        match abi_spec(res, v.aux()) {
            Ok(AbiValue::Type(t)) => p.push((slot_index(v), 0usize, t)),
            Ok(AbiValue::Packed(ts)) => p + packed_entries_upto(slot_index(v), ts@, ts@.len()),
            Err(_) => p,
        }
    }
}
pub proof fn lemma_entries_step(res: Resolution, s: Seq<TCBoxedVal>, c: nat)
    ensures entries_upto(res, s, c + 1) == (match abi_spec(res, s[c as int].aux()) {
            Ok(AbiValue::Type(t)) => entries_upto(res, s, c).push((slot_index(s[c as int]), 0usize, t)),
            Ok(AbiValue::Packed(ts)) => entries_upto(res, s, c) + packed_entries_upto(slot_index(s[c as int]), ts@, ts@.len()),
            Err(_) => entries_upto(res, s, c),
        }),
{
    assert(((c + 1) - 1) as nat == c);
}
/// C05: the index is the constant key of some storage-slot value of `vals`
pub open spec fn attributable_index(idx: KnownWord, vals: Seq<TCBoxedVal>) -> bool {
    exists|v: TCBoxedVal| #[trigger] vals.contains(v) && is_csl(v) && slot_index(v) == idx
}
pub open spec fn attributable(adds: Seq<Entry>, vals: Seq<TCBoxedVal>) -> bool {
    forall|j: int| 0 <= j < adds.len() ==> attributable_index((#[trigger] adds[j]).0, vals)
}
/// the type variables of the values
pub open spec fn vars_of(s: Seq<TCBoxedVal>) -> Seq<TypeVariable> { Seq::new(s.len(), |j: int| s[j].aux()) }

// ---- unification::unify: the callee (unit unify) ---------------------------------------------------------------------
pub mod unification {
    use super::*;
    // A-CALLEE: `unification::unify` with the C13 part of the contract PROVED in unit unify (C13.unify.stop_returns_error_without_result /
    // .ok_only_if_every_poll_continued): Err is exactly one StoppedByWatchdog error raised at the very poll that answered stop, Ok only
    // if every poll continued.  Ghost history: the state records whether this call returned Ok and the poll count at its return.
    // ASSUMED (read from the code): it never calls `abi_type_for`.  (`&mut DynWatchdog`: see //@dropped.)
    #[verifier::external_body]
    pub fn unify(state: &mut TypeCheckerState, watchdog: &mut DynWatchdog) -> (r: Result<()>)
        ensures
            r is Err ==> r->Err_0.log().len() == 1 && r->Err_0.log()[0].payload is StoppedByWatchdog && stopped_at_first_stop(old(watchdog), final(watchdog)),
            r is Ok ==> every_poll_continued(old(watchdog), final(watchdog)),
            final(watchdog).interval() == old(watchdog).interval(),
            final(state).unified_ok() == (r is Ok), final(state).unified_at() == final(watchdog).polls(),
            final(state).converted() == old(state).converted(),
    { unimplemented!() }
}

// ---- the functions under contract -----------------------------------------------------------------------------------
//@extract file=src/tc/mod.rs path="struct Config" kind=type
//@end
//@extract file=src/tc/mod.rs path="struct TypeChecker" kind=type
//@end
impl TypeChecker {
    pub closed spec fn wd(&self) -> &DynWatchdog { &self.watchdog }
    pub closed spec fn st(&self) -> &TypeCheckerState { &self.state }
    pub closed spec fn passes(&self) -> &LiftingPasses { &self.config.lifting_passes }
    /// e = the interval the watchdog asks for
    pub open spec fn every(&self) -> nat { self.wd().interval() as nat }
    /// how many values were handed to the lifting passes / to `register` / to the inference rules / to `abi_type_for` since `before`
    pub open spec fn lifted_since(&self, before: &TypeChecker) -> int { self.passes().log().len() - before.passes().log().len() }
    pub open spec fn registered_since(&self, before: &TypeChecker) -> int { self.st().registered().len() - before.st().registered().len() }
    pub open spec fn inferred_since(&self, before: &TypeChecker) -> int { self.st().inferred().len() - before.st().inferred().len() }
    pub open spec fn converted_since(&self, before: &TypeChecker) -> int { self.st().converted().len() - before.st().converted().len() }

    // A-CALLEE: `abi_type_for` answers `abi_spec(what the variables resolve to, var)` - uninterpreted - and the call is recorded.
    // ASSUMED (read from the code; for `type_of` proved as C14.type_of.type_of.classes_unchanged): it is a QUERY - the only
    // mutation is path compression in the forest - so the values, what the variables resolve to, and the watchdog are untouched.
    #[verifier::external_body]
    fn abi_type_for(&mut self, var: TypeVariable) -> (r: Result<AbiValue>)
        ensures
            r == abi_spec(old(self).st().resolved(), var),
            final(self).st().converted() == old(self).st().converted().push(var),
            final(self).st().resolved() == old(self).st().resolved(), final(self).st().vals() == old(self).st().vals(),
            final(self).st().unified_ok() == old(self).st().unified_ok(), final(self).st().unified_at() == old(self).st().unified_at(),
            final(self).wd() == old(self).wd(),
    { unimplemented!() }
}
/// the values `lift` runs over: the de-duplicated values of the execution result
pub open spec fn lift_input(x: ExecutionResult) -> Seq<RuntimeBoxedVal> { unique_of(x.vals()) }

// R-HOIST: the nested fn of `TypeChecker::unify`, extracted as a top-level item (a nested fn item is a free function; it captures nothing)
//@extract file=src/tc/mod.rs path="impl TypeChecker|fn unify|fn is_constant_storage_slot" props=C05,C06,C01 id=mod::TypeChecker::unify::is_constant_storage_slot
//@ret r
//@spec
        ensures r == is_csl(*value),      //@ob C05.tcl.is_constant_storage_slot.exact C06.tcl.is_constant_storage_slot.exact
//@end

//@extract file=src/tc/mod.rs path="impl TypeChecker" kind=header
//@end
//@extract file=src/tc/mod.rs path="impl TypeChecker|fn lift" props=C13,C17,C06,C01
//@ret r
// R-CALL: itertools `unique()` + collect (iterator adapters are outside Verus) -> the A-STD stand-in vx_unique_deque; the operand ($1) is carried over
//@rw R-CALL
//@old
= $1.into_iter().unique().collect();
//@new
= vx_unique_deque($1);
//@spec
        requires
            // C01: `counter % poll_every()` panics for 0; nothing in the repository rejects `polling_every(0)`
            old(self).wd().interval() >= 1,
        ensures
            final(self).wd().interval() == old(self).wd().interval(),
            final(self).st() == old(self).st(),
            // ---- C13 ----
            stopped_at_first_stop(old(self).wd(), final(self).wd()) || every_poll_continued(old(self).wd(), final(self).wd()),      //@ob C13.tcl.lift.every_poll_but_the_last_continued
            stopped_at_first_stop(old(self).wd(), final(self).wd()) ==> r is Err && 0 <= final(self).lifted_since(old(self)) < lift_input(execution_result).len()
                && stop_error(r->Err_0, lift_input(execution_result)[final(self).lifted_since(old(self))].ip()),      //@ob C13.tcl.lift.stop_answer_returns_the_stop_error C17.tcl.lift.stop_error_located_at_the_value_being_processed
            stopped_at_first_stop(old(self).wd(), final(self).wd()) ==> final(self).lifted_since(old(self)) % (old(self).every() as int) == 0
                && polls_made(old(self).wd(), final(self).wd()) == polls_due(final(self).lifted_since(old(self)) as nat, old(self).every()) + 1,      //@ob C13.tcl.lift.stopped_at_the_poll_due_before_that_value
            0 <= final(self).lifted_since(old(self)) <= lift_input(execution_result).len() && final(self).passes().log()
                == old(self).passes().log() + lift_input(execution_result).subrange(0, final(self).lifted_since(old(self))),      //@ob C13.tcl.lift.run_once_per_value_in_order_nothing_after_a_stop
            every_poll_continued(old(self).wd(), final(self).wd()) ==> final(self).lifted_since(old(self)) == lift_input(execution_result).len()
                && polls_made(old(self).wd(), final(self).wd()) == polls_due(lift_input(execution_result).len(), old(self).every()),      //@ob C13.tcl.lift.polls_once_per_interval
            r is Ok ==> every_poll_continued(old(self).wd(), final(self).wd()),                                        //@ob C13.tcl.lift.ok_only_if_every_poll_continued
            // ---- results: exactly the Ok results of the runs, in order; all errors of all failed runs ----
            every_poll_continued(old(self).wd(), final(self).wd()) ==>
                (r is Ok <==> lift_errs(old(self).passes().log().len(), lift_input(execution_result).len()).len() == 0),      //@ob C17.tcl.lift.err_iff_some_pass_error
            every_poll_continued(old(self).wd(), final(self).wd()) && r is Ok ==>
                r->Ok_0@ == lift_oks(old(self).passes().log().len(), lift_input(execution_result).len()),      //@ob C06.tcl.lift.ok_is_the_run_results_in_order
            every_poll_continued(old(self).wd(), final(self).wd()) && r is Err ==> by_location(r->Err_0.log())
                && r->Err_0.log().to_multiset() == lift_errs(old(self).passes().log().len(), lift_input(execution_result).len()),      //@ob C17.tcl.lift.collects_every_pass_error
//@loop 1 kind=while
            invariant
                polling_interval == old(self).wd().interval() && polling_interval >= 1 && self.wd().interval() == old(self).wd().interval(),
                self.st() == old(self).st(),
                counter as nat + result_values@.len() == lift_input(execution_result).len() && lift_input(execution_result).len() <= usize::MAX,      //@ob C01.tcl.lift.loop.counter_bounded_by_the_collection
                result_values@ == lift_input(execution_result).subrange(counter as int, lift_input(execution_result).len() as int),      //@ob C13.tcl.lift.loop.values_in_order
                self.passes().log() == old(self).passes().log() + lift_input(execution_result).subrange(0, counter as int),          //@ob C13.tcl.lift.loop.run_once_per_value_in_order
                polls_made(old(self).wd(), self.wd()) == polls_due(counter as nat, polling_interval as nat),                         //@ob C13.tcl.lift.loop.polls_once_per_interval
                every_poll_continued(old(self).wd(), self.wd()),                                                                     //@ob C13.tcl.lift.loop.goes_on_only_if_every_poll_continued
                new_values@ == lift_oks(old(self).passes().log().len(), counter as nat),                                             //@ob C06.tcl.lift.loop.keeps_every_ok_result
                errors.log().to_multiset() == lift_errs(old(self).passes().log().len(), counter as nat),                             //@ob C17.tcl.lift.loop.collects_every_pass_error
                errors.log().len() > 0 ==> by_location(errors.log()),
            ensures
                result_values@.len() == 0,
            decreases result_values@.len(),
//@proof loopstart #1
            broadcast use container::axiom_question_mark_converts_with_from, vstd::seq_lib::group_to_multiset_ensures;
            proof {
                assert(polling_interval >= 1);      //@ob C01.tcl.lift.modulus_not_zero
                lemma_polls_due_step(counter as nat, polling_interval as nat);
                lemma_lift_step(old(self).passes().log().len(), counter as nat);
                let d = lift_input(execution_result);
                assert(d.subrange(0, counter as int + 1) =~= d.subrange(0, counter as int).push(d[counter as int]));
                assert(d.subrange(counter as int, d.len() as int).subrange(1, d.len() - counter) =~= d.subrange(counter as int + 1, d.len() as int));
            }
//@proof entry
        broadcast use axiom_vecdeque_len, vstd::seq_lib::group_to_multiset_ensures;
        proof {
            lemma_polls_due_zero(self.wd().interval() as nat);
            let d = lift_input(execution_result);
            assert(d.subrange(0, d.len() as int) =~= d);
            assert(d.subrange(0, 0) =~= Seq::<RuntimeBoxedVal>::empty());
        }
//@end

// (loop_isolation(false): the loop body may use what is known before the loop - here that the ghost `vx_all` is the initial value of
// the parameter `values`, which the loop drains, so that no invariant can name it)
#[verifier::loop_isolation(false)]
//@extract file=src/tc/mod.rs path="impl TypeChecker|fn assign_vars" props=C13,C17,C01
//@ret r
//@spec
        requires
            old(self).wd().interval() >= 1,
        ensures
            final(self).wd().interval() == old(self).wd().interval(),
            stopped_at_first_stop(old(self).wd(), final(self).wd()) || every_poll_continued(old(self).wd(), final(self).wd()),      //@ob C13.tcl.assign_vars.every_poll_but_the_last_continued
            stopped_at_first_stop(old(self).wd(), final(self).wd()) ==> r is Err && 0 <= final(self).registered_since(old(self)) < values@.len()
                && stop_error(r->Err_0, values@[final(self).registered_since(old(self))].ip()),      //@ob C13.tcl.assign_vars.stop_answer_returns_the_stop_error C17.tcl.assign_vars.stop_error_located_at_the_value_being_processed
            stopped_at_first_stop(old(self).wd(), final(self).wd()) ==> final(self).registered_since(old(self)) % (old(self).every() as int) == 0
                && polls_made(old(self).wd(), final(self).wd()) == polls_due(final(self).registered_since(old(self)) as nat, old(self).every()) + 1,      //@ob C13.tcl.assign_vars.stopped_at_the_poll_due_before_that_value
            0 <= final(self).registered_since(old(self)) <= values@.len() && final(self).st().registered()
                == old(self).st().registered() + values@.subrange(0, final(self).registered_since(old(self))),      //@ob C13.tcl.assign_vars.registered_once_per_value_in_order_nothing_after_a_stop
            every_poll_continued(old(self).wd(), final(self).wd()) ==> r is Ok && final(self).registered_since(old(self)) == values@.len()
                && polls_made(old(self).wd(), final(self).wd()) == polls_due(values@.len(), old(self).every()),      //@ob C13.tcl.assign_vars.polls_once_per_interval
            r is Ok ==> every_poll_continued(old(self).wd(), final(self).wd()),                                        //@ob C13.tcl.assign_vars.ok_only_if_every_poll_continued
//@loop 1 kind=while
            invariant
                polling_interval == old(self).wd().interval() && polling_interval >= 1 && self.wd().interval() == old(self).wd().interval(),
                counter as nat + values@.len() == vx_all.len() && vx_all.len() <= usize::MAX,                                        //@ob C01.tcl.assign_vars.loop.counter_bounded_by_the_collection
                values@ == vx_all.subrange(counter as int, vx_all.len() as int),                                                     //@ob C13.tcl.assign_vars.loop.values_in_order
                self.st().registered() == old(self).st().registered() + vx_all.subrange(0, counter as int),                          //@ob C13.tcl.assign_vars.loop.registered_once_per_value_in_order
                polls_made(old(self).wd(), self.wd()) == polls_due(counter as nat, polling_interval as nat),                         //@ob C13.tcl.assign_vars.loop.polls_once_per_interval
                every_poll_continued(old(self).wd(), self.wd()),                                                                     //@ob C13.tcl.assign_vars.loop.goes_on_only_if_every_poll_continued
            decreases values@.len(),
//@proof loopstart #1
            broadcast use container::axiom_question_mark_converts_with_from;
            proof {
                assert(polling_interval >= 1);      //@ob C01.tcl.assign_vars.modulus_not_zero
                lemma_polls_due_step(counter as nat, polling_interval as nat);
                assert(vx_all.subrange(0, counter as int + 1) =~= vx_all.subrange(0, counter as int).push(vx_all[counter as int]));
                assert(vx_all.subrange(counter as int, vx_all.len() as int).subrange(1, vx_all.len() - counter) =~= vx_all.subrange(counter as int + 1, vx_all.len() as int));
            }
//@proof entry
        broadcast use axiom_vecdeque_len;
        let ghost vx_all: Seq<RuntimeBoxedVal> = values@;
        proof {
            lemma_polls_due_zero(self.wd().interval() as nat);
            assert(vx_all.subrange(0, vx_all.len() as int) =~= vx_all);
            assert(vx_all.subrange(0, 0) =~= Seq::<RuntimeBoxedVal>::empty());
        }
//@end

//@extract file=src/tc/mod.rs path="impl TypeChecker|fn infer" props=C13,C17,C01
//@ret r
// R-CALL: cloning the referenced values into a Vec (iterator adapters) -> the A-STD stand-in vx_cloned; the operand ($1) is carried over
// R-FOREACH (header only; the body and its closing brace are untouched): `for (i, x) in v.into_iter().enumerate()` is an index loop
// over the vector; `i` ($1) is the index, `x` ($2) the i-th element (A-STD stand-in vx_nth); the index is bumped first
//@rw R-CALL
//@old
= $1.into_iter().cloned().collect::<Vec<_>>();
//@new
= vx_cloned($1);
//@rw R-FOREACH
//@old
for ($1, $2) in $3.into_iter().enumerate() {
//@new
let vx_it = $3; let mut vx_i: usize = 0;
        while vx_i < vx_it.len() { let $1 = vx_i; let $2 = vx_nth(&vx_it, vx_i); vx_i += 1;
//@spec
        requires
            old(self).wd().interval() >= 1,
        ensures
            final(self).wd().interval() == old(self).wd().interval(),
            stopped_at_first_stop(old(self).wd(), final(self).wd()) || every_poll_continued(old(self).wd(), final(self).wd()),      //@ob C13.tcl.infer.every_poll_but_the_last_continued
            stopped_at_first_stop(old(self).wd(), final(self).wd()) ==> r is Err && 0 <= final(self).inferred_since(old(self)) < old(self).st().vals().len()
                && stop_error(r->Err_0, old(self).st().vals()[final(self).inferred_since(old(self))].ip()),      //@ob C13.tcl.infer.stop_answer_returns_the_stop_error C17.tcl.infer.stop_error_located_at_the_value_being_processed
            stopped_at_first_stop(old(self).wd(), final(self).wd()) ==> final(self).inferred_since(old(self)) % (old(self).every() as int) == 0
                && polls_made(old(self).wd(), final(self).wd()) == polls_due(final(self).inferred_since(old(self)) as nat, old(self).every()) + 1,      //@ob C13.tcl.infer.stopped_at_the_poll_due_before_that_value
            0 <= final(self).inferred_since(old(self)) <= old(self).st().vals().len() && final(self).st().inferred()
                == old(self).st().inferred() + old(self).st().vals().subrange(0, final(self).inferred_since(old(self))),      //@ob C13.tcl.infer.rules_run_once_per_value_in_order_nothing_after_a_stop
            // the first error is returned immediately: every run but the last one made returned Ok ...
            forall|k: nat| old(self).st().inferred().len() <= k < final(self).st().inferred().len() - 1 ==> infer_answer(k) is Ok,      //@ob C17.tcl.infer.goes_on_only_after_ok
            // ... and the last one made returned Ok unless its error is what is returned
            every_poll_continued(old(self).wd(), final(self).wd()) && r is Err ==> final(self).inferred_since(old(self)) >= 1
                && infer_answer((old(self).st().inferred().len() + final(self).inferred_since(old(self)) - 1) as nat) == Err::<(), Errors>(r->Err_0),      //@ob C17.tcl.infer.first_error_is_returned_immediately
            !(every_poll_continued(old(self).wd(), final(self).wd()) && r is Err) && final(self).inferred_since(old(self)) >= 1
                ==> infer_answer((old(self).st().inferred().len() + final(self).inferred_since(old(self)) - 1) as nat) is Ok,      //@ob C17.tcl.infer.ok_only_if_every_rule_run_was_ok
            every_poll_continued(old(self).wd(), final(self).wd()) && r is Ok ==> final(self).inferred_since(old(self)) == old(self).st().vals().len(),      //@ob C13.tcl.infer.ok_only_after_every_value
            every_poll_continued(old(self).wd(), final(self).wd()) ==>
                polls_made(old(self).wd(), final(self).wd()) == polls_due(final(self).inferred_since(old(self)) as nat, old(self).every()),      //@ob C13.tcl.infer.polls_once_per_interval
            r is Ok ==> every_poll_continued(old(self).wd(), final(self).wd()),                                        //@ob C13.tcl.infer.ok_only_if_every_poll_continued
//@loop 1 kind=while
            invariant
                polling_interval == old(self).wd().interval() && polling_interval >= 1 && self.wd().interval() == old(self).wd().interval(),
                vx_i <= vx_it.len() && vx_it@ =~= old(self).st().vals(),                                                             //@ob C13.tcl.infer.loop.values_in_order
                self.st().inferred() == old(self).st().inferred() + vx_it@.subrange(0, vx_i as int),                                 //@ob C13.tcl.infer.loop.rules_run_once_per_value_in_order
                forall|k: nat| old(self).st().inferred().len() <= k < self.st().inferred().len() ==> infer_answer(k) is Ok,          //@ob C17.tcl.infer.loop.goes_on_only_after_ok
                polls_made(old(self).wd(), self.wd()) == polls_due(vx_i as nat, polling_interval as nat),                            //@ob C13.tcl.infer.loop.polls_once_per_interval
                every_poll_continued(old(self).wd(), self.wd()),                                                                     //@ob C13.tcl.infer.loop.goes_on_only_if_every_poll_continued
            decreases vx_it.len() - vx_i,
//@proof loopstart #1
            broadcast use container::axiom_question_mark_converts_with_from;
            proof {
                assert(polling_interval >= 1);      //@ob C01.tcl.infer.modulus_not_zero
                lemma_polls_due_step(vx_i as nat, polling_interval as nat);
                assert(vx_it@.subrange(0, vx_i as int + 1) =~= vx_it@.subrange(0, vx_i as int).push(vx_it@[vx_i as int]));
            }
//@proof entry
        proof {
            lemma_polls_due_zero(self.wd().interval() as nat);
            assert(old(self).st().vals().subrange(0, 0) =~= Seq::<TCBoxedVal>::empty());
        }
//@end


//@extract file=src/tc/mod.rs path="impl TypeChecker|fn unify" props=C13,C05,C06,C12,C17,C01
//@ret r
// R-HOIST: the nested fn `is_constant_storage_slot` is extracted on its own (top level, above) with its own contract
// R-SIG: the oracle's poll counter is ghost state of the stand-in, so the argument is `&mut` (see //@dropped)
// R-FOREACH: `xs.into_iter().filter(|v| P).cloned().collect()` keeps, in order, the clones of the elements for which P holds; P ($3, with its
// parameter name $2) is carried over verbatim and evaluated on a reference to the element, as `filter` does
// R-FOREACH (header only): `for (i, x) in v.into_iter().enumerate()` as in `infer`
// R-FOREACH: `ts.into_iter().for_each(|(a, b)| S)` runs S ($5) on every pair in order; the pair is taken apart by the closure's own pattern ($3, $4)
//@hoist is_constant_storage_slot
//@rw R-SIG
//@old
unification::unify(&mut self.state, &self.watchdog)
//@new
unification::unify(&mut self.state, &mut self.watchdog)
//@rw R-FOREACH
//@old
: Vec<TCBoxedVal> = $1
            .into_iter()
            .filter(|$2| $3)
            .cloned()
            .collect();
//@new
: Vec<TCBoxedVal> = { let vx_src = $1; let mut vx_kept: Vec<TCBoxedVal> = Vec::new(); let mut vx_f: usize = 0;
            while vx_f < vx_src.len()
                invariant
                    vx_f <= vx_src.len(),
                    vx_src@.len() == self.st().vals().len() && (forall|k: int| 0 <= k < vx_src@.len() ==> *(#[trigger] vx_src@[k]) == self.st().vals()[k]),
                    vx_kept@ == csl_filter(self.st().vals().subrange(0, vx_f as int)),      //@ob C05.tcl.unify.loop.keeps_exactly_the_constant_storage_slots C06.tcl.unify.loop.keeps_exactly_the_constant_storage_slots
                decreases vx_src.len() - vx_f,
            { proof { lemma_csl_filter_step(self.st().vals(), vx_f as int); }
              let $2 = &vx_src[vx_f]; vx_f += 1; if $3 { vx_kept.push((*$2).clone()); } }
            proof { assert(self.st().vals().subrange(0, vx_f as int) =~= self.st().vals()); }
            vx_kept };
//@rw R-FOREACH
//@old
for ($1, $2) in $3.into_iter().enumerate() {
//@new
let vx_it = $3; let mut vx_i: usize = 0;
        while vx_i < vx_it.len() { let $1 = vx_i; let $2 = vx_nth(&vx_it, vx_i); vx_i += 1;
//@rw R-FOREACH
//@old
AbiValue::Packed($1) => $2
                    .into_iter()
                    .for_each(|($3, $4)| $5),
//@new
AbiValue::Packed($1) => { let vx_ts = $2; let mut vx_k: usize = 0; let ghost vx_a0 = layout.adds();
                    while vx_k < vx_ts.len()
                        invariant
                            vx_k <= vx_ts.len(),
                            layout.adds() == vx_a0 + packed_entries_upto(*index, vx_ts@, vx_k as nat),      //@ob C06.tcl.unify.loop.packed_entries_in_order_offsets_unchanged C12.tcl.unify.loop.packed_entries_in_order_offsets_unchanged
                            layout.entries() == layout.adds().to_multiset(),
                            attributable_index(*index, self.st().vals()) && attributable(layout.adds(), self.st().vals()),      //@ob C05.tcl.unify.loop.entries_only_for_constant_slots
                        decreases vx_ts.len() - vx_k,
                    { broadcast use vstd::seq_lib::group_to_multiset_ensures;
                      let ($3, $4) = vx_nth(&vx_ts, vx_k); vx_k += 1; $5;
                      proof { assert(vx_a0 + packed_entries_upto(*index, vx_ts@, vx_k as nat) =~= (vx_a0 + packed_entries_upto(*index, vx_ts@, (vx_k - 1) as nat)).push((*index, vx_ts@[vx_k - 1].1, vx_ts@[vx_k - 1].0))); } } },
//@spec
        requires
            old(self).wd().interval() >= 1,
        ensures
            final(self).wd().interval() == old(self).wd().interval(),
            // ---- C13 ----
            stopped_at_first_stop(old(self).wd(), final(self).wd()) || every_poll_continued(old(self).wd(), final(self).wd()),      //@ob C13.tcl.unify.every_poll_but_the_last_continued
            // a stop inside unification::unify is forwarded; nothing is converted, no layout is built
            !final(self).st().unified_ok() ==> r is Err && stopped_at_first_stop(old(self).wd(), final(self).wd()) && final(self).converted_since(old(self)) == 0
                && r->Err_0.log().len() == 1 && r->Err_0.log()[0].payload is StoppedByWatchdog,      //@ob C13.tcl.unify.unification_stop_is_forwarded
            // the layout loop: which slots were converted, in which order
            final(self).st().unified_ok() ==> old(self).wd().polls() <= final(self).st().unified_at() <= final(self).wd().polls()
                && 0 <= final(self).converted_since(old(self)) <= csl_filter(final(self).st().vals()).len(),
            final(self).st().unified_ok() ==> final(self).st().converted() == old(self).st().converted()
                + vars_of(csl_filter(final(self).st().vals()).subrange(0, final(self).converted_since(old(self)))),      //@ob C13.tcl.unify.converted_once_per_slot_in_order_nothing_after_a_stop
            final(self).st().unified_ok() && stopped_at_first_stop(old(self).wd(), final(self).wd()) ==> r is Err
                && final(self).converted_since(old(self)) < csl_filter(final(self).st().vals()).len()
                && stop_error(r->Err_0, csl_filter(final(self).st().vals())[final(self).converted_since(old(self))].ip()),      //@ob C13.tcl.unify.stop_answer_returns_the_stop_error C17.tcl.unify.stop_error_located_at_the_slot_being_processed
            final(self).st().unified_ok() && stopped_at_first_stop(old(self).wd(), final(self).wd()) ==> final(self).converted_since(old(self)) % (old(self).every() as int) == 0
                && final(self).wd().polls() - final(self).st().unified_at() == polls_due(final(self).converted_since(old(self)) as nat, old(self).every()) + 1,      //@ob C13.tcl.unify.stopped_at_the_poll_due_before_that_slot
            every_poll_continued(old(self).wd(), final(self).wd()) ==> final(self).st().unified_ok()
                && final(self).wd().polls() - final(self).st().unified_at() == polls_due(final(self).converted_since(old(self)) as nat, old(self).every()),      //@ob C13.tcl.unify.polls_once_per_interval
            r is Ok ==> every_poll_continued(old(self).wd(), final(self).wd())
                && final(self).converted_since(old(self)) == csl_filter(final(self).st().vals()).len(),      //@ob C13.tcl.unify.ok_only_if_every_poll_continued C13.tcl.unify.ok_only_after_every_slot
            // ---- C17: every error is a stop error or the error `abi_type_for` returned for the last slot converted: the two InvalidTree exits are dead ----
            every_poll_continued(old(self).wd(), final(self).wd()) && r is Err ==> final(self).converted_since(old(self)) >= 1
                && abi_spec(final(self).st().resolved(), csl_filter(final(self).st().vals())[final(self).converted_since(old(self)) - 1].aux()) == Err::<AbiValue, Errors>(r->Err_0),      //@ob C17.tcl.unify.never_an_invalid_tree_error
            // ---- C06 / C12: every constant storage slot contributes exactly its entries, in order, offsets unchanged ----
            r is Ok ==> r->Ok_0.adds() == entries_upto(final(self).st().resolved(), csl_filter(final(self).st().vals()), csl_filter(final(self).st().vals()).len()),      //@ob C06.tcl.unify.every_constant_slot_contributes_exactly_its_entries C12.tcl.unify.offsets_passed_through_unchanged
            r is Ok ==> forall|k: int| 0 <= k < csl_filter(final(self).st().vals()).len()
                ==> abi_spec(final(self).st().resolved(), (#[trigger] csl_filter(final(self).st().vals())[k]).aux()) is Ok,      //@ob C06.tcl.unify.ok_only_if_every_slot_converted
            r is Ok ==> r->Ok_0.entries() == r->Ok_0.adds().to_multiset(),      //@ob C06.tcl.unify.the_layout_holds_exactly_the_added_entries
            // ---- C05: no phantom slots ----
            r is Ok ==> attributable(r->Ok_0.adds(), final(self).st().vals()),      //@ob C05.tcl.unify.entries_only_for_constant_slots
//@loop 2 kind=while
            invariant
                polling_interval == old(self).wd().interval() && polling_interval >= 1 && self.wd().interval() == old(self).wd().interval(),
                vx_i <= vx_it.len() && vx_it@ == csl_filter(self.st().vals()),                                                       //@ob C05.tcl.unify.loop.only_constant_storage_slots C06.tcl.unify.loop.all_constant_storage_slots
                self.st().unified_ok() && old(self).wd().polls() <= self.st().unified_at(),                                         //@ob C13.tcl.unify.loop.only_after_unification_returned_ok
                self.wd().polls() == self.st().unified_at() + polls_due(vx_i as nat, polling_interval as nat),                       //@ob C13.tcl.unify.loop.polls_once_per_interval
                every_poll_continued(old(self).wd(), self.wd()),                                                                     //@ob C13.tcl.unify.loop.goes_on_only_if_every_poll_continued
                self.st().converted() == old(self).st().converted() + vars_of(vx_it@.subrange(0, vx_i as int)),                      //@ob C13.tcl.unify.loop.converted_once_per_slot_in_order
                forall|k: int| 0 <= k < vx_i ==> abi_spec(self.st().resolved(), (#[trigger] vx_it@[k]).aux()) is Ok,                 //@ob C06.tcl.unify.loop.goes_on_only_if_the_slot_converted
                layout.adds() == entries_upto(self.st().resolved(), vx_it@, vx_i as nat),                                            //@ob C06.tcl.unify.loop.every_slot_so_far_contributed_exactly_its_entries C12.tcl.unify.loop.offsets_passed_through_unchanged
                layout.entries() == layout.adds().to_multiset(),
                attributable(layout.adds(), self.st().vals()),                                                                       //@ob C05.tcl.unify.loop.entries_only_for_constant_slots
            decreases vx_it.len() - vx_i,
//@proof loopstart #2
            broadcast use container::axiom_question_mark_converts_with_from, vstd::seq_lib::group_to_multiset_ensures;
            proof {
                assert(polling_interval >= 1);      //@ob C01.tcl.unify.modulus_not_zero
                lemma_polls_due_step(vx_i as nat, polling_interval as nat);
                lemma_entries_step(self.st().resolved(), vx_it@, vx_i as nat);
                lemma_csl_filter_props(self.st().vals());
                assert(vars_of(vx_it@.subrange(0, vx_i as int + 1)) =~= vars_of(vx_it@.subrange(0, vx_i as int)).push(vx_it@[vx_i as int].aux()));
                assert(self.st().vals().contains(vx_it@[vx_i as int]) && is_csl(vx_it@[vx_i as int]));
                assert(attributable_index(slot_index(vx_it@[vx_i as int]), self.st().vals()));
            }
//@proof entry
        broadcast use container::axiom_question_mark_converts_with_from, vstd::seq_lib::group_to_multiset_ensures;
        proof {
            lemma_polls_due_zero(self.wd().interval() as nat);
            assert(self.st().vals().subrange(0, 0) =~= Seq::<TCBoxedVal>::empty());
        }
//@end
}
} // verus!
fn main() {}
