# Mutation self-test for unit tc_state.
# Usage: git -C /repo worktree add --detach /tmp/wt_tcstate HEAD; python3 units/tc_state/mutations.py [Mnn ...]; git -C /repo worktree remove --force /tmp/wt_tcstate
# M* = property-breaking edits (must give status=failed on the expected labelled obligation),
# H* = behaviour-preserving edits (must give status=ok; want=None).
import subprocess
import sys
import time

WT = '/tmp/wt_tcstate'
F = 'src/tc/state/mod.rs'
INFER_SYM = 'self.inferences.get_mut(id).unwrap().insert(TE::eq(variable));'
INFER_FWD = 'self.inferences.get_mut(&variable).unwrap().insert(expression);'
TAIL_E = 'self.expressions.entry(type_var).or_insert(new_value.clone());'
TAIL_I = 'self.inferences.entry(type_var).or_insert(HashSet::new());'
ALLOC_E = 'self.expressions.entry(new_tv).or_insert(value_for_var);'
ALLOC_I = 'self.inferences.entry(new_tv).or_insert(HashSet::new());'

MUTS = [
    ('M01 infer: the symmetric record `id := Eq<variable>` dropped', F,
     '            ' + INFER_SYM + '\n', '', 'C14.tc_state.infer.equality_recorded_symmetrically'),
    ('M02 infer: the reverse equality recorded on `variable` instead of `id`', F,
     INFER_SYM, 'self.inferences.get_mut(&variable).unwrap().insert(TE::eq(variable));', 'C14.tc_state.infer.equality_recorded_symmetrically'),
    ('M03 infer: the self-equality early return removed', F,
     '            if id == &variable {\n                return;\n            }\n', '', 'C14.tc_state.infer.self_equality_changes_nothing'),
    ('M04 infer: the reverse record names `id`, not `variable`', F,
     INFER_SYM, 'self.inferences.get_mut(id).unwrap().insert(TE::eq(*id));', 'C14.tc_state.infer.equality_recorded_symmetrically'),
    ('M05 infer: the expression itself is recorded on `id`', F,
     INFER_FWD, 'if let TE::Equal { id } = &expression { let id = *id; self.inferences.get_mut(&id).unwrap().insert(expression); }', 'C14.tc_state.infer.expression_recorded_for_variable'),
    ('M06 infer: self-equality test inverted (returns on every NON-self equality)', F,
     'if id == &variable {\n                return;', 'if id != &variable {\n                return;', 'C14.tc_state.infer.equality_recorded_symmetrically'),
    ('M07 allocate_ty_var: inference set not registered', F,
     '        ' + ALLOC_I + '\n', '', 'C14.tc_state.allocate_ty_var.becomes_known'),
    ('M08 allocate_ty_var: `insert` instead of `entry().or_insert` (wipes an existing set)', F,
     ALLOC_I, 'self.inferences.insert(new_tv, HashSet::new());', 'C14.tc_state.allocate_ty_var.starts_with_no_judgement'),
    ('M09 value: looks the variable up in a different state (fresh empty map)', F,
     '        self.expressions.get(&variable)\n', '        None\n', 'C14.tc_state.value.some_iff_registered'),
    ('M10 infer: the set is REPLACED (earlier judgements of the variable wiped) before the insert', F,
     INFER_FWD, 'self.inferences.insert(variable, HashSet::new());\n        ' + INFER_FWD, 'C14.tc_state.infer.append_only'),
    ('M11 register_internal: a second fresh variable is drawn and the value carries the first', F,
     TAIL_I, 'let type_var = self.tyvar_source.fresh();\n        ' + TAIL_I, 'C14.tc_state.register_internal.variable_becomes_known'),
    ('M12 register_internal: inserted into stable_types even when not stable', F,
     '        if is_stable {\n            self.stable_types.insert(value, new_value.clone());\n        }', '        self.stable_types.insert(value, new_value.clone());', 'C14.tc_state.register_internal.only_stable_values_are_shared'),
    ('M13 register_internal: stable value never remembered', F,
     '        if is_stable {\n            self.stable_types.insert(value, new_value.clone());\n        }', '', 'C14.tc_state.register_internal.stable_value_is_remembered'),
    ('M14 register_internal: the shared lookup ignores stability... returns a NEW registration for a known stable value', F,
     '        if is_stable {\n            if let Some(r) = self.stable_types.get(&value) {\n                return r.clone();\n            }\n        }\n', '', 'C14.tc_state.register_internal.stable_value_gets_the_same_boxed_value'),
    ('M15 register_internal: inference set of the new variable not created', F,
     '        ' + TAIL_I + '\n', '', 'C14.tc_state.register_internal.variable_becomes_known'),
    ('M16 register_internal: `insert` wipes... expressions not registered', F,
     '        ' + TAIL_E + '\n', '', 'C14.tc_state.register_internal.variable_becomes_known'),
    ('M17 infer_for: returns a variable but infers for nothing', F,
     '        self.infer(var, expression);\n        var\n', '        var\n', 'C14.tc_state.infer_for.judgement_for_the_values_variable'),
    ('M18 empty: starts with a variable source but a pre-registered variable', F,
     'let inferences = HashMap::new();', 'let mut inferences = HashMap::new();\n        inferences.insert(TypeVariableSource::new().fresh(), HashSet::new());', 'C14.tc_state.empty.no_variable_known'),
    # ---- harmless
    ('H01 infer: locals renamed', F,
     ['let variable = variable.into();\n        let expression = expression.into();\n\n        // If it is an equality', 'if id == &variable {', INFER_SYM, INFER_FWD],
     ['let variable = variable.into();\n        let expression = expression.into();\n        let v2 = variable;\n\n        // If it is an equality', 'if id == &v2 {', 'self.inferences.get_mut(id).unwrap().insert(TE::eq(v2));', 'self.inferences.get_mut(&v2).unwrap().insert(expression);'], None),
    ('H02 infer: `if let` -> `match`', F,
     ['if let TE::Equal { id } = &expression {\n            if id == &variable {\n                return;\n            }\n            ' + INFER_SYM + '\n        }'],
     ['match &expression {\n            TE::Equal { id } => {\n                if id == &variable {\n                    return;\n                }\n                ' + INFER_SYM + '\n            }\n            _ => {}\n        }'], None),
    ('H03 allocate_ty_var: the two registrations swapped', F,
     ALLOC_E + '\n        ' + ALLOC_I, ALLOC_I + '\n        ' + ALLOC_E, None),
    ('H04 register_internal: the two registrations swapped, local renamed', F,
     [TAIL_E + '\n        ' + TAIL_I, 'let new_value = TCSV::new(instruction_pointer, new_data, provenance, type_var);', 'self.stable_types.insert(value, new_value.clone());\n        }\n\n        // Return the type variable\n        new_value'],
     ['self.inferences.entry(type_var).or_insert(HashSet::new());\n        self.expressions.entry(type_var).or_insert(nv.clone());', 'let nv = TCSV::new(instruction_pointer, new_data, provenance, type_var);', 'self.stable_types.insert(value, nv.clone());\n        }\n\n        // Return the type variable\n        nv'], None),
    ('H05 register_internal: nested ifs merged with a match on the lookup', F,
     '            if let Some(r) = self.stable_types.get(&value) {\n                return r.clone();\n            }',
     '            match self.stable_types.get(&value) {\n                Some(found) => return found.clone(),\n                None => {}\n            }', None),
    ('H06 register: local renamed; infer_for: statement order kept, local renamed', F,
     ['let returned_val = self.register_internal(value);\n        self.var_unchecked(&returned_val)', 'let var = value.type_var();\n        self.infer(var, expression);\n        var'],
     ['let rv = self.register_internal(value);\n        self.var_unchecked(&rv)', 'let tv = value.type_var();\n        self.infer(tv, expression);\n        tv'], None),
    ('H07 register_internal: an arm of the big match edited (children order) - inside the opaque part', F,
     'RSVD::Add { left, right } => TCSVD::Add {\n                left:  self.register_internal(left),\n                right: self.register_internal(right),',
     'RSVD::Add { left, right } => TCSVD::Add {\n                right: self.register_internal(right),\n                left:  self.register_internal(left),', None),
]


def run(name, path, old, new, want):
    subprocess.run(['git', '-C', WT, 'checkout', '--', '.'], check=True)
    p = f'{WT}/{path}'
    s = open(p).read()
    pairs = list(zip(old, new)) if isinstance(old, list) else [(old, new)]
    for o, n in pairs:
        assert s.count(o) == 1, (name, o, s.count(o))
        s = s.replace(o, n)
    open(p, 'w').write(s)
    t0 = time.time()
    r = subprocess.run(['python3', '/verif/vx/vx.py', 'unit', 'tc_state', '--raw'], capture_output=True, text=True,
                       env={**__import__('os').environ, 'VX_REPO': WT}, cwd='/verif')
    out = r.stdout + r.stderr
    first = out.splitlines()[0] if out else ''
    status = first.split('status=')[1].split()[0] if 'status=' in first else '?'
    labels = sorted(set(__import__('re').findall(r"C\d\d\.tc_state\.[A-Za-z0-9_.]+", out)))
    fails = [l for l in out.splitlines() if l.strip().startswith('FAIL')]
    if want is None:
        verdict = 'OK' if status in ('ok', 'undecided') else 'FALSE-ALARM'
    else:
        hit = any(want in l for l in labels) or any(want in f for f in fails)
        verdict = 'CAUGHT' if status == 'failed' and hit else ('CAUGHT-OTHER' if status == 'failed' else 'MISSED(' + status + ')')
    print(f'{verdict:13} {name}\n              status={status} {time.time() - t0:.0f}s labels={labels[:6]}')
    if verdict not in ('OK', 'CAUGHT'):
        print('\n'.join('              ' + l[:260] for l in out.splitlines()[:8]))
    sys.stdout.flush()
    return verdict


if __name__ == '__main__':
    sel = sys.argv[1:]
    res = []
    for m in MUTS:
        if sel and not any(m[0].startswith(x) for x in sel):
            continue
        res.append((m[0], run(*m)))
    subprocess.run(['git', '-C', WT, 'checkout', '--', '.'], check=True)
    bad = [r for r in res if r[1] not in ('OK', 'CAUGHT')]
    print(f'\n{len(res)} edits, {len(bad)} not as expected')
    for b in bad:
        print('  ', b)
