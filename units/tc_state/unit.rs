//@unit props=C14,C01
// Unit tc_state — the REAL `TypeCheckerState` (src/tc/state/mod.rs): what the units rules / packed_lift /
// arith_sites / type_of only ASSUME about it is proved here from its extracted bodies.
//   C14  `infer` records an equality SYMMETRICALLY, drops a self-equality, records every other expression for
//        exactly the variable handed in; it is append-only and touches no other variable; the set of known
//        variables never changes in `infer`.
//   C01  the `unwrap()`s of infer / inferences / value_unchecked cannot fail when the variables are known.
//   C14  register_internal (tail): one FRESH variable per registration, an already registered stable-typed
//        value gets the SAME boxed value (hence the same variable) back.
// Abstract view: `knows(tv)` (key of `inferences`), `judgements(tv)` (the Set<TypeExpression> kept for it),
// `has_value(tv)` / `value_of(tv)` (map `expressions`), `stable_of` (map `stable_types`).
// Everything marked A-... is an ASSUMPTION.
use vstd::prelude::*;
use std::collections::{HashMap, HashSet};
#[allow(dead_code, unused)]
mod tc_ext {
    // A-ETHNUM: stand-in for ethnum::U256 (external crate); only a field type of `TypeExpression` here.
    #[derive(Clone, Copy, PartialEq, Eq, Hash, Debug)]
    pub struct U256(pub [u128; 2]);
    // A-CALLEE: `RuntimeBoxedVal` = Arc<SymbolicValue<()>> is OPAQUE here: a HashMap key with derived Hash/Eq.
    #[derive(PartialEq, Eq, Hash)]
    pub struct RuntimeBoxedVal { _p: u8 }
}
use tc_ext::{U256, RuntimeBoxedVal};

verus! {

#[verifier::external_type_specification]
#[verifier::external_body]
pub struct ExU256(U256);

#[derive(Copy, Clone, Eq, Hash, PartialEq, Structural)]
//@extract file=src/tc/state/type_variable.rs path="struct TypeVariable" kind=type
//@end
//@extract file=src/tc/expression.rs path="struct Span" kind=type
//@end
//@extract file=src/tc/expression.rs path="type TE" kind=type
//@end
//@extract file=src/tc/expression.rs path="enum WordUse" kind=type
//@end
//@extract file=src/tc/expression.rs path="enum TypeExpression" kind=type
//@end
//@extract file=src/tc/expression.rs path="type InferenceSet" kind=type
//@end
//@extract file=src/vm/value/mod.rs path="enum Provenance" kind=type
//@end

//@extract file=src/tc/expression.rs path="impl TypeExpression" kind=header
//@end
//@extract file=src/tc/expression.rs path="impl TypeExpression|fn eq" props=C14
//@ret r
//@spec
        ensures r == (TypeExpression::Equal { id }),                                                  //@ob C14.tc_state.te_eq.names_the_variable
//@end
}

// A-DERIVE: the derived Hash/Eq of TypeVariable (one usize) and of the boxed runtime value obey
// vstd's key model (hash and == are deterministic functions of the spec value).
pub broadcast axiom fn axiom_tv_key_model()
    ensures #[trigger] vstd::std_specs::hash::obeys_key_model::<TypeVariable>();
pub broadcast axiom fn axiom_rbv_key_model()
    ensures #[trigger] vstd::std_specs::hash::obeys_key_model::<RuntimeBoxedVal>();
pub broadcast group group_tc_keys { axiom_tv_key_model, axiom_rbv_key_model }

// A-DERIVE: derived `==` on TypeVariable is equality of the spec value.
impl vstd::std_specs::cmp::PartialEqSpecImpl for TypeVariable {
    open spec fn obeys_eq_spec() -> bool { true }
    open spec fn eq_spec(&self, other: &TypeVariable) -> bool { *self == *other }
}
pub assume_specification[ <TypeVariable as core::cmp::PartialEq>::eq ](a: &TypeVariable, b: &TypeVariable) -> (r: bool);

// A-CALLEE: `TCBoxedVal` = Arc<SymbolicValue<TypeVariable>> is OPAQUE here; `type_var()` reads its aux data
// (`tv()`), `TCSV::new(ip, data, provenance, aux)` builds a boxed value whose aux data is `aux`, `clone` (Arc)
// returns the same value.
#[verifier::external_body]
pub struct TCBoxedVal { _p: u8 }
#[verifier::external_body]
pub struct TCSVD { _p: u8 }
pub struct TCSV { _p: u8 }
impl TCBoxedVal {
    pub uninterp spec fn tv(&self) -> TypeVariable;
    pub uninterp spec fn dt(&self) -> TCSVD;
    #[verifier::external_body]
    pub fn type_var(&self) -> (r: TypeVariable) ensures r == self.tv() { unimplemented!() }
}
impl Clone for TCBoxedVal {
    #[verifier::external_body]
    fn clone(&self) -> (r: Self) ensures r == *self { unimplemented!() }
}
impl TCSVD {
    #[verifier::external_body]
    pub fn new_value() -> (r: TCSVD) { unimplemented!() }
}
impl TCSV {
    #[verifier::external_body]
    pub fn new(instruction_pointer: u32, data: TCSVD, provenance: Provenance, aux: TypeVariable) -> (r: TCBoxedVal)
        ensures r.tv() == aux, r.dt() == data,
    { unimplemented!() }
}
// A-CALLEE: `RuntimeBoxedVal` = Arc<SymbolicValue<()>> is OPAQUE here (a HashMap key, see A-DERIVE above).
#[verifier::external_type_specification]
#[verifier::external_body]
pub struct ExRuntimeBoxedVal(RuntimeBoxedVal);
impl RuntimeBoxedVal {
    #[verifier::external_body]
    pub fn instruction_pointer(&self) -> (r: u32) { unimplemented!() }
    #[verifier::external_body]
    pub fn provenance(&self) -> (r: Provenance) { unimplemented!() }
}
// A-CALLEE: `UnificationForest` is opaque (only stored and handed back).
#[verifier::external_body]
pub struct UnificationForest { _p: u8 }
impl UnificationForest {
    #[verifier::external_body]
    pub fn new() -> (r: UnificationForest) { unimplemented!() }
}

// A-CALLEE: `TypeVariableSource` (Arc<AtomicUsize>, fetch_add — outside Verus' std specs). Assumed: `fresh()`
// returns a variable that was never issued by this source before and marks it issued; `new()` has issued none;
// `allocated_count()` is a function of the source. (fetch_add wraps after usize::MAX allocations: NOT modelled.)
#[verifier::external_body]
pub struct TypeVariableSource { _p: u8 }
impl TypeVariableSource {
    pub uninterp spec fn issued(&self, tv: TypeVariable) -> bool;
    pub uninterp spec fn count(&self) -> usize;
    #[verifier::external_body]
    pub fn new() -> (r: TypeVariableSource)
        ensures forall|tv: TypeVariable| !r.issued(tv), r.count() == 0,
    { unimplemented!() }
    #[verifier::external_body]
    pub fn fresh(&mut self) -> (r: TypeVariable)
        ensures
            !old(self).issued(r),
            forall|tv: TypeVariable| final(self).issued(tv) == (old(self).issued(tv) || tv == r),
    { unimplemented!() }
    #[verifier::external_body]
    pub fn allocated_count(&self) -> (r: usize) ensures r == self.count() { unimplemented!() }
}

// A-STD: `HashMap::get_mut(k)` (no vstd specification) returns Some(&mut value stored under k) iff k is a key —
// so `.unwrap()` panics iff k is absent — and `HashSet::insert(e)` through that reference adds e to THAT set;
// no other entry and no key changes.  Stands for the expression `m.get_mut(k).unwrap().insert(e)`.
#[verifier::external_body]
pub fn hm_get_mut_unwrap_insert(m: &mut HashMap<TypeVariable, InferenceSet>, k: &TypeVariable, e: TypeExpression)
    requires old(m)@.contains_key(*k),
    ensures
        final(m)@.dom() == old(m)@.dom(),
        final(m)@[*k]@ == old(m)@[*k]@.insert(e),
        forall|o: TypeVariable| o != *k && old(m)@.contains_key(o) ==> final(m)@[o] == old(m)@[o],
{ unimplemented!() }

//@extract file=src/tc/state/mod.rs path="struct TypeCheckerState" kind=type
//@end

/// the variable an equality judgement names
pub open spec fn eq_id(e: TypeExpression) -> Option<TypeVariable> {
    match e { TypeExpression::Equal { id } => Some(id), _ => None }
}
/// everything but the judgement sets is the same in `a` and `b`
pub closed spec fn same_rest(a: &TypeCheckerState, b: &TypeCheckerState) -> bool {
    a.expressions == b.expressions && a.stable_types == b.stable_types && a.tyvar_source == b.tyvar_source
        && a.unification_result == b.unification_result
}

impl TypeCheckerState {
    pub closed spec fn stable(&self) -> Map<RuntimeBoxedVal, TCBoxedVal> { self.stable_types@ }
    pub closed spec fn src(&self) -> TypeVariableSource { self.tyvar_source }
    pub closed spec fn forest(&self) -> UnificationForest { self.unification_result }
    pub closed spec fn inf_map(&self) -> Map<TypeVariable, InferenceSet> { self.inferences@ }
    pub closed spec fn val_map(&self) -> Map<TypeVariable, TCBoxedVal> { self.expressions@ }
    /// `tv` is registered: it has a judgement set
    pub closed spec fn knows(&self, tv: TypeVariable) -> bool { self.inferences@.contains_key(tv) }
    /// the typing judgements recorded for `tv`
    pub closed spec fn judgements(&self, tv: TypeVariable) -> Set<TypeExpression> { self.inferences@[tv]@ }
    pub closed spec fn has_value(&self, tv: TypeVariable) -> bool { self.expressions@.contains_key(tv) }
    pub closed spec fn value_of(&self, tv: TypeVariable) -> TCBoxedVal { self.expressions@[tv] }
    /// the state's invariant w.r.t. its variable source: every variable it knows was issued by the source
    pub closed spec fn wf(&self) -> bool {
        &&& forall|tv: TypeVariable| #[trigger] self.inferences@.contains_key(tv) ==> self.tyvar_source.issued(tv)
        &&& forall|tv: TypeVariable| #[trigger] self.expressions@.contains_key(tv) ==> self.tyvar_source.issued(tv)
        &&& forall|k: RuntimeBoxedVal| #[trigger] self.stable_types@.contains_key(k) ==>
                self.inferences@.contains_key(self.stable_types@[k].tv()) && self.expressions@.contains_key(self.stable_types@[k].tv())
    }
    /// "when `infer` does not panic": the variables it touches are known
    pub open spec fn infer_pre(&self, variable: TypeVariable, expression: TypeExpression) -> bool {
        self.knows(variable) && (expression matches TypeExpression::Equal { id } ==> self.knows(id))
    }
    /// C14: what `infer(variable, expression)` does to the judgement sets
    pub open spec fn infer_post(&self, post: &TypeCheckerState, variable: TypeVariable, expression: TypeExpression) -> bool {
        &&& forall|tv: TypeVariable| post.knows(tv) == self.knows(tv)
        &&& match expression {
            TypeExpression::Equal { id } => if id == variable {
                forall|tv: TypeVariable| self.knows(tv) ==> post.judgements(tv) == self.judgements(tv)
            } else {
                &&& post.judgements(variable) == self.judgements(variable).insert(expression)
                &&& post.judgements(id) == self.judgements(id).insert(TypeExpression::Equal { id: variable })
                &&& forall|tv: TypeVariable| tv != variable && tv != id && self.knows(tv) ==> post.judgements(tv) == self.judgements(tv)
            },
            _ => {
                &&& post.judgements(variable) == self.judgements(variable).insert(expression)
                &&& forall|tv: TypeVariable| tv != variable && self.knows(tv) ==> post.judgements(tv) == self.judgements(tv)
            },
        }
    }
}

// A-CALLEE: `is_stable_typed` (recursion through `children().into_iter().any(closure)`) is a deterministic
// function of the value (`stable_typed`, uninterpreted): nothing else is assumed about WHICH values are stable.
pub uninterp spec fn stable_typed(v: RuntimeBoxedVal) -> bool;

/// the state only GROWS from `a` to `b`: known variables stay known with the very same judgement set, registered
/// values stay registered, stable values keep their boxed value, the variable source only advances
pub closed spec fn grows(a: &TypeCheckerState, b: &TypeCheckerState) -> bool {
    &&& forall|tv: TypeVariable| #[trigger] a.inferences@.contains_key(tv) ==> b.inferences@.contains_key(tv) && b.inferences@[tv] == a.inferences@[tv]
    &&& forall|tv: TypeVariable| #[trigger] a.expressions@.contains_key(tv) ==> b.expressions@.contains_key(tv) && b.expressions@[tv] == a.expressions@[tv]
    &&& forall|k: RuntimeBoxedVal| #[trigger] a.stable_types@.contains_key(k) ==> b.stable_types@.contains_key(k) && b.stable_types@[k] == a.stable_types@[k]
    &&& forall|tv: TypeVariable| #[trigger] a.tyvar_source.issued(tv) ==> b.tyvar_source.issued(tv)
}
/// `a` and `b` have the same judgements, values and stable values
pub closed spec fn same_maps(a: &TypeCheckerState, b: &TypeCheckerState) -> bool {
    a.inferences@ == b.inferences@ && a.expressions@ == b.expressions@ && a.stable_types@ == b.stable_types@ && a.tyvar_source == b.tyvar_source
}
/// the value was registered before as a stable-typed one
pub open spec fn shared(s: &TypeCheckerState, value: RuntimeBoxedVal) -> bool { stable_typed(value) && s.stable().contains_key(value) }
/// C14: what registering `value` does, `out` being the boxed value handed back
pub open spec fn reg_post(pre: &TypeCheckerState, post: &TypeCheckerState, value: RuntimeBoxedVal, out: TCBoxedVal) -> bool {
    &&& post.wf()
    &&& grows(pre, post)
    &&& post.knows(out.tv()) && post.has_value(out.tv())
    &&& shared(pre, value) ==> out == pre.stable()[value] && same_maps(pre, post)
    &&& !shared(pre, value) ==> !pre.knows(out.tv()) && !pre.has_value(out.tv())
            && post.judgements(out.tv()) =~= Set::<TypeExpression>::empty() && post.value_of(out.tv()) == out
    &&& stable_typed(value) ==> post.stable().contains_key(value) && post.stable()[value] == out
    &&& !stable_typed(value) ==> post.stable().contains_key(value) == pre.stable().contains_key(value)
}

// A-OPAQUE (R-OPAQUE): stands for the 66-arm `match (*value).clone().consume().data { .. }` of register_internal,
// i.e. the recursive registration of the children and the rebuilding of the payload. Assumed FRAME only: the state
// only grows (`grows`), the invariant `wf` is kept, and `value` itself (its children are strict subterms) is not
// entered into `stable_types`. NOTHING is assumed about the payload built.
#[verifier::external_body]
fn register_children(s: &mut TypeCheckerState, value: &RuntimeBoxedVal) -> (d: TCSVD)
    requires old(s).wf(),
    ensures
        grows(old(s), final(s)), final(s).wf(),
        final(s).stable_types@.contains_key(*value) == old(s).stable_types@.contains_key(*value),
{ unimplemented!() }

//@extract file=src/tc/state/mod.rs path="impl TypeCheckerState" kind=header
//@end
//@extract file=src/tc/state/mod.rs path="impl TypeCheckerState|fn empty" props=C14
//@ret r
//@spec
        ensures
            forall|tv: TypeVariable| !r.knows(tv) && !r.has_value(tv),                                //@ob C14.tc_state.empty.no_variable_known
            r.stable() == Map::<RuntimeBoxedVal, TCBoxedVal>::empty(),
            r.wf(),
//@proof entry
        broadcast use vstd::std_specs::hash::group_hash_axioms;
        broadcast use group_tc_keys;
//@end

//@extract file=src/tc/state/mod.rs path="impl TypeCheckerState|fn infer" props=C14,C01
//@rw R-IMPL-INTO
//@old
variable: impl Into<TypeVariable>,
//@new
variable: TypeVariable,
//@rw R-IMPL-INTO
//@old
expression: impl Into<TypeExpression>,
//@new
expression: TypeExpression,
//@rw R-IMPL-INTO
//@old
let variable = variable.into();
//@new
let variable = variable;
//@rw R-IMPL-INTO
//@old
let expression = expression.into();
//@new
let expression = expression;
//@rw R-CALL count=any
//@old
self.inferences.get_mut($1).unwrap().insert($2);
//@new
hm_get_mut_unwrap_insert(&mut self.inferences, $1, $2);
//@spec
        requires
            old(self).infer_pre(variable, expression),                                                //@ob C01.tc_state.infer.needs_known_variables
        ensures
            forall|tv: TypeVariable| final(self).knows(tv) == old(self).knows(tv),                    //@ob C14.tc_state.infer.known_variables_unchanged
            expression matches TypeExpression::Equal { id } ==> id != variable ==>
                final(self).judgements(id) =~= old(self).judgements(id).insert(TypeExpression::Equal { id: variable }),   //@ob C14.tc_state.infer.equality_recorded_symmetrically
            eq_id(expression) == Some(variable) ==>
                forall|tv: TypeVariable| old(self).knows(tv) ==> final(self).judgements(tv) == old(self).judgements(tv),   //@ob C14.tc_state.infer.self_equality_changes_nothing
            eq_id(expression) != Some(variable) ==>
                final(self).judgements(variable) =~= old(self).judgements(variable).insert(expression),   //@ob C14.tc_state.infer.expression_recorded_for_variable
            forall|tv: TypeVariable| tv != variable && eq_id(expression) != Some(tv) && old(self).knows(tv)
                ==> final(self).judgements(tv) == old(self).judgements(tv),                           //@ob C14.tc_state.infer.frame_other_variables
            forall|tv: TypeVariable| old(self).knows(tv) ==> old(self).judgements(tv).subset_of(final(self).judgements(tv)),   //@ob C14.tc_state.infer.append_only
            same_rest(old(self), final(self)),                                                        //@ob C14.tc_state.infer.values_untouched
            old(self).infer_post(final(self), variable, expression),                                  //@ob C14.tc_state.infer.honours_equalities
//@proof entry
        broadcast use vstd::std_specs::hash::group_hash_axioms;
        broadcast use group_tc_keys;
//@end

//@extract file=src/tc/state/mod.rs path="impl TypeCheckerState|fn infer_for" props=C14,C01
//@ret r
//@rw R-IMPL-INTO
//@old
expression: impl Into<TypeExpression>,
//@new
expression: TypeExpression,
//@spec
        requires
            old(self).infer_pre(value.tv(), expression),                                              //@ob C01.tc_state.infer_for.needs_known_variables
        ensures
            r == value.tv(),                                                                          //@ob C14.tc_state.infer_for.returns_the_values_variable
            old(self).infer_post(final(self), value.tv(), expression),                                //@ob C14.tc_state.infer_for.judgement_for_the_values_variable
            same_rest(old(self), final(self)),
//@end

//@extract file=src/tc/state/mod.rs path="impl TypeCheckerState|fn inferences" props=C14,C01
//@ret r
//@rw R-IMPL-INTO
//@old
variable: impl Into<TypeVariable>
//@new
variable: TypeVariable
//@rw R-IMPL-INTO
//@old
let variable = variable.into();
//@new
let variable = variable;
//@spec
        requires
            self.knows(variable),                                                                     //@ob C01.tc_state.inferences.needs_known_variable
        ensures
            r@ == self.judgements(variable),                                                          //@ob C14.tc_state.inferences.the_variables_set
//@proof entry
        broadcast use vstd::std_specs::hash::group_hash_axioms;
        broadcast use group_tc_keys;
//@end

//@extract file=src/tc/state/mod.rs path="impl TypeCheckerState|fn var" props=C14
//@ret r
//@spec
        ensures r == Some(value.tv()),                                                                //@ob C14.tc_state.var.the_values_variable
//@end
//@extract file=src/tc/state/mod.rs path="impl TypeCheckerState|fn var_unchecked" props=C14,C01
//@ret r
//@spec
        ensures r == value.tv(),                                                                      //@ob C14.tc_state.var_unchecked.the_values_variable
//@end

//@extract file=src/tc/state/mod.rs path="impl TypeCheckerState|fn value" props=C14
//@ret r
//@rw R-IMPL-INTO
//@old
variable: impl Into<TypeVariable>
//@new
variable: TypeVariable
//@rw R-IMPL-INTO
//@old
let variable = variable.into();
//@new
let variable = variable;
//@spec
        ensures
            r is Some == self.has_value(variable),                                                    //@ob C14.tc_state.value.some_iff_registered
            r matches Some(v) ==> *v == self.value_of(variable),                                      //@ob C14.tc_state.value.the_registered_value
//@proof entry
        broadcast use vstd::std_specs::hash::group_hash_axioms;
        broadcast use group_tc_keys;
//@end
//@extract file=src/tc/state/mod.rs path="impl TypeCheckerState|fn value_unchecked" props=C14,C01
//@ret r
//@rw R-IMPL-INTO
//@old
variable: impl Into<TypeVariable>
//@new
variable: TypeVariable
//@rw R-IMPL-INTO
//@old
let variable = variable.into();
//@new
let variable = variable;
//@spec
        requires
            self.has_value(variable),                                                                 //@ob C01.tc_state.value_unchecked.needs_registered_variable
        ensures
            *r == self.value_of(variable),                                                            //@ob C14.tc_state.value_unchecked.the_registered_value
//@end

//@extract file=src/tc/state/mod.rs path="impl TypeCheckerState|fn set_result"
//@spec
        ensures
            final(self).forest() == result,
            final(self).inf_map() == old(self).inf_map(), final(self).val_map() == old(self).val_map(),   //@ob C14.tc_state.set_result.judgements_untouched
            final(self).stable() == old(self).stable(), final(self).src() == old(self).src(),
//@end
//@extract file=src/tc/state/mod.rs path="impl TypeCheckerState|fn tyvar_count"
//@ret r
//@spec
        ensures r == self.src().count(),
//@end

    // A-CALLEE: see `stable_typed`
    #[verifier::external_body]
    fn is_stable_typed(value: &RuntimeBoxedVal) -> (r: bool) ensures r == stable_typed(*value) { unimplemented!() }

//@extract file=src/tc/state/mod.rs path="impl TypeCheckerState|fn register_internal" props=C14,C01
//@ret out
//@rw R-OPAQUE
//@old
let new_data = match (*value).clone().consume().data { $1 };
//@new
let new_data = register_children(self, &value);
//@rw R-ENTRY optional
//@old
self.expressions.entry($1).or_insert($2);
//@new
if !self.expressions.contains_key(&$1) { self.expressions.insert($1, $2); }
//@rw R-ENTRY optional
//@old
self.inferences.entry($1).or_insert($2);
//@new
if !self.inferences.contains_key(&$1) { self.inferences.insert($1, $2); }
//@spec
        requires
            old(self).wf(),
        ensures
            final(self).wf(),
            grows(old(self), final(self)),                                                            //@ob C14.tc_state.register_internal.existing_variables_keep_sets_and_values
            shared(old(self), value) ==> out == old(self).stable()[value] && same_maps(old(self), final(self)),   //@ob C14.tc_state.register_internal.stable_value_gets_the_same_boxed_value
            !shared(old(self), value) ==> !old(self).knows(out.tv()) && !old(self).has_value(out.tv()),   //@ob C14.tc_state.register_internal.fresh_variable
            final(self).knows(out.tv()) && final(self).has_value(out.tv()),                           //@ob C14.tc_state.register_internal.variable_becomes_known
            !shared(old(self), value) ==> final(self).judgements(out.tv()) =~= Set::<TypeExpression>::empty(),   //@ob C14.tc_state.register_internal.starts_with_no_judgement
            !shared(old(self), value) ==> final(self).value_of(out.tv()) == out,                      //@ob C14.tc_state.register_internal.variable_maps_to_the_value
            stable_typed(value) ==> final(self).stable().contains_key(value) && final(self).stable()[value] == out,   //@ob C14.tc_state.register_internal.stable_value_is_remembered
            !stable_typed(value) ==> final(self).stable().contains_key(value) == old(self).stable().contains_key(value),   //@ob C14.tc_state.register_internal.only_stable_values_are_shared
            reg_post(old(self), final(self), value, out),
//@proof entry
        broadcast use vstd::std_specs::hash::group_hash_axioms;
        broadcast use group_tc_keys;
//@end

//@extract file=src/tc/state/mod.rs path="impl TypeCheckerState|fn register" props=C14,C01
//@ret r
//@spec
        requires
            old(self).wf(),
        ensures
            exists|out: TCBoxedVal| out.tv() == r && #[trigger] reg_post(old(self), final(self), value, out),   //@ob C14.tc_state.register.returns_the_registered_values_variable
            shared(old(self), value) ==> r == old(self).stable()[value].tv(),                         //@ob C14.tc_state.register.one_variable_per_stable_value
            !shared(old(self), value) ==> !old(self).knows(r),                                        //@ob C14.tc_state.register.fresh_variable
            final(self).knows(r),                                                                     //@ob C01.tc_state.register.result_is_known
//@end

//@extract file=src/tc/state/mod.rs path="impl TypeCheckerState|fn allocate_ty_var" props=C14
//@ret r
//@rw R-SIG
//@old
pub unsafe fn allocate_ty_var
//@new
pub fn allocate_ty_var
//@rw R-ENTRY optional
//@old
self.expressions.entry($1).or_insert($2);
//@new
if !self.expressions.contains_key(&$1) { self.expressions.insert($1, $2); }
//@rw R-ENTRY optional
//@old
self.inferences.entry($1).or_insert($2);
//@new
if !self.inferences.contains_key(&$1) { self.inferences.insert($1, $2); }
//@spec
        ensures
            old(self).wf() ==> !old(self).knows(r) && !old(self).has_value(r),                        //@ob C14.tc_state.allocate_ty_var.fresh_variable
            final(self).knows(r) && final(self).has_value(r),                                         //@ob C14.tc_state.allocate_ty_var.becomes_known
            final(self).judgements(r) =~= (if old(self).knows(r) { old(self).judgements(r) } else { Set::<TypeExpression>::empty() }),   //@ob C14.tc_state.allocate_ty_var.starts_with_no_judgement
            forall|tv: TypeVariable| tv != r ==> final(self).knows(tv) == old(self).knows(tv)
                && final(self).has_value(tv) == old(self).has_value(tv),                              //@ob C14.tc_state.allocate_ty_var.only_one_variable_added
            forall|tv: TypeVariable| old(self).knows(tv) ==> final(self).inf_map()[tv] == old(self).inf_map()[tv],   //@ob C14.tc_state.allocate_ty_var.existing_judgements_kept
            forall|tv: TypeVariable| old(self).has_value(tv) ==> final(self).value_of(tv) == old(self).value_of(tv),   //@ob C14.tc_state.allocate_ty_var.existing_values_kept
            !old(self).has_value(r) ==> final(self).value_of(r).tv() == r,                            //@ob C14.tc_state.allocate_ty_var.value_carries_its_variable
            final(self).stable() == old(self).stable(),
            old(self).wf() ==> final(self).wf(),
//@proof entry
        broadcast use vstd::std_specs::hash::group_hash_axioms;
        broadcast use group_tc_keys;
//@end
}

//@extract file=src/tc/state/mod.rs path="impl Default for TypeCheckerState" kind=header
//@end
//@extract file=src/tc/state/mod.rs path="impl Default for TypeCheckerState|fn default" props=C14
//@ret r
//@spec
        ensures
            forall|tv: TypeVariable| !r.knows(tv) && !r.has_value(tv),                                //@ob C14.tc_state.default.no_variable_known
            r.wf(),
//@end
}
} // verus!
fn main() {}
//@dropped TypeCheckerState::{infer_many, infer_for_many} (closures / array::from_fn), inferences_cloned (iterator chain), set_inferences, inferences_mut, result (&mut return), values, variables, pairs, pairs_cloned, clear: not under contract
//@dropped register_internal: the 66-arm match (recursive registration of the children) is replaced by the opaque callee register_children (R-OPAQUE) with an ASSUMED frame; the payload built is not specified
//@dropped TypeVariableSource::{new, fresh, allocated_count} (Arc<AtomicUsize>): stand-in with assumed contract; wrap-around of fetch_add after usize::MAX allocations not modelled
//@dropped is_stable_typed: uninterpreted predicate
