//@unit props=C14,C01
// Unit tc_state — the REAL `TypeCheckerState` (src/tc/state/mod.rs): what the units rules / packed_lift /
// arith_sites / type_of only ASSUME about it is proved here from its extracted bodies.
//   C14  `infer` records an equality SYMMETRICALLY, drops a self-equality, records every other expression for
//        exactly the variable handed in; it is append-only and touches no other variable; the set of known
//        variables never changes in `infer`.
//   C01  the `unwrap()`s of infer / inferences / value_unchecked cannot fail when the variables are known.
//   C11/C14  register_internal (tail): one FRESH variable per registration, an already registered stable-typed
//        value gets the SAME boxed value (hence the same variable) back.
// Abstract view: `knows(tv)` (key of `inferences`), `judgements(tv)` (the Set<TypeExpression> kept for it),
// `has_value(tv)` / `value_of(tv)` (map `expressions`), `stable_of` (map `stable_types`).
// Everything marked A-... is an ASSUMPTION.
use vstd::prelude::*;
use std::collections::{HashMap, HashSet};
#[allow(dead_code, unused)]
mod tc_ext {
    // A-ETHNUM: stand-in for ethnum::U256 (external crate); only a field type of `TypeExpression` here.
    #[derive(Clone, Copy, PartialEq, Eq, Hash, Debug)]
    pub struct U256(pub [u128; 2]);
}
use tc_ext::U256;

verus! {

#[verifier::external_type_specification]
#[verifier::external_body]
pub struct ExU256(U256);

#[derive(Copy, Clone, Eq, Hash, PartialEq, Structural)]
//@extract file=src/tc/state/type_variable.rs path="struct TypeVariable" kind=type
//@end
#[derive(Clone, Eq, Hash, PartialEq)]
//@extract file=src/tc/expression.rs path="struct Span" kind=type
//@end
//@extract file=src/tc/expression.rs path="type TE" kind=type
//@end
#[derive(Clone, Copy, Eq, Hash, PartialEq)]
//@extract file=src/tc/expression.rs path="enum WordUse" kind=type
//@end
#[derive(Clone, Eq, Hash, PartialEq)]
//@extract file=src/tc/expression.rs path="enum TypeExpression" kind=type
//@end
//@extract file=src/tc/expression.rs path="type InferenceSet" kind=type
//@end
//@extract file=src/vm/value/mod.rs path="enum Provenance" kind=type
//@end

//@extract file=src/tc/expression.rs path="impl TypeExpression" kind=header
//@end
//@extract file=src/tc/expression.rs path="impl TypeExpression|fn eq" props=C14
//@ret r
//@spec
        ensures r == (TypeExpression::Equal { id }),                                                  //@ob C14.tc_state.te_eq.names_the_variable
//@end
}

// A-DERIVE: the derived Hash/Eq of TypeVariable (one usize), TypeExpression and of the boxed runtime value obey
// vstd's key model (hash and == are deterministic functions of the spec value).
pub broadcast axiom fn axiom_tv_key_model()
    ensures #[trigger] vstd::std_specs::hash::obeys_key_model::<TypeVariable>();
pub broadcast axiom fn axiom_te_key_model()
    ensures #[trigger] vstd::std_specs::hash::obeys_key_model::<TypeExpression>();
pub broadcast axiom fn axiom_rbv_key_model()
    ensures #[trigger] vstd::std_specs::hash::obeys_key_model::<RuntimeBoxedVal>();
pub broadcast group group_tc_keys { axiom_tv_key_model, axiom_te_key_model, axiom_rbv_key_model }

// A-DERIVE: derived `==` on TypeVariable is equality of the spec value.
impl vstd::std_specs::cmp::PartialEqSpecImpl for TypeVariable {
    open spec fn obeys_eq_spec() -> bool { true }
    open spec fn eq_spec(&self, other: &TypeVariable) -> bool { *self == *other }
}
pub assume_specification[ <TypeVariable as core::cmp::PartialEq>::eq ](a: &TypeVariable, b: &TypeVariable) -> (r: bool);

// A-CALLEE: `TCBoxedVal` = Arc<SymbolicValue<TypeVariable>> is OPAQUE here; `type_var()` reads its aux data
// (`tv()`), `TCSV::new(ip, data, provenance, aux)` builds a boxed value whose aux data is `aux`, `clone` (Arc)
// returns the same value.
#[verifier::external_body]
pub struct TCBoxedVal { _p: u8 }
#[verifier::external_body]
pub struct TCSVD { _p: u8 }
pub struct TCSV { _p: u8 }
impl TCBoxedVal {
    pub uninterp spec fn tv(&self) -> TypeVariable;
    pub uninterp spec fn dt(&self) -> TCSVD;
    #[verifier::external_body]
    pub fn type_var(&self) -> (r: TypeVariable) ensures r == self.tv() { unimplemented!() }
}
impl Clone for TCBoxedVal {
    #[verifier::external_body]
    fn clone(&self) -> (r: Self) ensures r == *self { unimplemented!() }
}
impl TCSVD {
    #[verifier::external_body]
    pub fn new_value() -> (r: TCSVD) { unimplemented!() }
}
impl TCSV {
    #[verifier::external_body]
    pub fn new(instruction_pointer: u32, data: TCSVD, provenance: Provenance, aux: TypeVariable) -> (r: TCBoxedVal)
        ensures r.tv() == aux, r.dt() == data,
    { unimplemented!() }
}
// A-CALLEE: `RuntimeBoxedVal` = Arc<SymbolicValue<()>> is OPAQUE here (a HashMap key, see A-DERIVE above).
#[verifier::external_body]
pub struct RuntimeBoxedVal { _p: u8 }
impl RuntimeBoxedVal {
    #[verifier::external_body]
    pub fn instruction_pointer(&self) -> (r: u32) { unimplemented!() }
    #[verifier::external_body]
    pub fn provenance(&self) -> (r: Provenance) { unimplemented!() }
}
// A-CALLEE: `UnificationForest` is opaque (only stored and handed back).
#[verifier::external_body]
pub struct UnificationForest { _p: u8 }
impl UnificationForest {
    #[verifier::external_body]
    pub fn new() -> (r: UnificationForest) { unimplemented!() }
}

// A-CALLEE: `TypeVariableSource` (Arc<AtomicUsize>, fetch_add — outside Verus' std specs). Assumed: `fresh()`
// returns a variable that was never issued by this source before and marks it issued; `new()` has issued none;
// `allocated_count()` is a function of the source. (fetch_add wraps after usize::MAX allocations: NOT modelled.)
#[verifier::external_body]
pub struct TypeVariableSource { _p: u8 }
impl TypeVariableSource {
    pub uninterp spec fn issued(&self, tv: TypeVariable) -> bool;
    pub uninterp spec fn count(&self) -> usize;
    #[verifier::external_body]
    pub fn new() -> (r: TypeVariableSource)
        ensures forall|tv: TypeVariable| !r.issued(tv), r.count() == 0,
    { unimplemented!() }
    #[verifier::external_body]
    pub fn fresh(&mut self) -> (r: TypeVariable)
        ensures
            !old(self).issued(r),
            forall|tv: TypeVariable| final(self).issued(tv) == (old(self).issued(tv) || tv == r),
    { unimplemented!() }
    #[verifier::external_body]
    pub fn allocated_count(&self) -> (r: usize) ensures r == self.count() { unimplemented!() }
}

// A-STD: `HashMap::get_mut(k)` (no vstd specification) returns Some(&mut value stored under k) iff k is a key —
// so `.unwrap()` panics iff k is absent — and `HashSet::insert(e)` through that reference adds e to THAT set;
// no other entry and no key changes.  Stands for the expression `m.get_mut(k).unwrap().insert(e)`.
#[verifier::external_body]
pub fn hm_get_mut_unwrap_insert(m: &mut HashMap<TypeVariable, InferenceSet>, k: &TypeVariable, e: TypeExpression)
    requires old(m)@.contains_key(*k),
    ensures
        final(m)@.dom() == old(m)@.dom(),
        final(m)@[*k]@ == old(m)@[*k]@.insert(e),
        forall|o: TypeVariable| o != *k && old(m)@.contains_key(o) ==> final(m)@[o] == old(m)@[o],
{ unimplemented!() }

//@extract file=src/tc/state/mod.rs path="struct TypeCheckerState" kind=type
//@end

/// the variable an equality judgement names
pub open spec fn eq_id(e: TypeExpression) -> Option<TypeVariable> {
    match e { TypeExpression::Equal { id } => Some(id), _ => None }
}
/// everything but the judgement sets is the same in `a` and `b`
pub closed spec fn same_rest(a: &TypeCheckerState, b: &TypeCheckerState) -> bool {
    a.expressions == b.expressions && a.stable_types == b.stable_types && a.tyvar_source == b.tyvar_source
        && a.unification_result == b.unification_result
}

impl TypeCheckerState {
    /// `tv` is registered: it has a judgement set
    pub closed spec fn knows(&self, tv: TypeVariable) -> bool { self.inferences@.contains_key(tv) }
    /// the typing judgements recorded for `tv`
    pub closed spec fn judgements(&self, tv: TypeVariable) -> Set<TypeExpression> { self.inferences@[tv]@ }
    pub closed spec fn has_value(&self, tv: TypeVariable) -> bool { self.expressions@.contains_key(tv) }
    pub closed spec fn value_of(&self, tv: TypeVariable) -> TCBoxedVal { self.expressions@[tv] }
    /// the state's invariant w.r.t. its variable source: every variable it knows was issued by the source
    pub closed spec fn wf(&self) -> bool {
        forall|tv: TypeVariable| (#[trigger] self.knows(tv) ==> self.tyvar_source.issued(tv))
            && (#[trigger] self.has_value(tv) ==> self.tyvar_source.issued(tv))
    }
    /// "when `infer` does not panic": the variables it touches are known
    pub open spec fn infer_pre(&self, variable: TypeVariable, expression: TypeExpression) -> bool {
        self.knows(variable) && (expression matches TypeExpression::Equal { id } ==> self.knows(id))
    }
    /// C14: what `infer(variable, expression)` does to the judgement sets
    pub open spec fn infer_post(&self, post: &TypeCheckerState, variable: TypeVariable, expression: TypeExpression) -> bool {
        &&& forall|tv: TypeVariable| post.knows(tv) == self.knows(tv)
        &&& match expression {
            TypeExpression::Equal { id } => if id == variable {
                forall|tv: TypeVariable| self.knows(tv) ==> post.judgements(tv) == self.judgements(tv)
            } else {
                &&& post.judgements(variable) == self.judgements(variable).insert(expression)
                &&& post.judgements(id) == self.judgements(id).insert(TypeExpression::Equal { id: variable })
                &&& forall|tv: TypeVariable| tv != variable && tv != id && self.knows(tv) ==> post.judgements(tv) == self.judgements(tv)
            },
            _ => {
                &&& post.judgements(variable) == self.judgements(variable).insert(expression)
                &&& forall|tv: TypeVariable| tv != variable && self.knows(tv) ==> post.judgements(tv) == self.judgements(tv)
            },
        }
    }
}

//@extract file=src/tc/state/mod.rs path="impl TypeCheckerState" kind=header
//@end
//@extract file=src/tc/state/mod.rs path="impl TypeCheckerState|fn empty" props=C14
//@ret r
//@spec
        ensures
            forall|tv: TypeVariable| !r.knows(tv) && !r.has_value(tv),                                //@ob C14.tc_state.empty.no_variable_known
            r.stable_types@ == Map::<RuntimeBoxedVal, TCBoxedVal>::empty(),
            r.wf(),
//@proof entry
        broadcast use vstd::std_specs::hash::group_hash_axioms;
        broadcast use group_tc_keys;
//@end

//@extract file=src/tc/state/mod.rs path="impl TypeCheckerState|fn infer" props=C14,C01
//@rw R-IMPL-INTO
//@old
variable: impl Into<TypeVariable>,
//@new
variable: TypeVariable,
//@rw R-IMPL-INTO
//@old
expression: impl Into<TypeExpression>,
//@new
expression: TypeExpression,
//@rw R-IMPL-INTO
//@old
let variable = variable.into();
//@new
let variable = variable;
//@rw R-IMPL-INTO
//@old
let expression = expression.into();
//@new
let expression = expression;
//@rw R-CALL count=2
//@old
self.inferences.get_mut($1).unwrap().insert($2);
//@new
hm_get_mut_unwrap_insert(&mut self.inferences, $1, $2);
//@spec
        requires
            old(self).infer_pre(variable, expression),                                                //@ob C01.tc_state.infer.needs_known_variables
        ensures
            forall|tv: TypeVariable| final(self).knows(tv) == old(self).knows(tv),                    //@ob C14.tc_state.infer.known_variables_unchanged
            expression matches TypeExpression::Equal { id } ==> id != variable ==>
                final(self).judgements(id) =~= old(self).judgements(id).insert(TypeExpression::Equal { id: variable }),   //@ob C14.tc_state.infer.equality_recorded_symmetrically
            eq_id(expression) == Some(variable) ==>
                forall|tv: TypeVariable| old(self).knows(tv) ==> final(self).judgements(tv) == old(self).judgements(tv),   //@ob C14.tc_state.infer.self_equality_changes_nothing
            eq_id(expression) != Some(variable) ==>
                final(self).judgements(variable) =~= old(self).judgements(variable).insert(expression),   //@ob C14.tc_state.infer.expression_recorded_for_variable
            forall|tv: TypeVariable| tv != variable && eq_id(expression) != Some(tv) && old(self).knows(tv)
                ==> final(self).judgements(tv) == old(self).judgements(tv),                           //@ob C14.tc_state.infer.frame_other_variables
            forall|tv: TypeVariable| old(self).knows(tv) ==> old(self).judgements(tv).subset_of(final(self).judgements(tv)),   //@ob C14.tc_state.infer.append_only
            same_rest(old(self), final(self)),                                                        //@ob C14.tc_state.infer.values_untouched
            old(self).infer_post(final(self), variable, expression),                                  //@ob C14.tc_state.infer.honours_equalities
//@proof entry
        broadcast use vstd::std_specs::hash::group_hash_axioms;
        broadcast use group_tc_keys;
//@end

//@extract file=src/tc/state/mod.rs path="impl TypeCheckerState|fn infer_for" props=C14,C01
//@ret r
//@rw R-IMPL-INTO
//@old
expression: impl Into<TypeExpression>,
//@new
expression: TypeExpression,
//@spec
        requires
            old(self).infer_pre(value.tv(), expression),                                              //@ob C01.tc_state.infer_for.needs_known_variables
        ensures
            r == value.tv(),                                                                          //@ob C14.tc_state.infer_for.returns_the_values_variable
            old(self).infer_post(final(self), value.tv(), expression),                                //@ob C14.tc_state.infer_for.judgement_for_the_values_variable
            same_rest(old(self), final(self)),
//@end

//@extract file=src/tc/state/mod.rs path="impl TypeCheckerState|fn inferences" props=C14,C01
//@ret r
//@rw R-IMPL-INTO
//@old
variable: impl Into<TypeVariable>
//@new
variable: TypeVariable
//@rw R-IMPL-INTO
//@old
let variable = variable.into();
//@new
let variable = variable;
//@spec
        requires
            self.knows(variable),                                                                     //@ob C01.tc_state.inferences.needs_known_variable
        ensures
            r@ == self.judgements(variable),                                                          //@ob C14.tc_state.inferences.the_variables_set
//@proof entry
        broadcast use vstd::std_specs::hash::group_hash_axioms;
        broadcast use group_tc_keys;
//@end

//@extract file=src/tc/state/mod.rs path="impl TypeCheckerState|fn var" props=C14
//@ret r
//@spec
        ensures r == Some(value.tv()),                                                                //@ob C14.tc_state.var.the_values_variable
//@end
//@extract file=src/tc/state/mod.rs path="impl TypeCheckerState|fn var_unchecked" props=C14,C01
//@ret r
//@spec
        ensures r == value.tv(),                                                                      //@ob C14.tc_state.var_unchecked.the_values_variable
//@end

//@extract file=src/tc/state/mod.rs path="impl TypeCheckerState|fn value" props=C14
//@ret r
//@rw R-IMPL-INTO
//@old
variable: impl Into<TypeVariable>
//@new
variable: TypeVariable
//@rw R-IMPL-INTO
//@old
let variable = variable.into();
//@new
let variable = variable;
//@spec
        ensures
            r is Some == self.has_value(variable),                                                    //@ob C14.tc_state.value.some_iff_registered
            r matches Some(v) ==> *v == self.value_of(variable),                                      //@ob C14.tc_state.value.the_registered_value
//@proof entry
        broadcast use vstd::std_specs::hash::group_hash_axioms;
        broadcast use group_tc_keys;
//@end
//@extract file=src/tc/state/mod.rs path="impl TypeCheckerState|fn value_unchecked" props=C14,C01
//@ret r
//@rw R-IMPL-INTO
//@old
variable: impl Into<TypeVariable>
//@new
variable: TypeVariable
//@rw R-IMPL-INTO
//@old
let variable = variable.into();
//@new
let variable = variable;
//@spec
        requires
            self.has_value(variable),                                                                 //@ob C01.tc_state.value_unchecked.needs_registered_variable
        ensures
            *r == self.value_of(variable),                                                            //@ob C14.tc_state.value_unchecked.the_registered_value
//@end

//@extract file=src/tc/state/mod.rs path="impl TypeCheckerState|fn set_result"
//@spec
        ensures
            final(self).unification_result == result,
            final(self).inferences == old(self).inferences, final(self).expressions == old(self).expressions,   //@ob C14.tc_state.set_result.judgements_untouched
            final(self).stable_types == old(self).stable_types, final(self).tyvar_source == old(self).tyvar_source,
//@end
//@extract file=src/tc/state/mod.rs path="impl TypeCheckerState|fn tyvar_count"
//@ret r
//@spec
        ensures r == self.tyvar_source.count(),
//@end

//@extract file=src/tc/state/mod.rs path="impl TypeCheckerState|fn allocate_ty_var" props=C14,C11
//@ret r
//@rw R-SIG
//@old
pub unsafe fn allocate_ty_var
//@new
pub fn allocate_ty_var
//@rw R-ENTRY
//@old
self.expressions.entry($1).or_insert($2);
//@new
if !self.expressions.contains_key(&$1) { self.expressions.insert($1, $2); }
//@rw R-ENTRY
//@old
self.inferences.entry($1).or_insert($2);
//@new
if !self.inferences.contains_key(&$1) { self.inferences.insert($1, $2); }
//@spec
        ensures
            old(self).wf() ==> !old(self).knows(r) && !old(self).has_value(r),                        //@ob C11.tc_state.allocate_ty_var.fresh_variable
            final(self).knows(r) && final(self).has_value(r),                                         //@ob C14.tc_state.allocate_ty_var.becomes_known
            final(self).judgements(r) =~= (if old(self).knows(r) { old(self).judgements(r) } else { Set::<TypeExpression>::empty() }),   //@ob C14.tc_state.allocate_ty_var.starts_with_no_judgement
            forall|tv: TypeVariable| tv != r ==> final(self).knows(tv) == old(self).knows(tv)
                && final(self).has_value(tv) == old(self).has_value(tv),                              //@ob C14.tc_state.allocate_ty_var.only_one_variable_added
            forall|tv: TypeVariable| old(self).knows(tv) ==> final(self).inferences@[tv] == old(self).inferences@[tv],   //@ob C14.tc_state.allocate_ty_var.existing_judgements_kept
            forall|tv: TypeVariable| old(self).has_value(tv) ==> final(self).value_of(tv) == old(self).value_of(tv),   //@ob C14.tc_state.allocate_ty_var.existing_values_kept
            !old(self).has_value(r) ==> final(self).value_of(r).tv() == r,                            //@ob C11.tc_state.allocate_ty_var.value_carries_its_variable
            final(self).stable_types == old(self).stable_types,
            old(self).wf() ==> final(self).wf(),
//@proof entry
        broadcast use vstd::std_specs::hash::group_hash_axioms;
        broadcast use group_tc_keys;
//@end
}

// A-CANARY-free: nothing below
} // verus!
fn main() {}
