//@unit props=C06,C03,C01
// Unit vm_state — src/vm/state/mod.rs (VMState: construction, fork, value collection), `VM::new`, `VM::consume` of src/vm/mod.rs.
//   C06: value collection loses nothing — `VMState::all_values` is exactly stack ++ memory ++ storage writes ++ recorded ++ logged
//        (every recorded SLOAD result and every storage write of a finished thread reaches the type checker), `VM::consume` hands
//        over exactly the stored states and the error log.
//   C03: the limits a thread and the VM run under ARE the configured ones — `VMState::new` hands `maximum_iterations_per_opcode` to
//        the visit counter and `single_memory_operation_size_limit` to the memory, `VM::new` hands `maximum_forks_per_fork_target`
//        to the fork budget, and keeps the configuration and the watchdog it was given (C13: the watchdog polled is the caller's).
//   C08/C07: a fork is the same state (stack, memory, storage, recorded and logged values, visit counters) with only the fork
//        point changed.
//   C01: `VM::new` panics iff the instruction stream is longer than u32::MAX (stated as the precondition; `disassemble` is proved
//        for exactly those inputs) — nothing else can panic.
// Stand-ins (assumptions, each commented): opaque `Stack`, `Memory`, `Storage`, `VisitedOpcodes`, `InstructionStream`,
// `ExecutionThread`, `VMThread`, `JumpTargets`, `ValueBuilder`, `Errors`, `DynWatchdog`, `RuntimeBoxedVal` with the views the
// contracts speak about; their own contracts are proved in units stack / memory / storage / limits / threads / value_size / errors.
use vstd::prelude::*;
use std::collections::VecDeque;
verus! {

// A-DERIVE: RuntimeBoxedVal (Arc<SymbolicValue>) is an opaque payload
#[verifier::external_body]
pub struct RuntimeBoxedVal { _opaque: u8 }
// A-DERIVE: cloning the Arc returns an equal value
impl Clone for RuntimeBoxedVal {
    #[verifier::external_body]
    fn clone(&self) -> (r: RuntimeBoxedVal) ensures r == *self { unimplemented!() }
}

// A-STD (R-CALL stand-in): `Vec::extend(iter)` with a `Vec` as the iterator appends its elements in order
#[verifier::external_body]
pub fn vec_extend<T>(v: &mut Vec<T>, items: Vec<T>)
    ensures final(v)@ == old(v)@ + items@,
{ v.extend(items) }

// A-STD: `usize -> u32` by `try_into`, falling back to a panic: defined exactly for n <= u32::MAX (the panic is the precondition)
#[verifier::external_body]
pub fn vx_len_as_u32(n: usize) -> (r: u32)
    requires n <= u32::MAX,
    ensures r == n,
{ n.try_into().unwrap() }

// the crate constants src/vm/mod.rs imports (in scope so that code falling back to a default reaches the contracts)
//@extract file=src/constant.rs path="const BLOCK_GAS_LIMIT" kind=type
//@end
//@extract file=src/constant.rs path="const MAX_MEMORY_SIZE_WORDS" kind=type
//@end
//@extract file=src/constant.rs path="const DEFAULT_MEMORY_SINGLE_OPERATION_MAX_BYTES" kind=type
//@end
//@extract file=src/constant.rs path="const DEFAULT_ITERATIONS_PER_OPCODE" kind=type
//@end
//@extract file=src/constant.rs path="const DEFAULT_CONDITIONAL_JUMP_PER_TARGET_FORK_LIMIT" kind=type
//@end
//@extract file=src/constant.rs path="const DEFAULT_VALUE_SIZE_LIMIT" kind=type
//@end
//@extract file=src/constant.rs path="const DEFAULT_PERMISSIVE_ERRORS_ENABLED" kind=type
//@end

//@extract file=src/vm/mod.rs path="struct Config" kind=type
//@end
// ---- the configuration builders (C03: the limit a caller asks for is the limit that is set, and no other is disturbed) ----
// R-MUTSELF (desugaring, the installed Verus does not take a `mut self` parameter): `fn f(mut self, v) -> Self { self.FIELD = v; self }`
// becomes `fn f(self, v) -> Self { let mut vx_self = self; vx_self.FIELD = v; vx_self }` — every assignment `self.F = E;` is carried over
// with its field and expression (wildcards, count=any), so a setter writing another field, a second field or another value reaches the verifier.
//@extract file=src/vm/mod.rs path="impl Config" kind=header
//@end
//@extract file=src/vm/mod.rs path="impl Config|fn with_max_forks_per_fork_target" props=C03,C01 id=Config::with_max_forks_per_fork_target
//@ret r
//@rw R-MUTSELF
//@old
mut self,
//@new
self,
//@rw R-MUTSELF count=any optional
//@old
self.$1 = $2;
//@new
vx_self.$1 = $2;
//@rw R-MUTSELF
//@old
;
        self
    }
//@new
;
        vx_self
    }
//@proof entry
        let mut vx_self = self;   // R-MUTSELF, first half
//@spec
        ensures
            r.maximum_forks_per_fork_target == value,                                          //@ob C03.vm_state.config.with_max_forks_per_fork_target.sets_the_requested_limit
            r.maximum_iterations_per_opcode == self.maximum_iterations_per_opcode && r.gas_limit == self.gas_limit && r.value_size_limit == self.value_size_limit && r.single_memory_operation_size_limit == self.single_memory_operation_size_limit && r.permissive_errors == self.permissive_errors,      //@ob C03.vm_state.config.with_max_forks_per_fork_target.disturbs_no_other_setting
//@end
//@extract file=src/vm/mod.rs path="impl Config|fn with_max_iterations_per_opcode" props=C03,C01 id=Config::with_max_iterations_per_opcode
//@ret r
//@rw R-MUTSELF
//@old
mut self,
//@new
self,
//@rw R-MUTSELF count=any optional
//@old
self.$1 = $2;
//@new
vx_self.$1 = $2;
//@rw R-MUTSELF
//@old
;
        self
    }
//@new
;
        vx_self
    }
//@proof entry
        let mut vx_self = self;   // R-MUTSELF, first half
//@spec
        ensures
            r.maximum_iterations_per_opcode == value,                                          //@ob C03.vm_state.config.with_max_iterations_per_opcode.sets_the_requested_limit
            r.maximum_forks_per_fork_target == self.maximum_forks_per_fork_target && r.gas_limit == self.gas_limit && r.value_size_limit == self.value_size_limit && r.single_memory_operation_size_limit == self.single_memory_operation_size_limit && r.permissive_errors == self.permissive_errors,      //@ob C03.vm_state.config.with_max_iterations_per_opcode.disturbs_no_other_setting
//@end
//@extract file=src/vm/mod.rs path="impl Config|fn with_gas_limit" props=C03,C01 id=Config::with_gas_limit
//@ret r
//@rw R-MUTSELF
//@old
mut self,
//@new
self,
//@rw R-MUTSELF count=any optional
//@old
self.$1 = $2;
//@new
vx_self.$1 = $2;
//@rw R-MUTSELF
//@old
;
        self
    }
//@new
;
        vx_self
    }
//@proof entry
        let mut vx_self = self;   // R-MUTSELF, first half
//@spec
        ensures
            r.gas_limit == value,                                          //@ob C03.vm_state.config.with_gas_limit.sets_the_requested_limit
            r.maximum_forks_per_fork_target == self.maximum_forks_per_fork_target && r.maximum_iterations_per_opcode == self.maximum_iterations_per_opcode && r.value_size_limit == self.value_size_limit && r.single_memory_operation_size_limit == self.single_memory_operation_size_limit && r.permissive_errors == self.permissive_errors,      //@ob C03.vm_state.config.with_gas_limit.disturbs_no_other_setting
//@end
//@extract file=src/vm/mod.rs path="impl Config|fn with_value_size_limit" props=C03,C01 id=Config::with_value_size_limit
//@ret r
//@rw R-MUTSELF
//@old
mut self,
//@new
self,
//@rw R-MUTSELF count=any optional
//@old
self.$1 = $2;
//@new
vx_self.$1 = $2;
//@rw R-MUTSELF
//@old
;
        self
    }
//@new
;
        vx_self
    }
//@proof entry
        let mut vx_self = self;   // R-MUTSELF, first half
//@spec
        ensures
            r.value_size_limit == value,                                          //@ob C03.vm_state.config.with_value_size_limit.sets_the_requested_limit
            r.maximum_forks_per_fork_target == self.maximum_forks_per_fork_target && r.maximum_iterations_per_opcode == self.maximum_iterations_per_opcode && r.gas_limit == self.gas_limit && r.single_memory_operation_size_limit == self.single_memory_operation_size_limit && r.permissive_errors == self.permissive_errors,      //@ob C03.vm_state.config.with_value_size_limit.disturbs_no_other_setting
//@end
//@extract file=src/vm/mod.rs path="impl Config|fn with_memory_max_bytes" props=C03,C01 id=Config::with_memory_max_bytes
//@ret r
//@rw R-MUTSELF
//@old
mut self,
//@new
self,
//@rw R-MUTSELF count=any optional
//@old
self.$1 = $2;
//@new
vx_self.$1 = $2;
//@rw R-MUTSELF
//@old
;
        self
    }
//@new
;
        vx_self
    }
//@proof entry
        let mut vx_self = self;   // R-MUTSELF, first half
//@spec
        ensures
            r.single_memory_operation_size_limit == value,                                          //@ob C03.vm_state.config.with_memory_max_bytes.sets_the_requested_limit
            r.maximum_forks_per_fork_target == self.maximum_forks_per_fork_target && r.maximum_iterations_per_opcode == self.maximum_iterations_per_opcode && r.gas_limit == self.gas_limit && r.value_size_limit == self.value_size_limit && r.permissive_errors == self.permissive_errors,      //@ob C03.vm_state.config.with_memory_max_bytes.disturbs_no_other_setting
//@end
//@extract file=src/vm/mod.rs path="impl Config|fn with_permissive_errors" props=C03,C01 id=Config::with_permissive_errors
//@ret r
//@rw R-MUTSELF
//@old
mut self,
//@new
self,
//@rw R-MUTSELF count=any optional
//@old
self.$1 = $2;
//@new
vx_self.$1 = $2;
//@rw R-MUTSELF
//@old
;
        self
    }
//@new
;
        vx_self
    }
//@proof entry
        let mut vx_self = self;   // R-MUTSELF, first half
//@spec
        ensures
            r.permissive_errors == value,                                          //@ob C03.vm_state.config.with_permissive_errors.sets_the_requested_limit
            r.maximum_forks_per_fork_target == self.maximum_forks_per_fork_target && r.maximum_iterations_per_opcode == self.maximum_iterations_per_opcode && r.gas_limit == self.gas_limit && r.value_size_limit == self.value_size_limit && r.single_memory_operation_size_limit == self.single_memory_operation_size_limit,      //@ob C03.vm_state.config.with_permissive_errors.disturbs_no_other_setting
//@end
}

// Config::default(): the crate's constants (real text). Code that falls back to default limits instead of the configured ones
// still fails the contracts: the configured value is arbitrary, the default is one constant.
//@extract file=src/vm/mod.rs path="impl Default for Config" kind=header
//@end
//@extract file=src/vm/mod.rs path="impl Default for Config|fn default" props=C03,C01 id=Config::default
//@ret r
//@spec
        ensures
            r.gas_limit == BLOCK_GAS_LIMIT && r.maximum_iterations_per_opcode == DEFAULT_ITERATIONS_PER_OPCODE
            && r.maximum_forks_per_fork_target == DEFAULT_CONDITIONAL_JUMP_PER_TARGET_FORK_LIMIT && r.value_size_limit == DEFAULT_VALUE_SIZE_LIMIT
            && r.single_memory_operation_size_limit == DEFAULT_MEMORY_SINGLE_OPERATION_MAX_BYTES
            && r.permissive_errors == DEFAULT_PERMISSIVE_ERRORS_ENABLED,       //@ob C03.vm_state.config.default.is_the_documented_constants
            r.maximum_iterations_per_opcode >= 1 && r.maximum_forks_per_fork_target >= 1 && r.gas_limit >= 1 && r.value_size_limit >= 1,   //@ob C03.vm_state.config.default.limits_are_positive
//@end
}
// A-DERIVE: Config::clone is structural
impl Clone for Config {
    #[verifier::external_body]
    fn clone(&self) -> (r: Config) ensures r == *self { unimplemented!() }
}

// ---- A-CALLEE stand-ins: the three stores of a thread; `vals` is what `all_values` / `stores_as_values` hand over (proved
// ---- contracts: units stack / memory / storage) ----
#[verifier::external_body]
pub struct Stack { _opaque: u8 }
impl Stack {
    pub uninterp spec fn vals(&self) -> Seq<RuntimeBoxedVal>;
    // A-CALLEE: Stack::new is empty (unit stack)
    #[verifier::external_body]
    pub fn new() -> (r: Stack) ensures r.vals() =~= Seq::empty() { unimplemented!() }
    // A-CALLEE: Stack::all_values returns the stack's items (its body is `self.data`)
    #[verifier::external_body]
    pub fn all_values(self) -> (r: Vec<RuntimeBoxedVal>) ensures r@ == self.vals() { unimplemented!() }
}
#[verifier::external_body]
pub struct Memory { _opaque: u8 }
impl Memory {
    pub uninterp spec fn vals(&self) -> Seq<RuntimeBoxedVal>;
    pub uninterp spec fn op_size_limit(&self) -> usize;
    // A-CALLEE: Memory::new(limit) is empty and remembers the limit (unit memory)
    #[verifier::external_body]
    pub fn new(single_operation_size_limit: usize) -> (r: Memory)
        ensures r.vals() =~= Seq::empty(), r.op_size_limit() == single_operation_size_limit
    { unimplemented!() }
    // A-CALLEE: Memory::all_values (HashMap iteration + adapters; NOT under contract) hands over some sequence `vals`
    #[verifier::external_body]
    pub fn all_values(self) -> (r: Vec<RuntimeBoxedVal>) ensures r@ == self.vals() { unimplemented!() }
}
#[verifier::external_body]
pub struct Storage { _opaque: u8 }
impl Storage {
    pub uninterp spec fn store_vals(&self) -> Seq<RuntimeBoxedVal>;
    // A-CALLEE: Storage::new is empty (unit storage)
    #[verifier::external_body]
    pub fn new() -> (r: Storage) ensures r.store_vals() =~= Seq::empty() { unimplemented!() }
    // A-CALLEE: Storage::stores_as_values (HashMap iteration + adapters; NOT under contract) hands over one StorageWrite per store
    #[verifier::external_body]
    pub fn stores_as_values(self) -> (r: Vec<RuntimeBoxedVal>) ensures r@ == self.store_vals() { unimplemented!() }
}
#[verifier::external_body]
pub struct VisitedOpcodes { _opaque: u8 }
impl VisitedOpcodes {
    pub uninterp spec fn code_len(&self) -> u32;
    pub uninterp spec fn limit(&self) -> usize;
    pub uninterp spec fn fresh(&self) -> bool;
    // A-CALLEE: VisitedOpcodes::new(len, limit): no instruction visited, these two parameters kept (proved in unit limits)
    #[verifier::external_body]
    pub fn new(instructions_len: u32, maximum_iterations_per_opcode: usize) -> (r: VisitedOpcodes)
        ensures r.code_len() == instructions_len, r.limit() == maximum_iterations_per_opcode, r.fresh()
    { unimplemented!() }
}

//@extract file=src/vm/state/mod.rs path="struct VMState" kind=type
//@end
// A-DERIVE: the derived VMState::clone is structural
impl Clone for VMState {
    #[verifier::external_body]
    fn clone(&self) -> (r: VMState) ensures r == *self { unimplemented!() }
}

// views of the private fields (closed: a contract may name them, clients cannot unfold them)
impl VMState {
    pub closed spec fn s_fork_point(&self) -> u32 { self.fork_point }
    pub closed spec fn s_stack(&self) -> Stack { self.stack }
    pub closed spec fn s_memory(&self) -> Memory { self.memory }
    pub closed spec fn s_storage(&self) -> Storage { self.storage }
    pub closed spec fn s_recorded_values(&self) -> Vec<RuntimeBoxedVal> { self.recorded_values }
    pub closed spec fn s_logged_values(&self) -> Vec<RuntimeBoxedVal> { self.logged_values }
    pub closed spec fn s_config(&self) -> Config { self.config }
    pub closed spec fn s_visited_instructions(&self) -> VisitedOpcodes { self.visited_instructions }
}

//@extract file=src/vm/state/mod.rs path="impl VMState" kind=header
//@end
//@extract file=src/vm/state/mod.rs path="impl VMState|fn new" props=C03,C06,C01 id=VMState::new
//@ret r
//@spec
        ensures
            r.s_visited_instructions().limit() == config.maximum_iterations_per_opcode,        //@ob C03.vm_state.new.visit_limit_is_the_configured_one
            r.s_visited_instructions().code_len() == instructions_len,                         //@ob C03.vm_state.new.counters_cover_the_code
            r.s_visited_instructions().fresh(),
            r.s_memory().op_size_limit() == config.single_memory_operation_size_limit,         //@ob C03.vm_state.new.memory_limit_is_the_configured_one
            r.s_config() == config,                                                            //@ob C03.vm_state.new.config_kept
            r.s_fork_point() == fork_point,
            r.s_stack().vals().len() == 0, r.s_memory().vals().len() == 0, r.s_storage().store_vals().len() == 0,
            r.s_recorded_values()@.len() == 0, r.s_logged_values()@.len() == 0,                    //@ob C05.vm_state.new.starts_empty
// R-CALL: `Vec::default()` -> `Vec::new()` (vstd specifies the latter)
//@rw R-CALL count=2
//@old
Vec::default()
//@new
Vec::new()
//@end

//@extract file=src/vm/state/mod.rs path="impl VMState|fn new_at_start" props=C03,C01
//@ret r
//@spec
        ensures
            r.s_visited_instructions().limit() == config.maximum_iterations_per_opcode,        //@ob C03.vm_state.new_at_start.visit_limit_is_the_configured_one
            r.s_visited_instructions().code_len() == instructions_len,
            r.s_visited_instructions().fresh(),
            r.s_memory().op_size_limit() == config.single_memory_operation_size_limit,         //@ob C03.vm_state.new_at_start.memory_limit_is_the_configured_one
            r.s_config() == config,
            r.s_fork_point() == 0,                                                             //@ob C08.vm_state.new_at_start.starts_at_zero
            r.s_stack().vals().len() == 0, r.s_memory().vals().len() == 0, r.s_storage().store_vals().len() == 0,
            r.s_recorded_values()@.len() == 0, r.s_logged_values()@.len() == 0,                    //@ob C05.vm_state.new_at_start.starts_empty
//@end

//@extract file=src/vm/state/mod.rs path="impl VMState|fn recorded_values" props=C06,C01
//@ret r
//@spec
        ensures r@ == self.s_recorded_values()@,                                               //@ob C06.vm_state.recorded_values.all_of_them
//@end

//@extract file=src/vm/state/mod.rs path="impl VMState|fn logged_values" props=C06,C01
//@ret r
//@spec
        ensures r@ == self.s_logged_values()@,                                                 //@ob C06.vm_state.logged_values.all_of_them
//@end

//@extract file=src/vm/state/mod.rs path="impl VMState|fn fork_point" props=C08,C01
//@ret r
//@spec
        ensures r == self.s_fork_point(),
//@end

//@extract file=src/vm/state/mod.rs path="impl VMState|fn fork" props=C08,C07,C06,C03,C01
//@ret r
//@spec
        ensures
            r.s_fork_point() == fork_point,                                                    //@ob C08.vm_state.fork.records_the_fork_point
            r.s_stack() == self.s_stack(), r.s_memory() == self.s_memory(), r.s_storage() == self.s_storage(),     //@ob C07.vm_state.fork.same_machine_state
            r.s_recorded_values() == self.s_recorded_values(), r.s_logged_values() == self.s_logged_values(),   //@ob C06.vm_state.fork.keeps_recorded_and_logged_values
            r.s_visited_instructions() == self.s_visited_instructions(),                           //@ob C03.vm_state.fork.keeps_visit_counters
            r.s_config() == self.s_config(),                                                       //@ob C03.vm_state.fork.keeps_config
//@end

//@extract file=src/vm/state/mod.rs path="impl VMState|fn all_values" props=C06,C05,C01
//@ret r
//@spec
        ensures
            r@ == self.s_stack().vals() + self.s_memory().vals() + self.s_storage().store_vals() + self.s_recorded_values()@ + self.s_logged_values()@,   //@ob C06.vm_state.all_values.loses_nothing_adds_nothing
// R-CALL: `Vec::extend` with a Vec -> the A-STD stand-in (argument carried over verbatim)
//@rw R-CALL count=any
//@old
values.extend($1);
//@new
vec_extend(&mut values, $1);
//@end
}


// ================= VM::new / VM::consume (src/vm/mod.rs) =================
// A-CALLEE stand-ins, each with the contract its own unit proves:
#[verifier::external_body]
#[derive(Debug)]
pub struct LocatedError { _opaque: u8 }
pub type Result<T> = std::result::Result<T, LocatedError>;
#[verifier::external_body]
pub struct Errors { _opaque: u8 }
impl Errors {
    pub uninterp spec fn count(&self) -> nat;
}
impl Default for Errors {
    // A-CALLEE: Errors::default() is the empty log (unit errors / tc_loops)
    #[verifier::external_body]
    fn default() -> (r: Errors) ensures r.count() == 0 { unimplemented!() }
}
#[verifier::external_body]
pub struct ExecutionThread { _opaque: u8 }
impl ExecutionThread {
    pub uninterp spec fn ip(&self) -> u32;
    pub uninterp spec fn over(&self) -> InstructionStream;
}
#[verifier::external_body]
pub struct InstructionStream { _opaque: u8 }
impl InstructionStream {
    pub uninterp spec fn slen(&self) -> nat;
    // A-CALLEE: InstructionStream::len (unit threads)
    #[verifier::external_body]
    pub fn len(&self) -> (r: usize) ensures r == self.slen() { unimplemented!() }
    // A-CALLEE: InstructionStream::new_thread is Ok iff ip < len, then a thread at ip over a copy of these instructions (proved in unit threads)
    #[verifier::external_body]
    pub fn new_thread(&self, instruction_pointer: u32) -> (r: Result<ExecutionThread>)
        ensures r.is_ok() == ((instruction_pointer as nat) < self.slen()),
                r.is_ok() ==> r.unwrap().ip() == instruction_pointer && r.unwrap().over() == *self
    { unimplemented!() }
}
#[verifier::external_body]
pub struct VMThread { _opaque: u8 }
impl VMThread {
    pub uninterp spec fn st(&self) -> VMState;
    pub uninterp spec fn th(&self) -> ExecutionThread;
    pub uninterp spec fn gas(&self) -> usize;
    // A-CALLEE: VMThread::new keeps both parts and starts with no gas used (src/vm/thread.rs; gas accounting proved in unit limits)
    #[verifier::external_body]
    pub fn new(state: VMState, thread: ExecutionThread) -> (r: VMThread)
        ensures r.st() == state, r.th() == thread, r.gas() == 0
    { unimplemented!() }
}
#[verifier::external_body]
pub struct JumpTargets { _opaque: u8 }
impl JumpTargets {
    pub uninterp spec fn fork_limit(&self) -> usize;
    pub uninterp spec fn code(&self) -> InstructionStream;
    pub uninterp spec fn no_forks_yet(&self) -> bool;
    // A-CALLEE: JumpTargets::new(thread, limit): no fork granted yet, budget = limit per target (fork_to proved against it in unit limits)
    #[verifier::external_body]
    pub fn new(thread: ExecutionThread, maximum_forks_per_fork_target: usize) -> (r: JumpTargets)
        ensures r.fork_limit() == maximum_forks_per_fork_target, r.code() == thread.over(), r.no_forks_yet()
    { unimplemented!() }
}
#[verifier::external_body]
pub struct ValueBuilder { _opaque: u8 }
impl ValueBuilder {
    pub uninterp spec fn cfg(&self) -> Config;
    // A-CALLEE: ValueBuilder::new keeps a copy of the configuration (proved in unit value_size: culls at its value_size_limit)
    #[verifier::external_body]
    pub fn new(config: &Config) -> (r: ValueBuilder) ensures r.cfg() == *config { unimplemented!() }
}
// A-CALLEE: DynWatchdog = Rc<dyn Watchdog>, an opaque handle; spec equality = same handle
#[verifier::external_body]
pub struct DynWatchdog { _opaque: u8 }

//@extract file=src/vm/mod.rs path="struct VM" kind=type
//@end
impl VM {
    pub closed spec fn s_instructions(&self) -> InstructionStream { self.instructions }
    pub closed spec fn s_jump_targets(&self) -> JumpTargets { self.jump_targets }
    pub closed spec fn s_queue(&self) -> Seq<VMThread> { self.thread_queue@ }
    pub closed spec fn s_stored(&self) -> Seq<VMState> { self.stored_states@ }
    pub closed spec fn s_config(&self) -> Config { self.config }
    pub closed spec fn s_killed(&self) -> bool { self.current_thread_killed }
    pub closed spec fn s_errors(&self) -> Errors { self.errors }
    pub closed spec fn s_builder(&self) -> ValueBuilder { self.builder }
    pub closed spec fn s_watchdog(&self) -> DynWatchdog { self.watchdog }
}

//@extract file=src/vm/mod.rs path="struct ExecutionResult" kind=type
//@end

//@extract file=src/vm/mod.rs path="impl VM" kind=header
//@end
//@extract file=src/vm/mod.rs path="impl VM|fn new" props=C03,C13,C08,C01 id=VM::new
//@ret r
//@spec
        requires
            instructions.slen() <= u32::MAX,        // C01: longer code panics here; `disassemble` is proved for exactly these inputs
        ensures
            r.is_ok() == (instructions.slen() > 0),                                                            //@ob C01.vm_state.vm_new.err_only_for_empty_code
            r.is_ok() ==> r.unwrap().s_config() == config,                                                     //@ob C03.vm_state.vm_new.config_kept
            r.is_ok() ==> r.unwrap().s_builder().cfg() == config,                                              //@ob C18.vm_state.vm_new.builder_culls_at_the_configured_size
            r.is_ok() ==> r.unwrap().s_jump_targets().fork_limit() == config.maximum_forks_per_fork_target,    //@ob C03.vm_state.vm_new.fork_budget_is_the_configured_one
            r.is_ok() ==> r.unwrap().s_jump_targets().no_forks_yet() && r.unwrap().s_jump_targets().code() == instructions,
            r.is_ok() ==> r.unwrap().s_watchdog() == watchdog,                                                 //@ob C13.vm_state.vm_new.polls_the_callers_watchdog
            r.is_ok() ==> r.unwrap().s_instructions() == instructions,                                         //@ob C08.vm_state.vm_new.runs_the_given_code
            r.is_ok() ==> r.unwrap().s_queue().len() == 1 && r.unwrap().s_queue()[0].th().ip() == 0
                && r.unwrap().s_queue()[0].th().over() == instructions && r.unwrap().s_queue()[0].gas() == 0,  //@ob C08.vm_state.vm_new.one_thread_at_offset_zero
            r.is_ok() ==> r.unwrap().s_queue()[0].st().s_visited_instructions().limit() == config.maximum_iterations_per_opcode
                && r.unwrap().s_queue()[0].st().s_visited_instructions().code_len() == instructions.slen()
                && r.unwrap().s_queue()[0].st().s_visited_instructions().fresh(),                              //@ob C03.vm_state.vm_new.visit_limit_is_the_configured_one
            r.is_ok() ==> r.unwrap().s_queue()[0].st().s_memory().op_size_limit() == config.single_memory_operation_size_limit,   //@ob C03.vm_state.vm_new.memory_limit_is_the_configured_one
            r.is_ok() ==> r.unwrap().s_queue()[0].st().s_config() == config,
            r.is_ok() ==> r.unwrap().s_stored().len() == 0 && r.unwrap().s_errors().count() == 0 && !r.unwrap().s_killed(),   //@ob C17.vm_state.vm_new.starts_with_no_state_no_error_not_killed
// R-CALL: `usize -> u32` by try_into with a panicking fallback (format! in a closure) -> the A-STD stand-in whose precondition IS the panic condition
//@rw R-CALL
//@old
instructions
            .len()
            .try_into()
            .unwrap_or_else(|_| panic!("Instruction length should not exceed {}", u32::MAX));
//@new
vx_len_as_u32(instructions
            .len());
//@end

//@extract file=src/vm/mod.rs path="impl VM|fn enqueue_thread" props=C08,C03,C01 id=VM::enqueue_thread
//@spec
        ensures
            final(self).s_queue() == old(self).s_queue().push(thread),            //@ob C08.vm_state.enqueue_thread.queued_at_the_back_nothing_dropped
            final(self).s_stored() == old(self).s_stored() && final(self).s_config() == old(self).s_config()
                && final(self).s_killed() == old(self).s_killed() && final(self).s_errors() == old(self).s_errors()
                && final(self).s_jump_targets() == old(self).s_jump_targets() && final(self).s_instructions() == old(self).s_instructions()
                && final(self).s_watchdog() == old(self).s_watchdog() && final(self).s_builder() == old(self).s_builder(),   //@ob C08.vm_state.enqueue_thread.frame
//@end

//@extract file=src/vm/mod.rs path="impl VM|fn current_thread_killed" props=C08,C01 id=VM::current_thread_killed
//@ret r
//@spec
        ensures r == self.s_killed(),                                             //@ob C08.vm_state.current_thread_killed.reports_the_flag
//@end

//@extract file=src/vm/mod.rs path="impl VM|fn remaining_thread_count" props=C03,C01 id=VM::remaining_thread_count
//@ret r
//@spec
        ensures r == self.s_queue().len(),                                        //@ob C03.vm_state.remaining_thread_count.is_the_queue_length
//@end

//@extract file=src/vm/mod.rs path="impl VM|fn is_complete" props=C03,C01 id=VM::is_complete
//@ret r
//@spec
        ensures r == (self.s_queue().len() == 0),                                 //@ob C03.vm_state.is_complete.iff_no_thread_left
//@end

//@extract file=src/vm/mod.rs path="impl VM|fn stored_states" props=C06,C01 id=VM::stored_states
//@ret r
//@spec
        ensures r@ == self.s_stored(),                                            //@ob C06.vm_state.stored_states.all_of_them
//@end

//@extract file=src/vm/mod.rs path="impl VM|fn consume" props=C06,C17,C01 id=VM::consume
//@ret r
//@spec
        ensures
            r.states@ == self.s_stored(),                  //@ob C06.vm_state.consume.hands_over_every_stored_state
            r.errors == self.s_errors(),                   //@ob C17.vm_state.consume.hands_over_the_error_log
            r.instructions == self.s_instructions(),
//@end
}

// client lemma (C06): whatever a finished thread recorded (SLOAD results, ...) and every storage write is among the collected values
proof fn lemma_collection_contains(a: Seq<RuntimeBoxedVal>, b: Seq<RuntimeBoxedVal>, c: Seq<RuntimeBoxedVal>, d: Seq<RuntimeBoxedVal>, e: Seq<RuntimeBoxedVal>)
    ensures
        forall|k: int| 0 <= k < d.len() ==> (a + b + c + d + e).contains(#[trigger] d[k]),       //@ob C06.vm_state.all_values.every_recorded_value
        forall|k: int| 0 <= k < c.len() ==> (a + b + c + d + e).contains(#[trigger] c[k]),       //@ob C06.vm_state.all_values.every_storage_write
{
    assert forall|k: int| 0 <= k < d.len() implies (a + b + c + d + e).contains(#[trigger] d[k]) by {
        assert((a + b + c + d + e)[a.len() + b.len() + c.len() + k] == d[k]);
    }
    assert forall|k: int| 0 <= k < c.len() implies (a + b + c + d + e).contains(#[trigger] c[k]) by {
        assert((a + b + c + d + e)[a.len() + b.len() + k] == c[k]);
    }
}

} // verus!
fn main() {}
