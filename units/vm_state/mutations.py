#!/usr/bin/env python3
"""Mutation test of unit vm_state: property-breaking edits must be `failed`, harmless refactors `ok`.
usage: python3 units/vm_state/mutations.py   (creates and removes the scratch worktree /tmp/wt_vm_state)"""
import subprocess, sys, os
WT = '/tmp/wt_vm_state'
def sh(c): return subprocess.run(c, shell=True, capture_output=True, text=True)
BREAK = [
 ('src/vm/state/mod.rs', 'VisitedOpcodes::new(instructions_len, config.maximum_iterations_per_opcode)', 'VisitedOpcodes::new(instructions_len, config.gas_limit)', 'visit limit from another field'),
 ('src/vm/state/mod.rs', 'Memory::new(config.single_memory_operation_size_limit)', 'Memory::new(config.value_size_limit)', 'memory limit from another field'),
 ('src/vm/state/mod.rs', '        values.extend(self.recorded_values);\n', '', 'recorded values (SLOAD results) not collected'),
 ('src/vm/state/mod.rs', '        values.extend(self.storage.stores_as_values());\n', '', 'storage writes not collected'),
 ('src/vm/state/mod.rs', 'values.extend(self.logged_values);', 'values.extend(self.logged_values.clone()); values.extend(self.logged_values);', 'logged values collected twice'),
 ('src/vm/state/mod.rs', '        fork.fork_point = fork_point;\n', '        fork.fork_point = fork_point;\n        fork.recorded_values = Vec::new();\n', 'fork forgets recorded values'),
 ('src/vm/state/mod.rs', 'Self::new(0, instructions_len, config)', 'Self::new(0, instructions_len, Config::default())', 'initial state under default limits'),
 ('src/vm/mod.rs', 'config.maximum_forks_per_fork_target,\n        );', 'config.maximum_iterations_per_opcode,\n        );', 'fork budget from another field'),
 ('src/vm/mod.rs', 'let initial_state = VMState::new_at_start(instructions_len, config.clone());', 'let initial_state = VMState::new_at_start(instructions_len, Config::default());', 'first thread under default limits'),
 ('src/vm/mod.rs', 'let initial_instruction_thread = instructions.new_thread(0)?;', 'let initial_instruction_thread = instructions.new_thread(1)?;', 'execution starts at offset 1'),
 ('src/vm/mod.rs', 'states:       self.stored_states,', 'states:       self.stored_states.into_iter().skip(1).collect(),', 'consume drops the first state'),
 ('src/vm/mod.rs', 'let current_thread_killed = false;', 'let current_thread_killed = true;', 'VM starts killed'),
 ('src/vm/mod.rs', '        self.maximum_iterations_per_opcode = value;\n', '        self.maximum_forks_per_fork_target = value;\n', 'iteration-limit setter writes the fork limit'),
 ('src/vm/mod.rs', '        self.gas_limit = value;\n', '        self.gas_limit = value;\n        self.value_size_limit = value;\n', 'gas-limit setter also overwrites the value size limit'),
 ('src/vm/mod.rs', '        self.single_memory_operation_size_limit = value;\n', '        self.single_memory_operation_size_limit = value.max(32);\n', 'memory limit setter clamps'),
 ('src/vm/mod.rs', '        self.thread_queue.push_back(thread);', '        self.thread_queue.push_front(thread);', 'forked thread queued at the front'),
 ('src/vm/mod.rs', '        self.thread_queue.push_back(thread);', '        if self.thread_queue.len() < 64 { self.thread_queue.push_back(thread); }', 'forked thread dropped when the queue is long'),
 ('src/vm/mod.rs', '        self.remaining_thread_count() == 0', '        self.remaining_thread_count() <= 1', 'complete with one thread left'),
]
KEEP = [
 ('src/vm/state/mod.rs', 'let stack = Stack::new();\n        let memory = Memory::new(config.single_memory_operation_size_limit);', 'let memory = Memory::new(config.single_memory_operation_size_limit);\n        let stack = Stack::new();', 'reordered lets'),
 ('src/vm/state/mod.rs', 'let mut fork = self.clone();\n        fork.fork_point = fork_point;\n\n        fork', 'let mut forked = self.clone();\n        forked.fork_point = fork_point;\n        forked', 'renamed local'),
 ('src/vm/state/mod.rs', 'values.extend(self.stack.all_values());', 'let from_stack = self.stack.all_values();\n        values.extend(from_stack);', 'let-bound operand'),
 ('src/vm/mod.rs', 'let current_thread_killed = false;\n        let errors = Errors::default();', 'let errors = Errors::default();\n        let current_thread_killed = false;', 'reordered lets in VM::new'),
]
def run(edits, expect):
    bad = 0
    for f, a, b, what in edits:
        sh(f'git -C {WT} checkout -- .')
        p = os.path.join(WT, f); s = open(p).read()
        if a not in s: print('ANCHOR LOST', what); bad += 1; continue
        open(p, 'w').write(s.replace(a, b, 1))
        if sh(f'cd {WT} && cargo check --offline -q 2>&1 | grep -c "^error"').stdout.strip() not in ('0', ''):
            print('DOES NOT COMPILE', what); bad += 1; continue
        r = sh(f'cd /verif && VX_REPO={WT} python3 vx/vx.py unit vm_state --raw')
        st = r.stdout.split('status=')[1].split()[0] if 'status=' in r.stdout else '?'
        labs = [l.strip()[:160] for l in r.stdout.splitlines() if 'FAIL' in l]
        print(f'{"OK " if st == expect else "BAD"} {what}: status={st}', *labs[:2], sep='\n      ' if labs else ' ')
        bad += st != expect
    return bad
sh(f'git -C /repo worktree remove --force {WT}'); sh(f'git -C /repo worktree add --detach {WT} HEAD')
n = run(BREAK, 'failed') + run(KEEP, 'ok')
sh(f'git -C /repo worktree remove --force {WT}')
print('mutations: unexpected =', n); sys.exit(1 if n else 0)
