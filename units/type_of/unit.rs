//@unit props=C14,C01
// Unit type_of — `TypeChecker::type_of` (src/tc/mod.rs), the place where C14's "exactly one resolved type
// expression per variable" is DEMANDED of the unifier's result ("type_of demands exactly one expression"):
//   * Ok(t)  ==> the class of the variable holds at most one expression and t is it (`Any` for the empty set);
//   * a class with more than one expression ==> Err(UnificationIncomplete) listing exactly those expressions;
//   * a class without data ==> Err(UnificationFailure);  errors are located at the value's instruction pointer and
//     go through the real `Error::locate` / `From<E> for Errors<E>` / `Errors::add` (extracted, under contract);
//   * the query never changes any class (C19.ds.get_data.* of unit disjoint_set, assumed here as the callee contract).
// NOT checked by this function (and therefore not claimed here): that the single expression is not an `Equal` —
// leftover equalities are rejected later, in `abi_type_for_impl` (not under contract).
use vstd::prelude::*;
//@dropped tc/mod.rs: everything but `type_of` (run, lift, assign_vars, infer, unify, abi_type_for[_impl], accessors); the `Equal`-rejection of abi_type_for_impl is NOT under contract
//@dropped the forest (`DisjointSet<TypeVariable, InferenceSet>`), `HashSet<TypeExpression>`, `TypeCheckerState`, `TCBoxedVal`, `Config`, `DynWatchdog` are stand-ins with assumed accessors; `unify` (which is what must establish "at most one expression per class") is not under contract
//@dropped container.rs / unification.rs: Display impls, derived Clone/Debug/Eq/PartialEq

// A-ETHNUM: stand-in for ethnum::U256 (payload of TypeExpression::FixedArray; untouched here)
mod ext {
    #[derive(Clone, Copy, PartialEq, Eq)]
    pub struct U256(pub [u128; 2]);
}
use ext::U256;

pub mod container {
use vstd::prelude::*;
verus! {
//@include stack/container_items.rs
// `Err(e)?` converts the error with `<Errors<E> as From<E>>::from` — extracted below and PROVED to return a container
// whose log is exactly [e] (C17.errors.from_one.lists_it).
// A-STD (link axiom): vstd specifies the conversion inside `?` only as the uninterpreted relation `spec_from(value, ret)`
// and does not connect it to the `From` impl that runs; this axiom states that connection for the one impl used here,
// with exactly the contract proved for it.
impl<E> vstd::std_specs::convert::FromSpecImpl<E> for Errors<E> {
    open spec fn obeys_from_spec() -> bool { false }
    open spec fn from_spec(v: E) -> Errors<E> { arbitrary() }
}
pub broadcast axiom fn axiom_question_mark_converts_with_from<E>(v: E, r: Errors<E>)
    requires #[trigger] vstd::std_specs::control_flow::spec_from::<Errors<E>, E>(v, r),
    ensures r.log() == seq![v];
//@extract file=src/error/container.rs path="impl<E> Default for Errors<E>" kind=header
//@end
//@extract file=src/error/container.rs path="impl<E> Default for Errors<E>|fn default" id=container::Errors::default
//@ret r
//@spec
        ensures r.log() == Seq::<E>::empty(),        //@ob C17.errors.default.empty
//@end
}
//@extract file=src/error/container.rs path="impl<E> From<E> for Errors<E>" kind=header
//@rw R-SIG
//@old
E: std::error::Error,
//@new
E: Sized,
//@end
//@extract file=src/error/container.rs path="impl<E> From<E> for Errors<E>|fn from" id=container::Errors::from_one
//@ret r
//@spec
        ensures r.log() == seq![value],              //@ob C17.errors.from_one.lists_it
//@end
}
} // verus!
}

verus! {
#[verifier::external_type_specification]
#[verifier::external_body]
pub struct ExU256(U256);

// ---- data types (extracted verbatim) --------------------------------------------------------------------
// A-DERIVE: #[derive(Copy, Clone, Eq, PartialEq)] on a struct of scalars is structural
#[derive(Copy, Clone, Eq, PartialEq, Structural)]
//@extract file=src/tc/state/type_variable.rs path="struct TypeVariable" kind=type
//@end
#[derive(Copy, Clone, Eq, PartialEq, Structural)]
//@extract file=src/tc/expression.rs path="enum WordUse" kind=type
//@end
#[derive(Copy, Clone, Eq, PartialEq, Structural)]
//@extract file=src/tc/expression.rs path="struct Span" kind=type
//@end
//@extract file=src/tc/expression.rs path="type TE" kind=type
//@end
//@extract file=src/tc/expression.rs path="enum TypeExpression" kind=type
//@end
// A-DERIVE: #[derive(Clone)] on TypeExpression returns an equal value
impl Clone for TypeExpression {
    #[verifier::external_body]
    fn clone(&self) -> (r: Self) ensures r == *self { unimplemented!() }
}

// ---- stand-ins ---------------------------------------------------------------------------------------------
// A-STD (type stand-in): `InferenceSet = HashSet<TypeExpression>`; its view is the finite set of its elements.
// A-DERIVE: Hash/Eq of TypeExpression are structural, so set membership is membership of the value.
#[verifier::external_body]
pub struct InferenceSet { _s: std::collections::HashSet<u8> }
impl InferenceSet {
    pub uninterp spec fn view(&self) -> Set<TypeExpression>;
}
impl Clone for InferenceSet {
    // A-STD: HashSet::clone has the same elements
    #[verifier::external_body]
    fn clone(&self) -> (r: Self) ensures r@ == self@ { unimplemented!() }
}
// A-STD (R-CALL stand-in): `set.iter().cloned().collect::<Vec<_>>()` — iterating a HashSet yields every element
// exactly once, in an unspecified order ("some element of the set"); `cloned` yields equal values.
#[verifier::external_body]
pub fn set_to_vec(s: &InferenceSet) -> (r: Vec<TypeExpression>)
    ensures
        r@.len() == s@.len(),
        r@.no_duplicates(),
        forall|i: int| 0 <= i < r@.len() ==> s@.contains(#[trigger] r@[i]),
{ unimplemented!() }
// A-STD (R-CALL stand-in): `set.iter().cloned().collect::<HashSet<_>>()` — a set with the same elements.
#[verifier::external_body]
pub fn set_to_set(s: &InferenceSet) -> (r: InferenceSet)
    ensures r@ == s@,
{ unimplemented!() }

// A-CALLEE (type stand-in): `UnificationForest = DisjointSet<TypeVariable, InferenceSet>`. `class(v)` is the data
// accumulated for the class of `v` (`dat(root_or_self(v))` in unit disjoint_set); `get_data`'s contract is the one
// PROVED there (C19.ds.get_data.returns_class_data / data_unchanged / partition_unchanged / singleton_when_absent:
// the query may compress paths and may insert an absent variable as a data-less singleton, no class changes).
#[verifier::external_body]
pub struct UnificationForest { _p: u8 }
impl UnificationForest {
    pub uninterp spec fn class(&self, v: TypeVariable) -> Option<InferenceSet>;
    #[verifier::external_body]
    pub fn get_data(&mut self, value: &TypeVariable) -> (r: Option<&InferenceSet>)
        ensures
            forall|v: TypeVariable| #[trigger] final(self).class(v) == old(self).class(v),
            match r { Some(d) => old(self).class(*value) == Some(*d), None => old(self).class(*value) is None },
    { unimplemented!() }
}

// A-CALLEE (type stand-in): a boxed value of the type checker; only its instruction pointer is read.
#[verifier::external_body]
pub struct TCBoxedVal { _p: u8 }
impl TCBoxedVal {
    pub uninterp spec fn ip(&self) -> u32;
    #[verifier::external_body]
    pub fn instruction_pointer(&self) -> (r: u32) ensures r == self.ip() { unimplemented!() }
}

// A-CALLEE (type stand-in): `TypeCheckerState` reduced to the unification result and the value registry.
#[verifier::external_body]
pub struct TypeCheckerState { _p: u8 }
impl TypeCheckerState {
    pub uninterp spec fn forest(&self) -> UnificationForest;
    /// the variable is registered with a value (`value_unchecked` unwraps that lookup)
    pub uninterp spec fn has_value(&self, v: TypeVariable) -> bool;
    pub uninterp spec fn value_of(&self, v: TypeVariable) -> TCBoxedVal;
    pub open spec fn same_values(&self, o: &TypeCheckerState) -> bool {
        forall|v: TypeVariable| #![trigger self.has_value(v)] #![trigger self.value_of(v)] self.has_value(v) == o.has_value(v) && self.value_of(v) == o.value_of(v)
    }
    // A-CALLEE: `result()` = `&mut self.unification_result`
    #[verifier::external_body]
    pub fn result(&mut self) -> (r: &mut UnificationForest)
        ensures *r == old(self).forest(), final(self).forest() == *final(r), final(self).same_values(old(self)),
    { unimplemented!() }
    // A-CALLEE: `value_unchecked(v)` = `self.value(v).unwrap()`: PANICS for an unregistered variable — hence the
    // precondition, which type_of hands on to its callers (C01).  (`impl Into<TypeVariable>` monomorphised.)
    #[verifier::external_body]
    pub fn value_unchecked(&self, variable: TypeVariable) -> (r: &TCBoxedVal)
        requires self.has_value(variable),
        ensures *r == self.value_of(variable),
    { unimplemented!() }
}
// A-CALLEE (type stand-ins): configuration and watchdog are untouched by type_of
#[verifier::external_body]
pub struct Config { _p: u8 }
#[verifier::external_body]
pub struct DynWatchdog { _p: u8 }

// ---- errors (extracted) ------------------------------------------------------------------------------------
//@extract file=src/error/unification.rs path="enum Error" kind=type id=unification::Error
//@end
// A-DERIVE: #[derive(Clone)] on Error returns an equal value (needed by `Located<E: Clone>`)
impl Clone for Error {
    #[verifier::external_body]
    fn clone(&self) -> (r: Self) ensures r == *self { unimplemented!() }
}
//@extract file=src/error/unification.rs path="type LocatedError" kind=type
//@end
//@extract file=src/error/unification.rs path="type Errors" kind=type
//@end
//@extract file=src/error/unification.rs path="type Result" kind=type
//@end
use container::Locatable;
//@extract file=src/error/unification.rs path="impl container::Locatable for Error" kind=header
//@end
    type Located = LocatedError;
//@extract file=src/error/unification.rs path="impl container::Locatable for Error|fn locate" id=unification::Error::locate props=C17,C01
//@ret r
//@spec
        ensures r.location == instruction_pointer,     //@ob C17.type_of.locate.location
                r.payload == self,                     //@ob C17.type_of.locate.payload
//@end
}

// ---- the function under contract ---------------------------------------------------------------------------
//@extract file=src/tc/mod.rs path="struct TypeChecker" kind=type
//@end
impl TypeChecker {
    /// the expressions the unifier left for the class of `v` (None: the class carries no data at all)
    pub closed spec fn class(&self, v: TypeVariable) -> Option<InferenceSet> { self.state.forest().class(v) }
    pub closed spec fn registered(&self, v: TypeVariable) -> bool { self.state.has_value(v) }
    pub closed spec fn ip_of(&self, v: TypeVariable) -> u32 { self.state.value_of(v).ip() }
}
/// the error value is exactly one located error
pub open spec fn one_error(e: Errors, at: u32) -> bool { e.log().len() == 1 && e.log()[0].location == at }

//@extract file=src/tc/mod.rs path="impl TypeChecker" kind=header
//@end
//@extract file=src/tc/mod.rs path="impl TypeChecker|fn type_of"
//@ret r
// R-CALL x2: iteration over the HashSet (iterator adapters are outside Verus) -> the A-STD stand-ins set_to_vec / set_to_set.
// The two `Err(..)?` exits stay verbatim: `?` converts through `From<E> for Errors<E>` (extracted, under contract above).
//@rw R-CALL
//@old
inferences.iter().cloned().collect::<Vec<_>>()
//@new
set_to_vec(&inferences)
//@rw R-CALL optional
//@old
inferences.iter().cloned().collect()
//@new
set_to_set(&inferences)
//@proof entry
        broadcast use container::axiom_question_mark_converts_with_from;
//@spec
        requires
            old(self).registered(type_variable),     // caller obligation (C01): value_unchecked unwraps the registry lookup
        ensures
            // a resolved type is returned only for a class holding at most one expression, and it is that expression
            r is Ok ==> old(self).class(type_variable) is Some && (
                   (old(self).class(type_variable)->Some_0@.len() == 0 && r->Ok_0 == TE::Any)
                || (old(self).class(type_variable)->Some_0@.len() == 1 && old(self).class(type_variable)->Some_0@.contains(r->Ok_0))),      //@ob C14.type_of.type_of.ok_is_the_single_expression_of_the_class
            // ... and is returned whenever that is so
            old(self).class(type_variable) is Some && old(self).class(type_variable)->Some_0@.len() <= 1 ==> r is Ok,                           //@ob C14.type_of.type_of.single_expression_is_ok
            // more than one expression left: unification is incomplete, and the error lists exactly what is left
            old(self).class(type_variable) is Some && old(self).class(type_variable)->Some_0@.len() > 1 ==> r is Err
                && one_error(r->Err_0, old(self).ip_of(type_variable))
                && r->Err_0.log()[0].payload is UnificationIncomplete
                && r->Err_0.log()[0].payload->UnificationIncomplete_var == type_variable
                && r->Err_0.log()[0].payload->UnificationIncomplete_inferences@ == old(self).class(type_variable)->Some_0@,                      //@ob C14.type_of.type_of.several_expressions_is_unification_incomplete
            // no data at all: unification failure
            old(self).class(type_variable) is None ==> r is Err && one_error(r->Err_0, old(self).ip_of(type_variable))
                && r->Err_0.log()[0].payload == (Error::UnificationFailure { var: type_variable }),                                              //@ob C14.type_of.type_of.no_data_is_unification_failure
            // asking does not change what any variable resolves to
            forall|v: TypeVariable| #[trigger] final(self).class(v) == old(self).class(v),                                                     //@ob C14.type_of.type_of.classes_unchanged
            forall|v: TypeVariable| #![trigger final(self).registered(v)] #![trigger final(self).ip_of(v)] final(self).registered(v) == old(self).registered(v) && final(self).ip_of(v) == old(self).ip_of(v),
//@end
}
} // verus!
fn main() {}
