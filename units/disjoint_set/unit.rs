//@unit props=C19,C14,C01
// Unit disjoint_set — src/data/disjoint_set.rs (the union-find forest carrying per-set data)
// against a naive partition model (C19; the forest half of C14: "variables declared equal resolve
// to the same class", "merging never loses data"), plus the implicit safety obligations of the
// same bodies (C01). DisjointSet is verified as a *caller* of VectorMap: only the VectorMap
// contracts of units/common/vector_map_items.rs (sget / wf) are used at the call sites.
//
// Ghost model.  For a map `m = reps` (element index -> representative):
//   fpar(m, i)      parent pointer of element i (None: i was never inserted)
//   forest(m)       parent pointers stay inside the domain and some rank `d: int -> nat` strictly
//                   decreases along every non-root edge (acyclicity witness)
//   froot(m, i)     the root reached from i (recursion on the rank witness)
// and on DisjointSet: dom / par / root / dat views, `wf` = both vector maps well-formed, forest,
// data only at roots.  The partition of the naive model is "i ~ j  iff  root(i) == root(j)";
// the accumulated data of a class is `dat(root)`.
//
// Proof anchors: structural only (`entry` / `exit`) except ONE statement anchor in `union`
// (after `self.find(v2);`, to name the state both roots live in). `find` is proved from a hint at
// entry alone: the quantified lemmas `lemma_*_forall` talk about all intermediate `reps` states and
// are instantiated by the ground `VectorMap::wf()` facts of the callee contracts. Hints are written
// as `if <shape of the update> { lemma }`, never as assertions about what the code did, so an edit
// that changes the update makes the labelled postconditions fail instead of a proof-internal assert.
// Postconditions on roots carry two triggers (`final.root(i)`, `old.root(i)`) so that callers can
// chain them in either direction without naming intermediate states.
use vstd::prelude::*;
use std::marker::PhantomData;
use std::{fmt::Debug, hash::Hash};
use vstd::std_specs::cmp::PartialEqSpec;
verus! {
//@include common/vector_map_items.rs

// ---------------------------------------------------------------------------------------------
// Assumptions about the type parameters (A-KEY, A-COMBINE). Nothing else in this unit is assumed.
// ---------------------------------------------------------------------------------------------

// A-KEY: `Value::clone` preserves the unique index (DESIGN.md §3; discharged separately for the one
// instantiation the crate uses, `TypeVariable`).
#[verifier::external_body]
pub broadcast proof fn axiom_key_clone<V: ToUniqueIndex + Clone>(a: &V, b: V)
    requires #[trigger] call_ensures(<V as Clone>::clone, (a,), b)
    ensures a.index_spec() == b.index_spec()
{}

// A-KEY: `Value == Value` holds exactly when the unique indices are equal (ToUniqueIndex's
// documented contract: the index is unique per value).
#[verifier::external_body]
pub proof fn axiom_key_eq<V: ToUniqueIndex + PartialEq>()
    ensures V::obeys_eq_spec(), forall|a: V, b: V| #[trigger] a.eq_spec(&b) == (a.index_spec() == b.index_spec())
{}

// A-COMBINE: `Data::combine` / `Data::identity` are functions of their arguments (uninterpreted
// `combine_spec` / `identity_spec`); NO monoid law is assumed, the forest proof needs none.
//@extract file=src/data/combine.rs path="trait Combine" kind=type
//@rw R-SIG
//@old
fn combine(self, other: Self) -> Self;
//@new
spec fn combine_spec(self, other: Self) -> Self;
    spec fn identity_spec() -> Self;
    fn combine(self, other: Self) -> (r: Self)
        ensures r == self.combine_spec(other);
//@rw R-SIG
//@old
fn identity() -> Self;
//@new
fn identity() -> (r: Self)
        ensures r == Self::identity_spec();
//@end

// A-COMBINE (clone): `Data::clone` returns a value equal to the original (`union` clones the
// surviving root's data before combining; `Combine: Clone`).
#[verifier::external_body]
pub broadcast proof fn axiom_data_clone<D: Combine>(a: &D, b: D)
    requires #[trigger] call_ensures(<D as Clone>::clone, (a,), b)
    ensures *a == b
{}

// ---------------------------------------------------------------------------------------------
// Forest model over the `reps` map (a function of that map only, so that operations touching only
// `data` leave every root unchanged by congruence).
// ---------------------------------------------------------------------------------------------
pub open spec fn fpar<V: ToUniqueIndex>(m: VectorMap<V, V>, i: int) -> Option<int> {
    match m.sget(i) { Some(v) => Some(v.index_spec() as int), None => None }
}
pub open spec fn fdom<V: ToUniqueIndex>(m: VectorMap<V, V>, i: int) -> bool { fpar(m, i).is_some() }
pub open spec fn franked<V: ToUniqueIndex>(m: VectorMap<V, V>, d: spec_fn(int) -> nat) -> bool {
    forall|i: int| fdom(m, i) && fpar(m, i) != Some(i) ==> #[trigger] d(fpar(m, i).unwrap()) < d(i)
}
pub open spec fn forest<V: ToUniqueIndex>(m: VectorMap<V, V>) -> bool {
    &&& forall|i: int| fdom(m, i) ==> #[trigger] fdom(m, fpar(m, i).unwrap())
    &&& exists|d: spec_fn(int) -> nat| franked(m, d)
}
pub open spec fn fwit<V: ToUniqueIndex>(m: VectorMap<V, V>) -> spec_fn(int) -> nat {
    choose|d: spec_fn(int) -> nat| franked(m, d)
}
pub open spec fn froot<V: ToUniqueIndex>(m: VectorMap<V, V>, i: int) -> int
    decreases (fwit(m))(i) when forest(m) && fdom(m, i)
    via froot_dec::<V>
{
    if fpar(m, i) == Some(i) { i } else { froot(m, fpar(m, i).unwrap()) }
}
#[via_fn]
proof fn froot_dec<V: ToUniqueIndex>(m: VectorMap<V, V>, i: int) {
    assert(franked(m, fwit(m)));
}
/// `b` is `a` with the parent of `x` set to `p`
pub open spec fn par_upd<V: ToUniqueIndex>(a: VectorMap<V, V>, b: VectorMap<V, V>, x: int, p: int) -> bool {
    forall|i: int| #[trigger] fpar(b, i) == (if i == x { Some(p) } else { fpar(a, i) })
}
pub open spec fn par_same<V: ToUniqueIndex>(a: VectorMap<V, V>, b: VectorMap<V, V>) -> bool {
    forall|i: int| #[trigger] fpar(b, i) == fpar(a, i)
}

proof fn lemma_root_props<V: ToUniqueIndex>(m: VectorMap<V, V>, d: spec_fn(int) -> nat, i: int)
    requires forest(m), fdom(m, i), franked(m, d)
    ensures fdom(m, froot(m, i)), fpar(m, froot(m, i)) == Some(froot(m, i)),
            froot(m, i) != i ==> d(froot(m, i)) < d(i),
            froot(m, i) == i <==> fpar(m, i) == Some(i),
            fpar(m, i) != Some(i) ==> froot(m, i) == froot(m, fpar(m, i).unwrap()),
    decreases d(i)
{
    if fpar(m, i) != Some(i) {
        let p = fpar(m, i).unwrap();
        assert(fdom(m, p));
        lemma_root_props(m, d, p);
    }
}

/// an empty map is a forest
proof fn lemma_empty_forest<V: ToUniqueIndex>()
    ensures forall|m: VectorMap<V, V>| (forall|i: int| m.sget(i).is_none()) ==> #[trigger] forest(m)
{
    assert forall|m: VectorMap<V, V>| (forall|i: int| m.sget(i).is_none()) implies #[trigger] forest(m) by {
        assert(franked(m, |i: int| 0nat));
    }
}

/// two maps with the same parent pointers have the same roots
proof fn lemma_same_par<V: ToUniqueIndex>(a: VectorMap<V, V>, b: VectorMap<V, V>, j: int, d: spec_fn(int) -> nat)
    requires forest(a), forest(b), franked(a, d), fdom(a, j), par_same(a, b),
    ensures froot(b, j) == froot(a, j)
    decreases d(j)
{
    if fpar(a, j) == Some(j) {
        assert(fpar(b, j) == Some(j));
    } else {
        let p = fpar(a, j).unwrap();
        assert(fdom(a, p));
        lemma_same_par(a, b, p, d);
        assert(fpar(b, j) == Some(p));
    }
}
proof fn lemma_same_par_all<V: ToUniqueIndex>(a: VectorMap<V, V>, b: VectorMap<V, V>)
    requires forest(a), par_same(a, b),
    ensures forest(b), forall|j: int| fdom(a, j) ==> #[trigger] froot(b, j) == froot(a, j),
{
    let d = fwit(a);
    assert(franked(a, d));
    assert(franked(b, d)) by {
        assert forall|i: int| fdom(b, i) && fpar(b, i) != Some(i) implies #[trigger] d(fpar(b, i).unwrap()) < d(i) by { assert(fdom(a, i)); }
    }
    assert forall|i: int| fdom(b, i) implies #[trigger] fdom(b, fpar(b, i).unwrap()) by { assert(fdom(a, i)); assert(fdom(a, fpar(a, i).unwrap())); }
    assert forall|j: int| fdom(a, j) implies #[trigger] froot(b, j) == froot(a, j) by { lemma_same_par(a, b, j, d); }
}

/// roots are preserved when a fresh singleton `x` is added
proof fn lemma_add_singleton<V: ToUniqueIndex>(a: VectorMap<V, V>, b: VectorMap<V, V>, x: int, j: int, d: spec_fn(int) -> nat)
    requires forest(a), forest(b), franked(a, d), !fdom(a, x), fdom(a, j), par_upd(a, b, x, x),
    ensures froot(b, j) == froot(a, j)
    decreases d(j)
{
    if fpar(a, j) == Some(j) {
        assert(fpar(b, j) == Some(j));
    } else {
        let p = fpar(a, j).unwrap();
        assert(fdom(a, p));
        lemma_add_singleton(a, b, x, p, d);
        assert(fpar(b, j) == Some(p));
    }
}
proof fn lemma_add_singleton_all<V: ToUniqueIndex>(a: VectorMap<V, V>, b: VectorMap<V, V>, x: int)
    requires forest(a), !fdom(a, x), par_upd(a, b, x, x),
    ensures forest(b), froot(b, x) == x, forall|j: int| fdom(a, j) ==> #[trigger] froot(b, j) == froot(a, j),
{
    let d = fwit(a);
    assert(franked(a, d));
    assert(franked(b, d)) by {
        assert forall|i: int| fdom(b, i) && fpar(b, i) != Some(i) implies #[trigger] d(fpar(b, i).unwrap()) < d(i) by { assert(i != x); assert(fdom(a, i)); }
    }
    assert forall|i: int| fdom(b, i) implies #[trigger] fdom(b, fpar(b, i).unwrap()) by {
        if i != x { assert(fdom(a, i)); assert(fdom(a, fpar(a, i).unwrap())); }
    }
    assert(fpar(b, x) == Some(x));
    assert forall|j: int| fdom(a, j) implies #[trigger] froot(b, j) == froot(a, j) by { lemma_add_singleton(a, b, x, j, d); }
}

/// roots are preserved when `x` is re-pointed at its own root (path compression)
proof fn lemma_compress<V: ToUniqueIndex>(a: VectorMap<V, V>, b: VectorMap<V, V>, x: int, j: int, d: spec_fn(int) -> nat)
    requires forest(a), forest(b), franked(a, d), fdom(a, x), fdom(a, j), par_upd(a, b, x, froot(a, x)),
    ensures froot(b, j) == froot(a, j)
    decreases d(j)
{
    lemma_root_props(a, d, x);
    let r = froot(a, x);
    if j == x {
        if r != x {
            assert(fpar(b, r) == Some(r));
            assert(froot(b, r) == r);
            assert(froot(b, x) == froot(b, r));
        }
    } else if fpar(a, j) == Some(j) {
        assert(fpar(b, j) == Some(j));
    } else {
        let p = fpar(a, j).unwrap();
        assert(fdom(a, p));
        lemma_compress(a, b, x, p, d);
        assert(fpar(b, j) == Some(p));
    }
}
proof fn lemma_compress_all<V: ToUniqueIndex>(a: VectorMap<V, V>, b: VectorMap<V, V>, x: int)
    requires forest(a), fdom(a, x), par_upd(a, b, x, froot(a, x)),
    ensures forest(b), forall|j: int| fdom(a, j) ==> #[trigger] froot(b, j) == froot(a, j),
{
    let d = fwit(a);
    assert(franked(a, d));
    lemma_root_props(a, d, x);
    assert(franked(b, d)) by {
        assert forall|i: int| fdom(b, i) && fpar(b, i) != Some(i) implies #[trigger] d(fpar(b, i).unwrap()) < d(i) by {
            if i != x { assert(fdom(a, i)); }
        }
    }
    assert forall|i: int| fdom(b, i) implies #[trigger] fdom(b, fpar(b, i).unwrap()) by {
        if i != x { assert(fdom(a, i)); assert(fdom(a, fpar(a, i).unwrap())); }
    }
    assert forall|j: int| fdom(a, j) implies #[trigger] froot(b, j) == froot(a, j) by { lemma_compress(a, b, x, j, d); }
}

/// quantified forms (over the unnamed intermediate states of a function body), so that `find`
/// needs a hint at function entry only. They are instantiated by the ground `VectorMap::wf()` facts
/// that `VectorMap::insert`'s contract and the unfolding of `DisjointSet::wf` put in the context.
proof fn lemma_add_singleton_forall<V: ToUniqueIndex>(a: VectorMap<V, V>, x: int)
    requires forest(a), !fdom(a, x),
    ensures forall|b: VectorMap<V, V>| #[trigger] b.wf() && par_upd(a, b, x, x) ==> forest(b) && froot(b, x) == x
                && (forall|j: int| fdom(a, j) ==> #[trigger] froot(b, j) == froot(a, j)),
{
    assert forall|b: VectorMap<V, V>| #[trigger] b.wf() && par_upd(a, b, x, x) implies forest(b) && froot(b, x) == x
                && (forall|j: int| fdom(a, j) ==> #[trigger] froot(b, j) == froot(a, j)) by {
        lemma_add_singleton_all(a, b, x);
    }
}
proof fn lemma_compress_forall<V: ToUniqueIndex>(x: int)
    ensures forall|a: VectorMap<V, V>, b: VectorMap<V, V>| #![trigger a.wf(), b.wf()]
                a.wf() && b.wf() && forest(a) && fdom(a, x) && par_upd(a, b, x, froot(a, x)) ==>
                forest(b) && (forall|j: int| fdom(a, j) ==> #[trigger] froot(b, j) == froot(a, j)),
{
    assert forall|a: VectorMap<V, V>, b: VectorMap<V, V>| #![trigger a.wf(), b.wf()]
                a.wf() && b.wf() && forest(a) && fdom(a, x) && par_upd(a, b, x, froot(a, x)) implies
                forest(b) && (forall|j: int| fdom(a, j) ==> #[trigger] froot(b, j) == froot(a, j)) by {
        lemma_compress_all(a, b, x);
    }
}

/// linking root `rb` under a different root `ra`: exactly the members of rb's class move to ra
proof fn lemma_link<V: ToUniqueIndex>(a: VectorMap<V, V>, b: VectorMap<V, V>, ra: int, rb: int, j: int, d: spec_fn(int) -> nat)
    requires forest(a), forest(b), franked(a, d), fdom(a, ra), fdom(a, rb), ra != rb,
        fpar(a, ra) == Some(ra), fpar(a, rb) == Some(rb), fdom(a, j), par_upd(a, b, rb, ra),
    ensures froot(b, j) == if froot(a, j) == rb { ra } else { froot(a, j) }
    decreases d(j)
{
    if j == rb {
        assert(fpar(b, ra) == Some(ra));
        assert(froot(b, ra) == ra);
        assert(froot(b, rb) == froot(b, ra));
        assert(froot(a, rb) == rb);
    } else if fpar(a, j) == Some(j) {
        assert(fpar(b, j) == Some(j));
        assert(froot(a, j) == j);
    } else {
        let p = fpar(a, j).unwrap();
        assert(fdom(a, p));
        lemma_link(a, b, ra, rb, p, d);
        assert(fpar(b, j) == Some(p));
    }
}
proof fn lemma_link_all<V: ToUniqueIndex>(a: VectorMap<V, V>, b: VectorMap<V, V>, ra: int, rb: int)
    requires forest(a), fdom(a, ra), fdom(a, rb), ra != rb, fpar(a, ra) == Some(ra), fpar(a, rb) == Some(rb),
        par_upd(a, b, rb, ra),
    ensures forest(b),
        forall|j: int| fdom(a, j) ==> #[trigger] froot(b, j) == (if froot(a, j) == rb { ra } else { froot(a, j) }),
{
    let d = fwit(a);
    assert(franked(a, d));
    // rank witness for b: lift the whole class of rb above ra
    let big = d(ra) + 1;
    let d2 = |i: int| if fdom(a, i) && froot(a, i) == rb { (d(i) + big) as nat } else { d(i) };
    assert(franked(b, d2)) by {
        assert forall|i: int| fdom(b, i) && fpar(b, i) != Some(i) implies #[trigger] d2(fpar(b, i).unwrap()) < d2(i) by {
            assert(fdom(a, i));
            if i == rb {
                lemma_root_props(a, d, rb);
                lemma_root_props(a, d, ra);
            } else {
                let p = fpar(a, i).unwrap();
                assert(fdom(a, p));
                lemma_root_props(a, d, i);
            }
        }
    }
    assert forall|i: int| fdom(b, i) implies #[trigger] fdom(b, fpar(b, i).unwrap()) by {
        assert(fdom(a, i));
        if i != rb { assert(fdom(a, fpar(a, i).unwrap())); }
    }
    assert forall|j: int| fdom(a, j) implies #[trigger] froot(b, j) == (if froot(a, j) == rb { ra } else { froot(a, j) }) by {
        lemma_link(a, b, ra, rb, j, d);
    }
}

// ---------------------------------------------------------------------------------------------
// DisjointSet: the type, its abstract views, and the functions under contract
// ---------------------------------------------------------------------------------------------
//@extract file=src/data/disjoint_set.rs path="struct DisjointSet" kind=type
//@end

//@extract file=src/data/disjoint_set.rs path="impl<Value, Data> DisjointSet<Value, Data>#1" kind=header id=disjoint_set::views
//@end
    /// parent pointer of element `i` (None: not in the structure)
    pub closed spec fn par(&self, i: int) -> Option<int> { fpar(self.reps, i) }
    /// `i` is an element of the structure
    pub closed spec fn dom(&self, i: int) -> bool { fdom(self.reps, i) }
    /// representative of the class of `i` — the partition of the naive model is `root(i) == root(j)`
    pub closed spec fn root(&self, i: int) -> int { froot(self.reps, i) }
    /// data stored at index `i` (the accumulated data of a class is `dat(root)`)
    pub closed spec fn dat(&self, i: int) -> Option<Data> { self.data.sget(i) }
    /// representation invariant: both maps well-formed, parent pointers form a forest inside the
    /// domain (acyclic by a rank witness), data only at roots
    pub closed spec fn wf(&self) -> bool {
        &&& self.reps.wf()
        &&& self.data.wf()
        &&& forest(self.reps)
        &&& forall|i: int| (#[trigger] self.data.sget(i)).is_some() ==> fpar(self.reps, i) == Some(i)
    }
    /// the rank (acyclicity witness) chosen for this state; `find` descends along it
    pub closed spec fn rank(&self, i: int) -> nat { (fwit(self.reps))(i) }
    pub open spec fn same_set(&self, i: int, j: int) -> bool { self.root(i) == self.root(j) }
    pub open spec fn dat_or_id(&self, i: int) -> Data {
        match self.dat(i) { Some(d) => d, None => Data::identity_spec() }
    }
    /// the root `x` has, or will have as a fresh singleton when it is not yet an element
    pub open spec fn root_or_self(&self, x: int) -> int { if self.dom(x) { self.root(x) } else { x } }
}

//@extract file=src/data/disjoint_set.rs path="impl<Value, Data> DisjointSet<Value, Data>#1" kind=header
//@end

//@extract file=src/data/disjoint_set.rs path="impl<Value, Data> DisjointSet<Value, Data>#1|fn new"
//@ret r
//@spec
        ensures
            r.wf(),                                                     //@ob C19.ds.new.wf
            forall|i: int| !r.dom(i),                                   //@ob C19.ds.new.empty
            forall|i: int| r.dat(i).is_none(),                          //@ob C19.ds.new.no_data
//@proof entry
        proof { lemma_empty_forest::<Value>(); }
//@end

//@extract file=src/data/disjoint_set.rs path="impl<Value, Data> DisjointSet<Value, Data>#1|fn with_capacity"
//@ret r
//@spec
        ensures
            r.wf(),                                                     //@ob C19.ds.with_capacity.wf
            forall|i: int| !r.dom(i),                                   //@ob C19.ds.with_capacity.empty
            forall|i: int| r.dat(i).is_none(),                          //@ob C19.ds.with_capacity.no_data
//@proof entry
        proof { lemma_empty_forest::<Value>(); }
//@end

//@extract file=src/data/disjoint_set.rs path="impl<Value, Data> DisjointSet<Value, Data>#1|fn insert"
//@spec
        requires old(self).wf(),
        ensures
            final(self).wf(),                                                                                   //@ob C19.ds.insert.wf
            forall|i: int| final(self).dom(i) == (old(self).dom(i) || i == value.index_spec()),                 //@ob C19.ds.insert.domain
            forall|i: int| #![trigger final(self).root(i)] #![trigger old(self).root(i)] old(self).dom(i) ==> final(self).root(i) == old(self).root(i),            //@ob C19.ds.insert.partition_unchanged
            !old(self).dom(value.index_spec() as int) ==> final(self).root(value.index_spec() as int) == value.index_spec(),  //@ob C19.ds.insert.singleton_when_absent
            forall|i: int| final(self).dat(i) == old(self).dat(i),                                              //@ob C19.ds.insert.data_unchanged
//@proof entry
        proof { broadcast use axiom_key_clone; }
        let ghost s0 = *self;
        let ghost x = value.index_spec() as int;
//@proof exit
        proof {
            let s1 = *self;
            if !s0.dom(x) && par_upd(s0.reps, s1.reps, x, x) {
                lemma_add_singleton_all(s0.reps, s1.reps, x);
                assert forall|j: int| s0.dom(j) implies #[trigger] s1.root(j) == s0.root(j) by {}
            }
        }
//@end

//@extract file=src/data/disjoint_set.rs path="impl<Value, Data> DisjointSet<Value, Data>#1|fn find"
//@ret res
//@spec
        requires old(self).wf(),
        ensures
            final(self).wf(),                                                                                   //@ob C19.ds.find.wf
            forall|i: int| final(self).dom(i) == (old(self).dom(i) || i == value.index_spec()),                 //@ob C19.ds.find.domain
            forall|i: int| #![trigger final(self).root(i)] #![trigger old(self).root(i)] old(self).dom(i) ==> final(self).root(i) == old(self).root(i),            //@ob C19.ds.find.partition_unchanged
            !old(self).dom(value.index_spec() as int) ==> final(self).root(value.index_spec() as int) == value.index_spec(),  //@ob C19.ds.find.singleton_when_absent
            res.index_spec() == final(self).root(value.index_spec() as int),                                    //@ob C19.ds.find.returns_root
            final(self).par(res.index_spec() as int) == Some(res.index_spec() as int),                          //@ob C19.ds.find.result_is_a_root
            forall|i: int| final(self).dat(i) == old(self).dat(i),                                              //@ob C19.ds.find.data_unchanged
        decreases (if old(self).dom(value.index_spec() as int) { 0nat } else { 1nat }), (if old(self).dom(value.index_spec() as int) { old(self).rank(value.index_spec() as int) } else { 0nat }),   //@ob C19.ds.find.terminates
//@proof entry
        proof { axiom_key_eq::<Value>(); broadcast use axiom_key_clone; }
        let ghost s0 = *self;
        let ghost x = value.index_spec() as int;
        proof {
            if s0.dom(x) {
                assert(franked(s0.reps, fwit(s0.reps)));
                lemma_root_props(s0.reps, fwit(s0.reps), x);
                assert(fdom(s0.reps, fpar(s0.reps, x).unwrap()));
                lemma_compress_forall::<Value>(x);
                assert(s0.par(x) != Some(x) ==> s0.root(x) == s0.root(s0.par(x).unwrap()));
            } else {
                lemma_add_singleton_forall(s0.reps, x);
            }
        }
//@end

//@extract file=src/data/disjoint_set.rs path="impl<Value, Data> DisjointSet<Value, Data>#1|fn union"
//@spec
        requires old(self).wf(),
        ensures
            final(self).wf(),                                                                                   //@ob C19.ds.union.wf
            forall|i: int| final(self).dom(i) == (old(self).dom(i) || i == v1.index_spec() || i == v2.index_spec()),   //@ob C19.ds.union.domain
            // both arguments end in one class, represented by the (possibly fresh) root of the first
            final(self).same_set(v1.index_spec() as int, v2.index_spec() as int),                               //@ob C14.ds.union.declared_equal_same_class
            final(self).root(v1.index_spec() as int) == old(self).root_or_self(v1.index_spec() as int),         //@ob C14.ds.union.same_class C19.ds.union.root_is_first
            final(self).root(v2.index_spec() as int) == old(self).root_or_self(v1.index_spec() as int),         //@ob C14.ds.union.same_class C19.ds.union.second_joins_first
            // every member of the second class moves to the first root; every other element keeps its root
            forall|i: int| #![trigger final(self).root(i)] #![trigger old(self).root(i)] old(self).dom(i) ==> final(self).root(i) ==
                (if old(self).root(i) == old(self).root_or_self(v2.index_spec() as int) { old(self).root_or_self(v1.index_spec() as int) } else { old(self).root(i) }),   //@ob C19.ds.union.partition C14.ds.union.transitive
            // the merged class carries combine(first or identity, second or identity) exactly once; nothing else changes
            old(self).root_or_self(v1.index_spec() as int) != old(self).root_or_self(v2.index_spec() as int) ==>
                forall|i: int| #[trigger] final(self).dat(i) == (
                    if i == old(self).root_or_self(v1.index_spec() as int) {
                        Some(old(self).dat_or_id(old(self).root_or_self(v1.index_spec() as int)).combine_spec(old(self).dat_or_id(old(self).root_or_self(v2.index_spec() as int))))
                    } else if i == old(self).root_or_self(v2.index_spec() as int) { None } else { old(self).dat(i) }),   //@ob C19.ds.union.data_combined_once
            // naive model: joining two members of one class changes neither the partition nor the data
            old(self).root_or_self(v1.index_spec() as int) == old(self).root_or_self(v2.index_spec() as int) ==>
                forall|i: int| #[trigger] final(self).dat(i) == old(self).dat(i),                               //@ob C19.ds.union.same_class_data_unchanged
//@proof entry
        proof { axiom_key_eq::<Value>(); broadcast use axiom_key_clone, axiom_data_clone; }
        let ghost s0 = *self;
        let ghost x1 = v1.index_spec() as int;
        let ghost x2 = v2.index_spec() as int;
//@proof after "let v2 = self.find(v2);"
        let ghost s2 = *self;
        let ghost ra = v1.index_spec() as int;
        let ghost rb = v2.index_spec() as int;
        proof {
            assert(franked(s2.reps, fwit(s2.reps)));
            assert(s2.dom(x1) && s2.dom(x2));
            lemma_root_props(s2.reps, fwit(s2.reps), x1);
            lemma_root_props(s2.reps, fwit(s2.reps), x2);
        }
//@proof exit
        proof {
            let s4 = *self;
            if ra != rb && par_upd(s2.reps, s4.reps, rb, ra) { lemma_link_all(s2.reps, s4.reps, ra, rb); }
            if par_same(s2.reps, s4.reps) { lemma_same_par_all(s2.reps, s4.reps); }
        }
//@end

//@extract file=src/data/disjoint_set.rs path="impl<Value, Data> DisjointSet<Value, Data>#1|fn add_data"
//@spec
        requires old(self).wf(),
        ensures
            final(self).wf(),                                                                                   //@ob C19.ds.add_data.wf
            forall|i: int| final(self).dom(i) == (old(self).dom(i) || i == value.index_spec()),                 //@ob C19.ds.add_data.domain
            forall|i: int| #![trigger final(self).root(i)] #![trigger old(self).root(i)] old(self).dom(i) ==> final(self).root(i) == old(self).root(i),            //@ob C19.ds.add_data.partition_unchanged
            final(self).root(value.index_spec() as int) == old(self).root_or_self(value.index_spec() as int),   //@ob C19.ds.add_data.singleton_when_absent
            forall|i: int| #[trigger] final(self).dat(i) == (if i == final(self).root(value.index_spec() as int) {
                    Some(old(self).dat_or_id(i).combine_spec(data)) } else { old(self).dat(i) }),               //@ob C19.ds.add_data.accumulates_at_root
//@proof entry
        proof { broadcast use axiom_data_clone; }
//@end

//@extract file=src/data/disjoint_set.rs path="impl<Value, Data> DisjointSet<Value, Data>#1|fn get_data"
//@ret r
//@spec
        requires old(self).wf(),
        ensures
            final(self).wf(),                                                                                   //@ob C19.ds.get_data.wf
            forall|i: int| final(self).dom(i) == (old(self).dom(i) || i == value.index_spec()),                 //@ob C19.ds.get_data.domain
            forall|i: int| #![trigger final(self).root(i)] #![trigger old(self).root(i)] old(self).dom(i) ==> final(self).root(i) == old(self).root(i),            //@ob C19.ds.get_data.partition_unchanged
            final(self).root(value.index_spec() as int) == old(self).root_or_self(value.index_spec() as int),   //@ob C19.ds.get_data.singleton_when_absent
            forall|i: int| final(self).dat(i) == old(self).dat(i),                                              //@ob C19.ds.get_data.data_unchanged
            match r { Some(d) => final(self).dat(final(self).root(value.index_spec() as int)) == Some(*d),
                      None => final(self).dat(final(self).root(value.index_spec() as int)).is_none() },           //@ob C19.ds.get_data.returns_class_data
//@end

//@extract file=src/data/disjoint_set.rs path="impl<Value, Data> DisjointSet<Value, Data>#1|fn set_data"
//@spec
        requires old(self).wf(),
        ensures
            final(self).wf(),                                                                                   //@ob C19.ds.set_data.wf
            forall|i: int| final(self).dom(i) == (old(self).dom(i) || i == value.index_spec()),                 //@ob C19.ds.set_data.domain
            forall|i: int| #![trigger final(self).root(i)] #![trigger old(self).root(i)] old(self).dom(i) ==> final(self).root(i) == old(self).root(i),            //@ob C19.ds.set_data.partition_unchanged
            final(self).root(value.index_spec() as int) == old(self).root_or_self(value.index_spec() as int),   //@ob C19.ds.set_data.singleton_when_absent
            forall|i: int| #[trigger] final(self).dat(i) == (if i == final(self).root(value.index_spec() as int) { Some(data) } else { old(self).dat(i) }),   //@ob C19.ds.set_data.replaces_at_root
//@end
}

// ---------------------------------------------------------------------------------------------
// Contract adequacy (no repository code here): a caller that sees ONLY the contracts above can
// derive the property-level statements — equalities declared pairwise put all three variables in
// one class (C14, transitively), each datum is accounted exactly once (C19), joining inside a
// class is a no-op, and a fourth variable stays apart. Also shows the contracts are satisfiable
// on a non-trivial history (not vacuous).
// ---------------------------------------------------------------------------------------------
fn client_three_way_union<Value, Data>(a: &Value, b: &Value, c: &Value, e: Value, d1: Data, d2: Data)
    where
        Value: Clone + Debug + Eq + Hash + PartialEq + ToUniqueIndex,
        Data: Combine + Debug + Eq + PartialEq,
    requires
        a.index_spec() != b.index_spec(), a.index_spec() != c.index_spec(), b.index_spec() != c.index_spec(),
        e.index_spec() != a.index_spec(), e.index_spec() != b.index_spec(), e.index_spec() != c.index_spec(),
{
    let ghost (xa, xb, xc, xe) = (a.index_spec() as int, b.index_spec() as int, c.index_spec() as int, e.index_spec() as int);
    let ghost id = Data::identity_spec();
    let mut s = DisjointSet::<Value, Data>::new();
    s.add_data(a, d1);
    s.add_data(c, d2);
    assert(s.root(xa) == xa && s.root(xc) == xc && !s.dom(xb));
    s.union(a, b);
    assert(s.root(xa) == xa && s.root(xb) == xa && s.root(xc) == xc);
    s.union(b, c);
    assert(s.same_set(xa, xb) && s.same_set(xb, xc) && s.same_set(xa, xc));                         //@ob C14.ds.client.transitive_same_class
    assert(s.dat(s.root(xc)) == Some(id.combine_spec(d1).combine_spec(id).combine_spec(id.combine_spec(d2))));   //@ob C19.ds.client.each_datum_once
    assert(s.dat(xb).is_none() && s.dat(xc).is_none());                                             //@ob C19.ds.client.data_only_at_root
    let ghost before = s;
    s.union(c, a);
    assert(forall|i: int| s.dat(i) == before.dat(i));                                               //@ob C19.ds.client.rejoin_keeps_data
    assert(s.root(xa) == before.root(xa) && s.root(xb) == before.root(xb) && s.root(xc) == before.root(xc));   //@ob C19.ds.client.rejoin_keeps_partition
    s.insert(e);
    assert(!s.same_set(xe, xa) && s.same_set(xa, xc));                                              //@ob C19.ds.client.fresh_element_is_apart
    let r = s.find(c);
    assert(r.index_spec() == xa);                                                                   //@ob C14.ds.client.resolves_to_common_root
}

//@dropped DisjointSet::{sets, values} (second impl block): iterator adapters with closures over VectorMap::iter/indices, outside Verus' subset; not under contract here (bounded partner Kb in DESIGN.md §6 C19)
//@dropped impl Default for DisjointSet (delegates to new), derived Clone/Debug/Eq/PartialEq on DisjointSet
//@dropped impl Combine for Option<A>, impl Combine for HashSet<A, S>: the instances are not needed; Data is abstract (A-COMBINE)

} // verus!
fn main() {}
