//@unit props=C05,C06
// Unit guards — properties C05 "no phantom slots" (slice: the guards) and C06 "no missed slots"
// (thin slice: key wrapping). The nested guard / inserter functions of the lifting passes
//   src/tc/lift/mapping_index.rs        guard_mapping_accesses      (+ MappingIndex::run)
//   src/tc/lift/dynamic_array_access.rs guard_dyn_array_accesses    (+ DynamicArrayIndex::run)
//   src/tc/lift/storage_slots.rs        insert_storage_accesses     (+ StorageSlots::run)
//   src/tc/lift/proxy_slots.rs          recognise_proxy_slots       (+ ProxySlots::run)
// and `is_constant_storage_slot` nested in TypeChecker::unify (src/tc/mod.rs).
//
// What is decided: a guard answers Some only on a storage access and keeps its constructor and the
// positions of key and value; every `StorageSlot` node that is created wraps exactly the key / slot
// child; each pass hands the GUARD (not the inner rewriter) to the traversal.
// What is not: the traversal itself and the inner pattern recognisers (assumed callees, uninterpreted).
use vstd::prelude::*;
use std::sync::Arc;
//@include common/value_tree_items.rs
#[allow(dead_code, unused)]
mod g_ext {
    // A-EXT: interface stand-ins. The unifier state is not touched by any function under contract
    // here; the error container only appears in `run`'s return type.
    pub struct TypeCheckerState(pub u8);
    pub struct Errors(pub u8);
}
use g_ext::TypeCheckerState;
#[allow(dead_code, unused)]
mod error { pub mod unification { pub type Result<T> = std::result::Result<T, crate::g_ext::Errors>; } }

verus! {

#[verifier::external_type_specification]
#[verifier::external_body]
pub struct ExTypeCheckerState(TypeCheckerState);
#[verifier::external_type_specification]
#[verifier::external_body]
pub struct ExErrors(g_ext::Errors);

// A-EXT: the `Lift` interface of src/tc/lift/mod.rs (supertraits Any + Debug + Downcast dropped;
// a declaration without executable content).
trait Lift {   // (private here: its `run` contracts name the module-private hoisted functions)
    fn run(&mut self, value: RuntimeBoxedVal, state: &TypeCheckerState) -> crate::error::unification::Result<RuntimeBoxedVal>;
}

// ---------------- A-CALLEE: the traversal combinator ----------------
// `v.transform_data(f)` returns an uninterpreted value `txf(v, f)` that depends on WHICH function
// item `f` is passed (its type is the function's own zero-sized type) — determinism only.
pub uninterp spec fn txf<F>(v: RSV, f: F) -> RSV;
// R-SELFREF targets: the same combinator applied to the enclosing function itself.
pub uninterp spec fn tx_isa(v: RSV) -> RSV;     // … applied to insert_storage_accesses
pub uninterp spec fn tx_rps(v: RSV) -> RSV;     // … applied to recognise_proxy_slots
pub uninterp spec fn tx_lda(v: RSV) -> RSV;     // … applied to lift_dyn_array_accesses
// A-CALLEE: `SymbolicValue::constant_fold` (size recomputation proved in unit value_size, arms in
// unit fold_arms): uninterpreted result here.
pub uninterp spec fn cfold(v: RSV) -> RSV;
impl RSV {
    #[verifier::external_body]
    pub fn transform_data<F: Fn(&RSVD) -> Option<RSVD> + Copy>(&self, transform: F) -> (r: RuntimeBoxedVal)
        ensures *r == txf(*self, transform)
    { unimplemented!() }
    #[verifier::external_body]
    pub fn tx_exec_isa(&self) -> (r: RuntimeBoxedVal) ensures *r == tx_isa(*self) { unimplemented!() }
    #[verifier::external_body]
    pub fn tx_exec_rps(&self) -> (r: RuntimeBoxedVal) ensures *r == tx_rps(*self) { unimplemented!() }
    #[verifier::external_body]
    pub fn tx_exec_lda(&self) -> (r: RuntimeBoxedVal) ensures *r == tx_lda(*self) { unimplemented!() }
    #[verifier::external_body]
    pub fn constant_fold(&self) -> (r: RuntimeBoxedVal) ensures *r == cfold(*self) { unimplemented!() }

    // A-CALLEE: `RSV::new` — contract PROVED in unit value_size (C18.vs.new.no_limit_untouched,
    // C18.vs.new.kept_when_within_limit / culled_to_fresh_value, C18.vs.new.frame); restated here
    // without its no-overflow precondition (panic-freedom is not claimed by this unit).
    #[verifier::external_body]
    pub fn new(instruction_pointer: u32, data: RSVD, provenance: Provenance, value_size_limit: Option<usize>) -> (r: RuntimeBoxedVal)
        ensures
            value_size_limit is None ==> r.dt() == data,
            r.ip() == instruction_pointer && r.prov() == provenance,
    { unimplemented!() }
}

// A-CALLEE: the inner pattern recognisers (slice patterns / itertools / keccak — outside Verus'
// subset). No contract: any result.
#[verifier::external_body]
fn insert_mapping_accesses(data: &RSVD) -> Option<RSVD> { unimplemented!() }
pub uninterp spec fn unpick(d: RSVD) -> Option<RSVD>;
#[verifier::external_body]
fn unpick_proxy_slots(data: &RSVD) -> (r: Option<RSVD>) ensures r == unpick(*data) { unimplemented!() }

/// an executed storage access as the lifting passes see it
pub open spec fn is_storage_access(d: RSVD) -> bool { d is StorageWrite || d is SLoad || d is UnwrittenStorageValue }

// =========================== mapping_index.rs ===========================
//@extract file=src/tc/lift/mapping_index.rs path="impl Lift for MappingIndex|fn run|fn guard_mapping_accesses"
//@ret r
//@spec
    ensures
        r is Some ==> is_storage_access(*data),                                                   //@ob C05.guard.guard_mapping_accesses.only_under_storage_access
        r matches Some(d2) ==> (*data is StorageWrite ==> d2 is StorageWrite) && (*data is SLoad ==> d2 is SLoad)
            && (*data is UnwrittenStorageValue ==> d2 is UnwrittenStorageValue),                  //@ob C05.guard.guard_mapping_accesses.same_constructor
        *data matches RSVD::StorageWrite { key, value } ==> r matches Some(RSVD::StorageWrite { key: k2, value: v2 })
            && *k2 == txf(*key, insert_mapping_accesses) && *v2 == txf(*value, insert_mapping_accesses),   //@ob C05.guard.guard_mapping_accesses.write_positions C06.guard.guard_mapping_accesses.write_key_stays_key
        *data matches RSVD::SLoad { key, value } ==> r matches Some(RSVD::SLoad { key: k2, value: v2 })
            && *k2 == txf(*key, insert_mapping_accesses) && *v2 == txf(*value, insert_mapping_accesses),   //@ob C05.guard.guard_mapping_accesses.load_positions C06.guard.guard_mapping_accesses.load_key_stays_key
        *data matches RSVD::UnwrittenStorageValue { key } ==> r matches Some(RSVD::UnwrittenStorageValue { key: k2 })
            && *k2 == txf(*key, insert_mapping_accesses),                                        //@ob C05.guard.guard_mapping_accesses.unwritten_position
//@end

//@extract file=src/tc/lift/mapping_index.rs path="struct MappingIndex" kind=type id=mapping_index::MappingIndex
//@end
//@extract file=src/tc/lift/mapping_index.rs path="impl Lift for MappingIndex" kind=header
//@end
//@extract file=src/tc/lift/mapping_index.rs path="impl Lift for MappingIndex|fn run"
//@ret r
//@hoist guard_mapping_accesses insert_mapping_accesses
//@spec
        ensures
            r matches Ok(x) && *x == txf(*value, guard_mapping_accesses),                         //@ob C05.guard.mapping_index_run.passes_the_guard
//@end
}

// =========================== dynamic_array_access.rs ===========================
//@extract file=src/tc/lift/dynamic_array_access.rs path="impl Lift for DynamicArrayIndex|fn run|fn guard_dyn_array_accesses"
//@ret r
//@spec
    ensures
        r is Some ==> is_storage_access(*data),                                                   //@ob C05.guard.guard_dyn_array_accesses.only_under_storage_access
        r matches Some(d2) ==> (*data is StorageWrite ==> d2 is StorageWrite) && (*data is SLoad ==> d2 is SLoad)
            && (*data is UnwrittenStorageValue ==> d2 is UnwrittenStorageValue),                  //@ob C05.guard.guard_dyn_array_accesses.same_constructor
        *data matches RSVD::StorageWrite { key, value } ==> r matches Some(RSVD::StorageWrite { key: k2, value: v2 })
            && *k2 == txf(*key, lift_dyn_array_accesses) && *v2 == txf(*value, lift_dyn_array_accesses),   //@ob C05.guard.guard_dyn_array_accesses.write_positions C06.guard.guard_dyn_array_accesses.write_key_stays_key
        *data matches RSVD::SLoad { key, value } ==> r matches Some(RSVD::SLoad { key: k2, value: v2 })
            && *k2 == txf(*key, lift_dyn_array_accesses) && *v2 == txf(*value, lift_dyn_array_accesses),   //@ob C05.guard.guard_dyn_array_accesses.load_positions C06.guard.guard_dyn_array_accesses.load_key_stays_key
        *data matches RSVD::UnwrittenStorageValue { key } ==> r matches Some(RSVD::UnwrittenStorageValue { key: k2 })
            && *k2 == txf(*key, lift_dyn_array_accesses),                                        //@ob C05.guard.guard_dyn_array_accesses.unwritten_position
//@end

//@extract file=src/tc/lift/dynamic_array_access.rs path="impl Lift for DynamicArrayIndex|fn run|fn lift_dyn_array_accesses"
//@ret r
//@rw R-SELFREF count=2
//@old
.transform_data(lift_dyn_array_accesses)
//@new
.tx_exec_lda()
//@spec
    ensures
        r is Some ==> (*value matches RSVD::Add { left, right } && (left.dt() is Sha3 || right.dt() is Sha3)),   //@ob C05.guard.lift_dyn_array_accesses.only_on_hash_plus_index
        r matches Some(d2) ==> d2 is DynamicArrayIndex,                                           //@ob C05.guard.lift_dyn_array_accesses.creates_only_array_index
        *value matches RSVD::Add { left, right } ==> left.dt() matches RSVD::Sha3 { data: pre } ==> !(pre.dt() is Concat) ==>
            (r matches Some(RSVD::DynamicArrayIndex { slot, index }) && *slot == tx_lda(*pre) && *index == tx_lda(*right)),   //@ob C05.guard.lift_dyn_array_accesses.hash_left_slot_is_preimage_index_is_other_operand
//@end

//@extract file=src/tc/lift/dynamic_array_access.rs path="struct DynamicArrayIndex" kind=type id=dynamic_array_access::DynamicArrayIndex
//@end
//@extract file=src/tc/lift/dynamic_array_access.rs path="impl Lift for DynamicArrayIndex" kind=header
//@end
//@extract file=src/tc/lift/dynamic_array_access.rs path="impl Lift for DynamicArrayIndex|fn run"
//@ret r
//@hoist guard_dyn_array_accesses lift_dyn_array_accesses
//@spec
        ensures
            r matches Ok(x) && *x == txf(*value, guard_dyn_array_accesses),                       //@ob C05.guard.dynamic_array_run.passes_the_guard
//@end
}

// =========================== storage_slots.rs ===========================
/// `n` is the storage-slot node for the key / slot child `k`: `k`'s own payload if `k` already is a
/// `StorageSlot` node, otherwise a NEW `StorageSlot` node whose only child is the (transformed) `k`
/// — never any other sub-term; location and provenance are `k`'s.
pub open spec fn wraps_slot(n: RSV, k: RSV) -> bool {
    &&& n.ip() == k.ip() && n.prov() == k.prov()
    &&& (k.dt() is StorageSlot ==> n.dt() == k.dt())
    &&& (!(k.dt() is StorageSlot) ==> (n.dt() matches RSVD::StorageSlot { key: inner } && *inner == tx_isa(k)))
}

//@extract file=src/tc/lift/storage_slots.rs path="impl Lift for StorageSlots|fn run|fn insert_storage_accesses"
//@ret r
//@rw R-SELFREF count=8
//@old
.transform_data(insert_storage_accesses)
//@new
.tx_exec_isa()
//@spec
    ensures
        r is Some ==> (*data is MappingIndex || *data is StorageWrite || *data is DynamicArrayIndex || *data is SLoad),   //@ob C05.guard.insert_storage_accesses.only_on_storage_access
        *data matches RSVD::StorageWrite { key, value } ==> r matches Some(RSVD::StorageWrite { key: k2, value: v2 })
            && wraps_slot(*k2, *key) && *v2 == tx_isa(*value),                                  //@ob C05.guard.insert_storage_accesses.write_wraps_exactly_the_key C06.guard.insert_storage_accesses.write_key_carried
        *data matches RSVD::SLoad { key, value } ==> r matches Some(RSVD::SLoad { key: k2, value: v2 })
            && wraps_slot(*k2, *key) && *v2 == tx_isa(*value),                                  //@ob C05.guard.insert_storage_accesses.load_wraps_exactly_the_key C06.guard.insert_storage_accesses.load_key_carried
        *data matches RSVD::MappingIndex { key, slot, projection } ==> r matches Some(RSVD::MappingIndex { key: k2, slot: s2, projection: p2 })
            && wraps_slot(*s2, *slot) && *k2 == tx_isa(*key) && p2 == projection,               //@ob C05.guard.insert_storage_accesses.mapping_wraps_exactly_the_slot
        *data matches RSVD::DynamicArrayIndex { slot, index } ==> r matches Some(RSVD::DynamicArrayIndex { slot: s2, index: i2 })
            && wraps_slot(*s2, *slot) && *i2 == tx_isa(*index),                                 //@ob C05.guard.insert_storage_accesses.dyn_array_wraps_exactly_the_slot
//@end

/// C06: a constant key stays a constant key with the same word — PROVIDED the traversal leaves a
/// constant leaf alone (`insert_storage_accesses` answers None on `KnownData` by
/// `.only_on_storage_access`; that the traversal then keeps the leaf is its assumed definition).
proof fn lemma_constant_key_stays_constant(n: RSV, k: RSV)
    requires
        wraps_slot(n, k),
        aw(k) is Some,
        tx_isa(k) == k,
    ensures
        n.dt() matches RSVD::StorageSlot { key } && aw(*key) == aw(k),                            //@ob C06.guard.lemma.constant_key_stays_constant
{
}

//@extract file=src/tc/lift/storage_slots.rs path="struct StorageSlots" kind=type
//@end
//@extract file=src/tc/lift/storage_slots.rs path="impl Lift for StorageSlots" kind=header
//@end
//@extract file=src/tc/lift/storage_slots.rs path="impl Lift for StorageSlots|fn run"
//@ret r
//@hoist insert_storage_accesses
//@spec
        ensures
            r matches Ok(x) && *x == txf(*value, insert_storage_accesses),                        //@ob C05.guard.storage_slots_run.passes_the_guarded_inserter
//@end
}

// =========================== proxy_slots.rs ===========================
//@extract file=src/tc/lift/proxy_slots.rs path="impl Lift for ProxySlots|fn run|fn recognise_proxy_slots"
//@ret r
//@rw R-SELFREF count=4
//@old
.transform_data(recognise_proxy_slots)
//@new
.tx_exec_rps()
//@spec
    ensures
        r is Some ==> (*data is SLoad || *data is StorageWrite),                                  //@ob C05.guard.recognise_proxy_slots.only_under_storage_access
        r matches Some(d2) ==> (*data is StorageWrite ==> d2 is StorageWrite) && (*data is SLoad ==> d2 is SLoad),   //@ob C05.guard.recognise_proxy_slots.same_constructor
        *data matches RSVD::SLoad { key, value } ==> r matches Some(RSVD::SLoad { key: k2, value: v2 }) && *v2 == tx_rps(*value)
            && (match unpick(key.dt()) { Some(nk) => k2.dt() == nk && k2.ip() == key.ip() && k2.prov() == key.prov(), None => *k2 == tx_rps(*key) }),   //@ob C05.guard.recognise_proxy_slots.load_positions C06.guard.recognise_proxy_slots.load_key_stays_key
        *data matches RSVD::StorageWrite { key, value } ==> r matches Some(RSVD::StorageWrite { key: k2, value: v2 }) && *v2 == tx_rps(*value)
            && (match unpick(key.dt()) { Some(nk) => k2.dt() == nk && k2.ip() == key.ip() && k2.prov() == key.prov(), None => *k2 == tx_rps(*key) }),   //@ob C05.guard.recognise_proxy_slots.write_positions C06.guard.recognise_proxy_slots.write_key_stays_key
//@end

//@extract file=src/tc/lift/proxy_slots.rs path="struct ProxySlots" kind=type
//@end
//@extract file=src/tc/lift/proxy_slots.rs path="impl Lift for ProxySlots" kind=header
//@end
//@extract file=src/tc/lift/proxy_slots.rs path="impl Lift for ProxySlots|fn run"
//@ret r
//@hoist unpick_sha3_data unpick_proxy_slots recognise_proxy_slots
//@spec
        ensures
            r matches Ok(x) && *x == txf(*value, recognise_proxy_slots),                          //@ob C05.guard.proxy_slots_run.passes_the_guard
//@end
}

// =========================== mapping_offset.rs ===========================
// R-SELFREF target: the traversal combinator applied to insert_mapping_offset itself
pub uninterp spec fn tx_imo(v: RSV) -> RSV;
impl RSV {
    #[verifier::external_body]
    pub fn tx_exec_imo(&self) -> (r: RuntimeBoxedVal) ensures *r == tx_imo(*self) { unimplemented!() }
}
// A-CALLEE: `usize::from(&KnownWord)` (the `.into()` of the offset): an uninterpreted function of the word — NO claim about which
// usize comes out (it keeps the low 64 bits; see unit memory), only that the member offset is computed from THAT constant.
pub uninterp spec fn kw_as_usize(w: KnownWord) -> usize;
#[verifier::external_body]
fn vx_kw_into_usize(w: &KnownWord) -> (r: usize) ensures r == kw_as_usize(*w) { unimplemented!() }

//@extract file=src/tc/lift/mapping_offset.rs path="impl Lift for MappingOffset|fn run|fn insert_mapping_offset" props=C05,C06 id=mapping_offset::insert_mapping_offset
//@ret r
// R-SELFREF: the traversal applied to the function itself; R-CALL: `value.into()` (&KnownWord -> usize) -> the uninterpreted conversion
//@rw R-SELFREF count=2
//@old
.transform_data(insert_mapping_offset)
//@new
.tx_exec_imo()
//@rw R-CALL
//@old
value.into()
//@new
vx_kw_into_usize(value)
//@spec
    ensures
        r is Some ==> (*data matches RSVD::Add { left, right }
            && ((left.dt() is MappingIndex && right.dt() is KnownData) || (left.dt() is KnownData && right.dt() is MappingIndex))),   //@ob C05.guard.insert_mapping_offset.only_on_mapping_access_plus_constant
        r matches Some(d2) ==> d2 is MappingIndex,                                                 //@ob C05.guard.insert_mapping_offset.stays_a_mapping_access
        *data matches RSVD::Add { left, right } ==> left.dt() matches RSVD::MappingIndex { key, slot, projection } ==> right.dt() matches RSVD::KnownData { value } ==>
            (r matches Some(RSVD::MappingIndex { key: k2, slot: s2, projection: p2 })
                && *k2 == tx_imo(*key) && *s2 == tx_imo(*slot) && p2 == Some(kw_as_usize(value))),   //@ob C05.guard.insert_mapping_offset.same_slot_and_key_offset_from_the_constant C06.guard.insert_mapping_offset.slot_carried
        *data matches RSVD::Add { left, right } ==> left.dt() matches RSVD::KnownData { value } ==> right.dt() matches RSVD::MappingIndex { key, slot, projection } ==>
            (r matches Some(RSVD::MappingIndex { key: k2, slot: s2, projection: p2 })
                && *k2 == tx_imo(*key) && *s2 == tx_imo(*slot) && p2 == Some(kw_as_usize(value))),   //@ob C05.guard.insert_mapping_offset.same_slot_and_key_offset_from_the_constant C06.guard.insert_mapping_offset.slot_carried
//@end

// =========================== tc/mod.rs ===========================
//@extract file=src/tc/mod.rs path="impl TypeChecker|fn unify|fn is_constant_storage_slot"
//@ret r
//@spec
    ensures
        r == (value.dt() matches TCSVD::StorageSlot { key } && key.dt() is KnownData),            //@ob C05.guard.is_constant_storage_slot.exactly_constant_slots C06.guard.is_constant_storage_slot.every_constant_slot
//@end

//@dropped insert_mapping_accesses (slice pattern), unpick_sha3_data / unpick_proxy_slots (itertools, keccak): inner pattern recognisers are opaque callees with no contract
//@dropped SymbolicValue::transform_data / SymbolicValueData::transform: assumed callee (uninterpreted per function item)
//@dropped the no-overflow precondition of RSV::new at its call sites in insert_storage_accesses and recognise_proxy_slots (C01 is not claimed by this unit)
} // verus!
fn main() {}
