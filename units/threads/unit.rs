//@unit props=C08,C03,C01
// Unit threads — src/disassembly/mod.rs: the instruction stream and the thread of execution over it, as far as unit
// control does not already hold them (control has `ExecutionThread::{instruction_pointer, current, instruction, jump,
// at, len}`): `InstructionStream::{new_thread, len}`, `ExecutionThread::{jump_by, step, step_backward, start, end}`.
//   C08 the instruction pointer of a thread never leaves `0..len` (wf is established by new_thread and kept by every
//       movement), a movement either lands on an instruction of the code and returns it, or is REFUSED (None, pointer
//       unchanged): negative targets, targets past the end, targets beyond u32;
//   C03 `step` moves by exactly one instruction and refuses at the end of the code (so a thread cannot run off the end);
//   C01 the i64 arithmetic of `jump_by` (`i64::from(ip) + jump`, `u32::try_from`) and the indexing in start/end.
//       step / step_backward (the only callers in the crate) are panic-free for EVERY u32 pointer; jump_by itself is
//       NOT for every i64: see the precondition on jump_by (finding).
use vstd::prelude::*;
//@dropped disassembly/mod.rs: `as_bytecode` and TryFrom<&[u8]> (under contract in unit disassemble: C10.dis.stream.*, the round-trip assert_eq! proved unreachable there), TryFrom<&str> (hex decoding; not under contract), From<InstructionStream> conversions, `instruction_as` (downcast_rs), `slice` (Range<u32>::is_empty, unwrap_or_else(panic!) closure), derived Clone/Debug
//@dropped ExecutionThread::{instruction_pointer, current, instruction, jump, at, len}: under contract in unit control (not repeated)

verus! {
// A-CALLEE (type stand-in): payload type of Error::InvalidOffsetForJump, never built here
#[verifier::external_body]
pub struct KnownWord { _opaque: u8 }
// A-CALLEE (opaque stand-in for `DynOpcode = Rc<dyn Opcode>`): an instruction of the stream.
// A-DERIVE: Rc::clone returns the same instruction.
#[verifier::external_body]
pub struct DynOpcode { _opaque: u8 }
impl Clone for DynOpcode {
    #[verifier::external_body]
    fn clone(&self) -> (r: Self) ensures r == *self { unimplemented!() }
}
} // verus!

pub mod container {
use vstd::prelude::*;
verus! {
//@include stack/container_items.rs
} // verus!
}
pub mod execution {
use vstd::prelude::*;
use super::{container, KnownWord};
verus! {
//@include stack/execution_items.rs
} // verus!
}
use container::Locatable;
use std::rc::Rc;

verus! {
//@extract file=src/disassembly/mod.rs path="struct InstructionStream" kind=type
//@end
//@extract file=src/disassembly/mod.rs path="struct ExecutionThread" kind=type
//@end
impl InstructionStream {
    pub closed spec fn code(&self) -> Seq<DynOpcode> { self.instructions@ }
}
impl ExecutionThread {
    pub closed spec fn ip(&self) -> u32 { self.instruction_pointer }
    pub closed spec fn code(&self) -> Seq<DynOpcode> { self.instructions@ }
    /// documented invariant of the type: the pointer names an instruction (hence the code is not empty)
    pub open spec fn wf(&self) -> bool { (self.ip() as int) < self.code().len() }
    /// the documented size limit of a stream: every instruction sits at a u32 offset (the disassembler answers
    /// BytecodeTooLarge otherwise, disassembler.rs `u32::try_from(offset)`), i.e. at most 2^32 instructions
    pub open spec fn within_size_limit(&self) -> bool { self.code().len() <= 0x1_0000_0000 }
}
// A-STD: core's `impl From<u32> for i64` is the lossless widening conversion (vstd specifies the widenings of equal
// signedness and `u32::try_from(i64)`, not unsigned -> wider signed)
pub broadcast axiom fn axiom_i64_from_u32_obeys()
    ensures #[trigger] <i64 as vstd::std_specs::convert::FromSpec<u32>>::obeys_from_spec();
pub broadcast axiom fn axiom_i64_from_u32(x: u32)
    ensures #[trigger] <i64 as vstd::std_specs::convert::FromSpec<u32>>::from_spec(x) == x as i64;
/// where a relative movement by `jump` would land (mathematical integer)
pub open spec fn target(ip: u32, jump: i64) -> int { ip as int + jump as int }

//@extract file=src/disassembly/mod.rs path="impl InstructionStream" kind=header
//@end
//@extract file=src/disassembly/mod.rs path="impl InstructionStream|fn new_thread"
//@ret r
//@spec
        ensures
            r is Ok == ((instruction_pointer as int) < self.code().len()),                                                       //@ob C08.threads.new_thread.ok_iff_pointer_inside_code
            r is Ok ==> r->Ok_0.ip() == instruction_pointer && r->Ok_0.code() == self.code() && r->Ok_0.wf(),                    //@ob C08.threads.new_thread.thread_starts_at_the_pointer_over_the_same_code
            r is Err ==> r->Err_0.payload is InstructionPointerOutOfBounds && r->Err_0.location == instruction_pointer,          //@ob C17.threads.new_thread.error_kind_and_location
//@end
//@extract file=src/disassembly/mod.rs path="impl InstructionStream|fn len"
//@ret r
//@spec
        ensures r == self.code().len(),
//@end
}

//@extract file=src/disassembly/mod.rs path="impl ExecutionThread" kind=header
//@end
//@extract file=src/disassembly/mod.rs path="impl ExecutionThread|fn step"
//@ret r
//@spec
        ensures
            final(self).code() == old(self).code(),
            // moves by exactly one instruction ...
            old(self).ip() + 1 < old(self).code().len() && old(self).within_size_limit() ==> final(self).ip() == old(self).ip() + 1 && r == Some(old(self).code()[old(self).ip() + 1]),      //@ob C03.threads.step.moves_by_exactly_one C08.threads.step.moves_by_exactly_one
            // ... and is refused at the end of the code: None, pointer unchanged
            old(self).ip() + 1 >= old(self).code().len() ==> r is None && final(self).ip() == old(self).ip(),                                                   //@ob C03.threads.step.refused_at_the_end C08.threads.step.refused_at_the_end
            old(self).wf() ==> final(self).wf(),                                                                                                                //@ob C08.threads.step.pointer_stays_inside_code
//@end
//@extract file=src/disassembly/mod.rs path="impl ExecutionThread|fn step_backward"
//@ret r
//@spec
        ensures
            final(self).code() == old(self).code(),
            1 <= old(self).ip() <= old(self).code().len() ==> final(self).ip() == old(self).ip() - 1 && r == Some(old(self).code()[old(self).ip() - 1]),      //@ob C08.threads.step_backward.moves_back_by_exactly_one
            old(self).ip() == 0 || old(self).ip() > old(self).code().len() ==> r is None && final(self).ip() == old(self).ip(),                                 //@ob C08.threads.step_backward.refused_at_the_start
            old(self).wf() ==> final(self).wf(),                                                                                                                //@ob C08.threads.step_backward.pointer_stays_inside_code
//@end
//@extract file=src/disassembly/mod.rs path="impl ExecutionThread|fn jump_by"
//@ret r
//@spec
        requires
            // FINDING (C01, not reachable from the analysis: the crate only calls step()): `i64::from(ip) + jump` is a
            // checked i64 addition (overflow-checks = true in every profile) and PANICS when ip + jump > i64::MAX,
            // e.g. a thread at pointer 1 and jump_by(i64::MAX) (confirmed on the real crate: "attempt to add with overflow",
            // src/disassembly/mod.rs:248).  The lower side cannot overflow (ip >= 0).
            target(old(self).ip(), jump) <= i64::MAX,
        ensures
            final(self).code() == old(self).code(),
            // lands on an instruction of the code, or is refused (negative, past the end, beyond u32): None, pointer unchanged
            0 <= target(old(self).ip(), jump) < old(self).code().len() && target(old(self).ip(), jump) <= u32::MAX
                ==> final(self).ip() == target(old(self).ip(), jump) && r == Some(old(self).code()[target(old(self).ip(), jump)]),      //@ob C08.threads.jump_by.lands_exactly_on_the_target
            !(0 <= target(old(self).ip(), jump) < old(self).code().len() && target(old(self).ip(), jump) <= u32::MAX)
                ==> r is None && final(self).ip() == old(self).ip(),                                                                     //@ob C08.threads.jump_by.refused_outside_the_code
            old(self).wf() ==> final(self).wf(),                                                                                         //@ob C08.threads.jump_by.pointer_stays_inside_code
//@proof entry
        broadcast use axiom_i64_from_u32, axiom_i64_from_u32_obeys;
//@end
//@extract file=src/disassembly/mod.rs path="impl ExecutionThread|fn start"
//@ret r
//@spec
        requires self.wf(),       // type invariant: a stream holds at least one instruction
        ensures r == self.code()[0],
//@end
//@extract file=src/disassembly/mod.rs path="impl ExecutionThread|fn end"
//@ret r
//@spec
        requires self.wf(),
        ensures r == self.code().last(),
//@end
}
} // verus!
fn main() {}
