//@unit props=C07,C06,C01
// Unit storage — src/vm/state/storage.rs: the per-thread storage of the symbolic machine, against an ABSTRACT HISTORY
// MAP `hist: key -> Seq<value>` (one map, although the code files constant keys and symbolic keys in two HashMaps):
//   C07 "each path's storage history lists exactly the writes performed on that path, in order" / "storage keep[s]
//       per-key generations and return[s] the most recent on load":
//         store(k, v)    appends v to the history of exactly key k; every other history is unchanged;
//         load(k)        returns a value that wraps the LAST generation of k; for a key without history it first files
//                        the unwritten-slot placeholder as the first generation; it never shortens a history;
//         generations(k) returns the history of k in order (None for an untouched key);
//   C06 "every load and store leaves a generation under its key", nothing is ever removed: no operation shortens
//       or drops a history; entry_count / keys cover every key that has one.
//   C01 `expect` on `last()`, `usize` addition in entry_count.
// The entry API (`entry(k).or_insert(..)`, `&mut` chosen by a `match`) goes to Verus VERBATIM (vstd specifies
// HashMap::entry / Entry::or_insert); only `or_insert_with` needs an assumed specification and its closure a declared
// postcondition.
#![feature(allocator_api)]   // only to name `Entry<'a, K, V, A>` in the assume_specification of or_insert_with
use vstd::prelude::*;
use std::collections::HashMap;
use std::collections::hash_map::Entry;
use vstd::std_specs::hash::EntrySpecFns;
//@dropped storage.rs: `all_values`, `stores_as_values` (iterator chains, for_each/map closures: not in THIS unit — under contract in unit collect, C06.collect.stores_as_values.*), derived Clone/Debug/Eq/PartialEq of Storage, the #[cfg(test)] module
//@dropped the value tree: `RuntimeBoxedVal = Arc<SymbolicValue<()>>` is an OPAQUE stand-in (BoxedVal); `RSV::new` is an A-CALLEE stand-in with the part of its contract proved in unit value_size that is used here (C18.vs.new.no_limit_untouched); its size precondition (`child_size() + 1` does not overflow) is NOT re-stated here
//@dropped callers (SLoad::execute / SStore::execute, VMState fork = Storage::clone) are not under contract in this unit

// A-EXT: opaque payload types of SymbolicValueData (`uuid::Uuid`, `KnownWord`); never inspected by storage.rs
mod ext {
    #[derive(Clone, Copy, PartialEq, Eq)]
    pub struct Uuid(pub u128);
    #[derive(Clone, Copy, PartialEq, Eq)]
    pub struct KnownWord(pub [u128; 2]);
}
use ext::{KnownWord, Uuid};
// `Hash`/`Eq` of the key type run outside Verus (derivative on SymbolicValue); see A-DERIVE (key model) below
impl<A> core::hash::Hash for BoxedVal<A> { fn hash<H: core::hash::Hasher>(&self, _s: &mut H) { unimplemented!() } }
impl<A> PartialEq for BoxedVal<A> { fn eq(&self, _o: &Self) -> bool { unimplemented!() } }
impl<A> Eq for BoxedVal<A> {}

verus! {
#[verifier::external_type_specification]
#[verifier::external_body]
pub struct ExUuid(Uuid);
#[verifier::external_type_specification]
#[verifier::external_body]
pub struct ExKnownWord(KnownWord);

// ---- the value tree as far as storage.rs names it --------------------------------------------------------
// A-CALLEE (type stand-in): `BoxedVal<A> = Arc<SymbolicValue<A>>`, OPAQUE.
// A-DERIVE (key model).  The spec-level identity of a BoxedVal IS what the real `Eq`/`Hash` decide (derivative on
// SymbolicValue: `instruction_pointer` and `provenance` are IGNORED — `PartialEq = "ignore", Hash = "ignore"` —
// payload, aux data and size are compared, recursively through the Arcs).  Consequently the payload `dt()` is a
// function of that identity, the instruction pointer and the provenance are NOT (their accessors promise nothing),
// and `Arc::clone` returns the same identity.  Under this reading `Hash`/`Eq` obey vstd's key model
// (axiom_boxed_val_key_model) and a history "is" a sequence of values up to instruction pointers / provenances.
#[verifier::external_body]
#[verifier::accept_recursive_types(A)]
pub struct BoxedVal<A> { _p: core::marker::PhantomData<A> }
pub broadcast axiom fn axiom_boxed_val_key_model<A>()
    ensures #[trigger] vstd::std_specs::hash::obeys_key_model::<BoxedVal<A>>();
impl<A> Clone for BoxedVal<A> {
    #[verifier::external_body]
    fn clone(&self) -> (r: Self) ensures r == *self { unimplemented!() }
}
impl<A> BoxedVal<A> {
    /// the payload of the node
    pub uninterp spec fn dt(&self) -> SymbolicValueData<A>;
    // A-CALLEE: SymbolicValue::{data, instruction_pointer, provenance} reached through the Arc
    #[verifier::external_body]
    pub fn data(&self) -> (r: &SymbolicValueData<A>) ensures *r == self.dt() { unimplemented!() }
    #[verifier::external_body]
    pub fn instruction_pointer(&self) -> u32 { unimplemented!() }
    #[verifier::external_body]
    pub fn provenance(&self) -> Provenance { unimplemented!() }
}
#[derive(Clone, Copy)]
//@extract file=src/vm/value/mod.rs path="enum Provenance" kind=type
//@end
//@extract file=src/vm/value/mod.rs path="type RuntimeAuxData" kind=type
//@end
//@extract file=src/vm/value/mod.rs path="type RuntimeBoxedVal" kind=type
//@end
//@extract file=src/vm/value/mod.rs path="type SV" kind=type
//@end
//@extract file=src/vm/value/mod.rs path="type SVD" kind=type
//@end
//@extract file=src/vm/value/mod.rs path="type RSV" kind=type
//@end
//@extract file=src/vm/value/mod.rs path="type RSVD" kind=type
//@end
//@extract file=src/vm/value/mod.rs path="struct PackedSpan" kind=type
//@end
// the real 70-variant payload enum (its children are the opaque BoxedVal)
//@extract file=src/vm/value/mod.rs path="enum SymbolicValueData" kind=type
//@end
// A-DERIVE: `#[derive(Clone)]` on the payload enum returns an equal value
impl<AuxData: Clone> Clone for SymbolicValueData<AuxData> {
    #[verifier::external_body]
    fn clone(&self) -> (r: Self) ensures r == *self { unimplemented!() }
}
// A-CALLEE (type stand-in): `SymbolicValue<A>` is only the namespace of `RSV::new` here (values live behind BoxedVal).
// `RSV::new(ip, data, provenance, limit)`: with no size limit the payload is kept as given (PROVED in unit value_size:
// C18.vs.new.no_limit_untouched); with a limit the node may be culled to a fresh `Value` — nothing is promised then.
pub struct SymbolicValue<AuxData> { _aux: AuxData }
impl SymbolicValue<()> {
    #[verifier::external_body]
    pub fn new(instruction_pointer: u32, data: RSVD, provenance: Provenance, value_size_limit: Option<usize>) -> (r: RuntimeBoxedVal)
        ensures value_size_limit is None ==> r.dt() == data,
    { unimplemented!() }
}

// ---- A-STD: std calls without a vstd specification ------------------------------------------------------------
// A-STD: `Entry::or_insert_with(f)`: the value already filed under the key, else the one `f` returns is filed;
// a mutable reference to the filed value is returned (same shape as vstd's specification of `or_insert`).
pub assume_specification<'a, K, V, A: core::alloc::Allocator, F: FnOnce() -> V>[ Entry::<'a, K, V, A>::or_insert_with ](entry: Entry<'a, K, V, A>, default: F) -> (r: &'a mut V)
    requires entry.value() is None ==> default.requires(()),
    ensures
        match entry.value() { Some(v) => *r == v, None => default.ensures((), *r) },
        entry.final_value() == Some(*final(r));
// A-STD (R-CALL stand-in): `slice.iter().collect::<Vec<&T>>()`: references to the elements, in order
#[verifier::external_body]
pub fn vec_refs<T>(v: &Vec<T>) -> (r: Vec<&T>)
    ensures r@.len() == v@.len(), forall|i: int| 0 <= i < v@.len() ==> *#[trigger] r@[i] == v@[i],
{ v.iter().collect() }
// A-STD (R-CALL stand-in): `map.keys().collect::<Vec<&K>>()`: every key exactly once, in an unspecified order
#[verifier::external_body]
pub fn map_keys<K, V>(m: &HashMap<K, V>) -> (r: Vec<&K>)
    ensures
        r@.len() == m@.len(),
        forall|i: int| 0 <= i < r@.len() ==> m@.contains_key(*#[trigger] r@[i]),
        forall|k: K| m@.contains_key(k) ==> exists|i: int| 0 <= i < r@.len() && *#[trigger] r@[i] == k,
{ m.keys().collect() }
// A-STD (R-CALL stand-in): `Vec::extend(vec)` appends the elements in order
#[verifier::external_body]
pub fn vec_extend<T>(v: &mut Vec<T>, items: Vec<T>)
    ensures final(v)@ == old(v)@ + items@,
{ v.extend(items) }

// proved: where the elements of a concatenation come from (stated with triggers on the PARTS, so that a witness index
// into a part is carried over to the whole)
pub broadcast proof fn lemma_add_left<T>(a: Seq<T>, b: Seq<T>, i: int)
    requires 0 <= i < a.len(),
    ensures #![trigger a[i], a + b] (a + b)[i] == a[i],
{}
pub broadcast proof fn lemma_add_right<T>(a: Seq<T>, b: Seq<T>, j: int)
    requires 0 <= j < b.len(),
    ensures #![trigger b[j], a + b] (a + b)[a.len() + j] == b[j],
{}

// ---- Storage ---------------------------------------------------------------------------------------------------
//@extract file=src/vm/state/storage.rs path="struct Storage" kind=type
//@end
/// a key is filed in the "known" map iff it is a literal constant
pub open spec fn is_known(k: RuntimeBoxedVal) -> bool { k.dt() is KnownData }
impl Storage {
    /// THE ABSTRACT VIEW: the history of writes (generations) under key `k`, oldest first; empty = never touched
    pub closed spec fn hist(&self, k: RuntimeBoxedVal) -> Seq<RuntimeBoxedVal> {
        if is_known(k) {
            if self.known_slots@.contains_key(k) { self.known_slots@[k]@ } else { Seq::empty() }
        } else {
            if self.symbolic_slots@.contains_key(k) { self.symbolic_slots@[k]@ } else { Seq::empty() }
        }
    }
    /// number of keys on file
    pub closed spec fn entries(&self) -> nat { self.known_slots@.len() + self.symbolic_slots@.len() }
    /// representation invariant (established by `new`, kept by every method; the fields are private):
    /// a key on file has a non-empty history and sits in the map its kind selects
    pub closed spec fn wf(&self) -> bool {
        &&& forall|k: RuntimeBoxedVal| #[trigger] self.known_slots@.contains_key(k) ==> is_known(k) && self.known_slots@[k]@.len() > 0
        &&& forall|k: RuntimeBoxedVal| #[trigger] self.symbolic_slots@.contains_key(k) ==> !is_known(k) && self.symbolic_slots@[k]@.len() > 0
    }
    /// `k` is on file
    pub closed spec fn on_file(&self, k: RuntimeBoxedVal) -> bool { self.known_slots@.contains_key(k) || self.symbolic_slots@.contains_key(k) }
}
/// what SLOAD pushes for a slot whose latest generation is `last`: the generation wrapped in an `SLoad` of the key,
/// unless it already is an `SLoad` node
pub open spec fn loaded(key: RuntimeBoxedVal, last: RuntimeBoxedVal) -> RSVD {
    if last.dt() is SLoad { last.dt() } else { RSVD::SLoad { key, value: last } }
}

//@extract file=src/vm/state/storage.rs path="impl Storage" kind=header
//@end
//@extract file=src/vm/state/storage.rs path="impl Storage|fn new"
//@ret r
//@spec
        ensures
            r.wf(),
            forall|k: RuntimeBoxedVal| #[trigger] r.hist(k) == Seq::<RuntimeBoxedVal>::empty(),      //@ob C07.storage.new.no_history
            r.entries() == 0,
//@proof entry
        broadcast use vstd::std_specs::hash::group_hash_axioms, axiom_boxed_val_key_model;
//@end

//@extract file=src/vm/state/storage.rs path="impl Storage|fn store"
//@spec
        requires old(self).wf(),
        ensures
            final(self).wf(),
            // the write is appended to the history of exactly this key ...
            final(self).hist(key) == old(self).hist(key).push(value),                                                          //@ob C07.storage.store.appends_to_the_history_of_its_key C06.storage.store.leaves_a_generation
            // ... and every other history is what it was (nothing is overwritten, shortened or removed)
            forall|o: RuntimeBoxedVal| o != key ==> #[trigger] final(self).hist(o) == old(self).hist(o),                      //@ob C07.storage.store.other_histories_unchanged C06.storage.store.removes_nothing
            final(self).entries() == old(self).entries() + (if old(self).hist(key).len() == 0 { 1nat } else { 0nat }),         //@ob C06.storage.store.entry_count
//@proof entry
        broadcast use vstd::std_specs::hash::group_hash_axioms, axiom_boxed_val_key_model;
        proof {
            assert(old(self).known_slots@.contains_key(key) ==> old(self).known_slots@[key]@.len() > 0);
            assert(old(self).symbolic_slots@.contains_key(key) ==> old(self).symbolic_slots@[key]@.len() > 0);
        }
//@end

//@extract file=src/vm/state/storage.rs path="impl Storage|fn load"
//@ret r
// R-SIG: the closure that builds the unwritten-slot placeholder gets a declared postcondition (Verus infers none for
// a closure); its body `$1` stays repository text and is verified against it
//@rw R-SIG
//@old
.or_insert_with(|| { $1 });
//@new
.or_insert_with(|| -> (fresh: Vec<RuntimeBoxedVal>)
            ensures fresh@.len() == 1 && fresh@[0].dt() == (RSVD::UnwrittenStorageValue { key: *key }),      //@ob C07.storage.load.placeholder_is_the_unwritten_value_of_the_key
        { $1 });
//@spec
        requires old(self).wf(),
        ensures
            final(self).wf(),
            // a slot with a history: the most recent generation is returned (wrapped), the history is untouched
            old(self).hist(*key).len() > 0 ==> final(self).hist(*key) == old(self).hist(*key)
                && r.dt() == loaded(*key, old(self).hist(*key).last()),                                                         //@ob C07.storage.load.returns_the_last_generation
            // a slot never touched on this path: the unwritten-slot placeholder becomes its first generation and is returned
            old(self).hist(*key).len() == 0 ==> final(self).hist(*key).len() == 1
                && final(self).hist(*key)[0].dt() == (RSVD::UnwrittenStorageValue { key: *key })
                && r.dt() == loaded(*key, final(self).hist(*key)[0]),                                                           //@ob C07.storage.load.unwritten_slot_gets_placeholder_generation C06.storage.load.leaves_a_generation
            // no other history changes (a load never shortens or drops anything)
            forall|o: RuntimeBoxedVal| o != *key ==> #[trigger] final(self).hist(o) == old(self).hist(o),                      //@ob C07.storage.load.other_histories_unchanged C06.storage.load.removes_nothing
            final(self).entries() == old(self).entries() + (if old(self).hist(*key).len() == 0 { 1nat } else { 0nat }),         //@ob C06.storage.load.entry_count
//@proof entry
        broadcast use vstd::std_specs::hash::group_hash_axioms, axiom_boxed_val_key_model;
        proof {
            assert(old(self).known_slots@.contains_key(*key) ==> old(self).known_slots@[*key]@.len() > 0);
            assert(old(self).symbolic_slots@.contains_key(*key) ==> old(self).symbolic_slots@[*key]@.len() > 0);
        }
//@end

//@extract file=src/vm/state/storage.rs path="impl Storage|fn generations"
//@ret r
// R-MAPERR: `Option::map(closure)` written out as the match it is (no inferred postcondition for the closure);
// R-CALL: `iter().collect()` -> A-STD stand-in vec_refs; the operand expressions stay repository text
//@rw R-CALL
//@old
generations.iter().collect()
//@new
vec_refs(generations)
//@rw R-MAPERR
//@old
target_map.get(key).map(|$1| vec_refs($2))
//@new
match target_map.get(key) { Some($1) => Some(vec_refs($2)), None => None }
//@spec
        requires self.wf(),
        ensures
            match r {
                Some(g) => self.hist(*key).len() > 0 && g@.len() == self.hist(*key).len()
                    && forall|i: int| 0 <= i < g@.len() ==> *#[trigger] g@[i] == self.hist(*key)[i],
                None => self.hist(*key).len() == 0,
            },                                                                                              //@ob C07.storage.generations.the_history_in_order
//@proof entry
        broadcast use vstd::std_specs::hash::group_hash_axioms, axiom_boxed_val_key_model;
        proof {
            assert(self.known_slots@.contains_key(*key) ==> self.known_slots@[*key]@.len() > 0);
            assert(self.symbolic_slots@.contains_key(*key) ==> self.symbolic_slots@[*key]@.len() > 0);
        }
//@end

//@extract file=src/vm/state/storage.rs path="impl Storage|fn entry_count"
//@ret r
//@spec
        requires
            self.entries() <= usize::MAX,       // caller obligation (C01): both maps are in memory, so their entry counts cannot add up beyond the address space
        ensures r == self.entries(),                                                                        //@ob C06.storage.entry_count.counts_every_key_on_file
//@proof entry
        broadcast use vstd::std_specs::hash::group_hash_axioms, axiom_boxed_val_key_model;
//@end

//@extract file=src/vm/state/storage.rs path="impl Storage|fn keys"
//@ret r
// R-CALL: `map.keys().collect()` -> A-STD stand-in map_keys (x2); `Vec::extend(vec)` -> vec_extend
//@rw R-CALL
//@old
self.known_slots.keys().collect()
//@new
map_keys(&self.known_slots)
//@rw R-CALL
//@old
self.symbolic_slots.keys().collect()
//@new
map_keys(&self.symbolic_slots)
//@rw R-CALL
//@old
known_keys.extend($1);
//@new
vec_extend(&mut known_keys, $1);
//@spec
        requires self.wf(),
        ensures
            // every key with a history is listed, and only those
            forall|k: RuntimeBoxedVal| self.hist(k).len() > 0 ==> exists|i: int| 0 <= i < r@.len() && *#[trigger] r@[i] == k,      //@ob C06.storage.keys.lists_every_key_with_a_history
            forall|i: int| 0 <= i < r@.len() ==> self.hist(*#[trigger] r@[i]).len() > 0,                                           //@ob C06.storage.keys.only_keys_with_a_history
            r@.len() == self.entries(),                                                                                            //@ob C06.storage.keys.len
//@proof entry
        broadcast use vstd::std_specs::hash::group_hash_axioms, axiom_boxed_val_key_model, lemma_add_left, lemma_add_right;
//@end
}

//@extract file=src/vm/state/storage.rs path="impl Default for Storage" kind=header
//@end
//@extract file=src/vm/state/storage.rs path="impl Default for Storage|fn default"
//@ret r
//@spec
        ensures
            r.wf(),
            forall|k: RuntimeBoxedVal| #[trigger] r.hist(k) == Seq::<RuntimeBoxedVal>::empty(),      //@ob C07.storage.default.no_history
//@end
}

// ---- C07 "lists exactly the writes performed on that path, in order" as an invariant over histories -------------
/// the history a sequence of writes to key `k` leaves (in order), starting from `h0`
pub open spec fn writes_to(ws: Seq<(RuntimeBoxedVal, RuntimeBoxedVal)>, k: RuntimeBoxedVal) -> Seq<RuntimeBoxedVal>
    decreases ws.len()
{
    if ws.len() == 0 { Seq::empty() }
    else if ws.last().0 == k { writes_to(ws.drop_last(), k).push(ws.last().1) }
    else { writes_to(ws.drop_last(), k) }
}
/// one `store` step keeps "the history of every key is the initial history followed by the writes to that key, in
/// order" (the hypotheses are exactly store's postconditions, so a caller can chain it over any path)
pub proof fn lemma_store_extends_the_write_log(pre: Storage, post: Storage, h0: spec_fn(RuntimeBoxedVal) -> Seq<RuntimeBoxedVal>,
        ws: Seq<(RuntimeBoxedVal, RuntimeBoxedVal)>, key: RuntimeBoxedVal, value: RuntimeBoxedVal)
    requires
        forall|k: RuntimeBoxedVal| #[trigger] pre.hist(k) == h0(k) + writes_to(ws, k),
        post.hist(key) == pre.hist(key).push(value),
        forall|o: RuntimeBoxedVal| o != key ==> #[trigger] post.hist(o) == pre.hist(o),
    ensures
        forall|k: RuntimeBoxedVal| #[trigger] post.hist(k) == h0(k) + writes_to(ws.push((key, value)), k),      //@ob C07.storage.lemma.history_is_exactly_the_writes_in_order
{
    let ws2 = ws.push((key, value));
    assert(ws2.drop_last() =~= ws);
    assert forall|k: RuntimeBoxedVal| #[trigger] post.hist(k) == h0(k) + writes_to(ws2, k) by {
        assert(pre.hist(k) == h0(k) + writes_to(ws, k));
        if k == key {
            assert((h0(k) + writes_to(ws, k)).push(value) =~= h0(k) + writes_to(ws, k).push(value));
        } else {
            assert(post.hist(k) == pre.hist(k));
        }
    }
}
} // verus!
fn main() {}
