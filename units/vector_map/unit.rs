//@unit props=C19,C01
// Unit vector_map — src/data/vector_map.rs against the abstract map model (C19), and the
// implicit safety obligations of the same bodies (C01: no overflow / underflow / index panic).
use vstd::prelude::*;
use std::marker::PhantomData;
verus! {
//@include common/vector_map_items.rs
//@dropped VectorMap::{get_mut, capacity, iter, iter_mut, indices, into_indices, values, into_values}, Default/From impls: iterator adapters and &mut returns are outside Verus' subset; not under contract (sets()/values() of DisjointSet assume their enumeration contract)

} // verus!
fn main() {}
