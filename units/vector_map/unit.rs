//@unit props=C19,C01
// Unit vector_map — src/data/vector_map.rs against the abstract map model (C19), and the
// implicit safety obligations of the same bodies (C01: no overflow / underflow / index panic).
use vstd::prelude::*;
use std::marker::PhantomData;
verus! {
//@include common/vector_map_items.rs
//@dropped VectorMap::{get_mut, iter, iter_mut, indices, into_indices, values, into_values}: iterator adapters and &mut returns are outside Verus' subset; not under contract (sets()/values() of DisjointSet assume their enumeration contract)

// ---- C19: the map built from a list of pairs is the fold of inserts: the LAST pair of a key wins ----
pub open spec fn last_binding<K: ToUniqueIndex, V>(s: Seq<(K, V)>, i: int) -> Option<V>
    decreases s.len()
{
    if s.len() == 0 { None }
    else if s.last().0.index_spec() == i { Some(s.last().1) }
    else { last_binding(s.drop_last(), i) }
}

// A-STD: Vec::capacity has no specification in vstd; the stand-in promises nothing about the number.
#[verifier::external_body]
fn vx_vec_capacity<T>(v: &Vec<T>) -> usize { v.capacity() }

// A-DERIVE: V::clone returns an equal value (the `From<&[(K, V)]>` contract is stated up to that).
#[verifier::external_body]
fn vx_clone<V: Clone>(v: &V) -> (r: V)
    ensures r == *v
{ v.clone() }

//@extract file=src/data/vector_map.rs path="impl<K, V> VectorMap<K, V>" kind=header
//@end
//@extract file=src/data/vector_map.rs path="impl<K, V> VectorMap<K, V>|fn capacity" props=C19,C01
//@ret r
//@spec
        ensures true,
// R-CALL: Vec::capacity -> the unspecified stand-in
//@rw R-CALL
//@old
self.data.capacity()
//@new
vx_vec_capacity(&self.data)
//@end
}

//@extract file=src/data/vector_map.rs path="impl<K, V> Default for VectorMap<K, V>" kind=header
//@end
//@extract file=src/data/vector_map.rs path="impl<K, V> Default for VectorMap<K, V>|fn default" props=C19,C01 id=VectorMap::default
//@ret r
//@spec
        ensures
            r.wf(), r.slen() == 0,                         //@ob C19.vm.default.len0
            forall|i: int| r.sget(i).is_none(),            //@ob C19.vm.default.empty
//@end
}

// vstd's `From` carries `obeys_from_spec() ==> r == from_spec(v)`; the impls below opt out and state their own contract.
impl<K: ToUniqueIndex, V> vstd::std_specs::convert::FromSpecImpl<Vec<(K, V)>> for VectorMap<K, V> {
    open spec fn obeys_from_spec() -> bool { false }
    open spec fn from_spec(v: Vec<(K, V)>) -> VectorMap<K, V> { arbitrary() }
}
impl<'a, K: ToUniqueIndex, V: Clone> vstd::std_specs::convert::FromSpecImpl<&'a [(K, V)]> for VectorMap<K, V> {
    open spec fn obeys_from_spec() -> bool { false }
    open spec fn from_spec(v: &'a [(K, V)]) -> VectorMap<K, V> { arbitrary() }
}

//@extract file=src/data/vector_map.rs path="impl<K, V> From<Vec<(K, V)>> for VectorMap<K, V>" kind=header
//@end
//@extract file=src/data/vector_map.rs path="impl<K, V> From<Vec<(K, V)>> for VectorMap<K, V>|fn from" props=C19,C01 id=VectorMap::from_vec
//@ret r
//@spec
        ensures
            r.wf(),                                                                  //@ob C19.vm.from_vec.wf
            forall|i: int| r.sget(i) == last_binding(value@, i),                     //@ob C19.vm.from_vec.is_fold_of_inserts
// R-FOREACH: `for (key, val) in value` -> the same loop with a named iterator (for the invariant); the pattern is bound in the body
//@rw R-FOREACH
//@old
for ($1, $2) in value {
//@new
let ghost vx_all = value@;
        for vx_pair in vx_it: value
            invariant
                vx_it.seq() == vx_all,
                map.wf(),
                forall|i: int| map.sget(i) == last_binding(vx_all.take(vx_it.index@ as int), i),       //@ob C19.vm.from_vec.is_fold_of_inserts
        {
            let ghost vx_i = vx_it.index@ as int;
            proof { assert(vx_all.take(vx_i + 1).drop_last() =~= vx_all.take(vx_i)); assert(vx_all.take(vx_i + 1).last() == vx_all[vx_i]); }
            let ($1, $2) = vx_pair;
//@proof afterloop #1
        proof { assert(vx_all.take(vx_all.len() as int) =~= vx_all); }
//@end
}

//@extract file=src/data/vector_map.rs path="impl<K, V> From<&[(K, V)]> for VectorMap<K, V>" kind=header
//@end
//@extract file=src/data/vector_map.rs path="impl<K, V> From<&[(K, V)]> for VectorMap<K, V>|fn from" props=C19,C01 id=VectorMap::from_slice
//@ret r
//@spec
        ensures
            r.wf(),                                                                  //@ob C19.vm.from_slice.wf
            forall|i: int| r.sget(i) == last_binding(value@, i),                     //@ob C19.vm.from_slice.is_fold_of_inserts
// R-FOREACH: `for (key, val) in value` (slice by reference) -> index loop binding the same pattern; R-CALL: V::clone -> A-DERIVE stand-in
//@rw R-FOREACH
//@old
for ($1, $2) in value {
//@new
let mut vx_k: usize = 0;
        while vx_k < value.len()
            invariant
                vx_k <= value.len(),
                map.wf(),
                forall|i: int| map.sget(i) == last_binding(value@.take(vx_k as int), i),       //@ob C19.vm.from_slice.is_fold_of_inserts
            decreases value.len() - vx_k,
        {
            proof { assert(value@.take(vx_k + 1).drop_last() =~= value@.take(vx_k as int)); assert(value@.take(vx_k + 1).last() == value@[vx_k as int]); }
            let ($1, $2) = &value[vx_k];
            vx_k = vx_k + 1;
//@rw R-CALL
//@old
map.insert($1, $2.clone());
//@new
map.insert($1, vx_clone($2));
//@proof afterloop #1
        proof { assert(value@.take(value@.len() as int) =~= value@); }
//@end
}

} // verus!
fn main() {}
