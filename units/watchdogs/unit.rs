//@unit props=C13,C01
// Unit watchdogs — src/watchdog.rs: the two watchdogs the crate ships, against what the polled loops ASSUME of a watchdog.
//   Every polled loop (units watchdog, vm_loop, tc_loops, unify) carries the precondition `poll_every() >= 1` (`counter % 0`
//   panics). This unit discharges it for the shipped watchdogs in their default configuration, and
//   C13 "if it never says stop, the result equals the unmonitored result": the unmonitored run IS the run under LazyWatchdog,
//   which never answers stop; FlagWatchdog answers exactly what the caller's flag holds at the poll and asks to be polled as often
//   as it was told (default: the crate's constant).
// NOT under contract: `FlagWatchdog::polling_every` (a `mut self` setter: outside the installed Verus; `polling_every(0)` makes
// every polled loop divide by zero — recorded in DESIGN.md as the configuration precondition), `in_rc` (unsizing coercion).
use vstd::prelude::*;
use std::sync::Arc;
use std::sync::atomic::{AtomicBool, Ordering};
verus! {
// the literal 1_000_000_000_000 of LazyWatchdog::poll_every only exists on 64-bit targets (rustc rejects it on 32-bit ones)
global size_of usize == 8;

//@extract file=src/constant.rs path="const DEFAULT_WATCHDOG_POLL_LOOP_ITERATIONS" kind=type
//@end

// A-STD: Arc<AtomicBool> is an opaque handle on a flag that other threads write: a relaxed load returns its CURRENT value,
// an external time-varying oracle `flag_now(handle, k)` of the poll number (no happens-before claim is made)
pub uninterp spec fn flag_value(f: Arc<AtomicBool>) -> bool;
// R-CALL stand-in for `AtomicBool::load`
#[verifier::external_body]
pub fn vx_flag_load(f: &Arc<AtomicBool>, o: Ordering) -> (r: bool)
    ensures r == flag_value(*f)
{ f.load(o) }

// the trait, re-declared with the contract every polled loop relies on being expressible: `poll_every` is a function of the
// watchdog (a fixed interval), `should_stop` an oracle
//@extract file=src/watchdog.rs path="trait Watchdog" kind=type
//@rw R-SIG
//@old
fn should_stop(&self) -> bool;
//@new
spec fn stops_now(&self) -> bool;
    spec fn interval(&self) -> usize;
    fn should_stop(&self) -> (r: bool)
        ensures r == self.stops_now();
//@rw R-SIG
//@old
fn poll_every(&self) -> usize;
//@new
fn poll_every(&self) -> (r: usize)
        ensures r == self.interval();
//@rw R-SIG optional
//@old
where
    Self: Debug,
//@new
//@end

#[derive(Copy, Clone)]
//@extract file=src/watchdog.rs path="struct LazyWatchdog" kind=type
//@end

//@extract file=src/watchdog.rs path="impl Watchdog for LazyWatchdog" kind=type props=C13,C01 id=LazyWatchdog::Watchdog
//@rw R-SIG
//@old
fn should_stop(&self) -> bool {
//@new
open spec fn stops_now(&self) -> bool { false }                                 //@ob C13.watchdogs.lazy.never_stops
    open spec fn interval(&self) -> usize { 1_000_000_000_000 }
    fn should_stop(&self) -> (r: bool) {
//@rw R-SIG
//@old
fn poll_every(&self) -> usize {
//@new
fn poll_every(&self) -> (r: usize) {
//@end

//@extract file=src/watchdog.rs path="struct FlagWatchdog" kind=type
//@end
impl FlagWatchdog {
    pub closed spec fn s_flag(&self) -> Arc<AtomicBool> { self.flag }
    pub closed spec fn s_interval(&self) -> usize { self.poll_loop_iterations }
}

//@extract file=src/watchdog.rs path="impl FlagWatchdog" kind=header
//@end
//@extract file=src/watchdog.rs path="impl FlagWatchdog|fn new" props=C13,C01 id=FlagWatchdog::new
//@ret r
//@spec
        ensures
            r.s_flag() == flag,                                                 //@ob C13.watchdogs.flag.new.watches_the_callers_flag
            r.s_interval() == DEFAULT_WATCHDOG_POLL_LOOP_ITERATIONS,            //@ob C13.watchdogs.flag.new.default_interval
            r.s_interval() >= 1,                                                //@ob C01.watchdogs.flag.new.interval_is_positive
//@end
}

//@extract file=src/watchdog.rs path="impl Watchdog for FlagWatchdog" kind=type props=C13,C01 id=FlagWatchdog::Watchdog
//@rw R-SIG
//@old
fn should_stop(&self) -> bool {
//@new
closed spec fn stops_now(&self) -> bool { flag_value(self.flag) }             //@ob C13.watchdogs.flag.answers_the_flag
    closed spec fn interval(&self) -> usize { self.poll_loop_iterations }        //@ob C13.watchdogs.flag.polled_as_often_as_told
    fn should_stop(&self) -> (r: bool) {
//@rw R-SIG
//@old
fn poll_every(&self) -> usize {
//@new
fn poll_every(&self) -> (r: usize) {
//@rw R-CALL
//@old
self.flag.load(Ordering::Relaxed)
//@new
vx_flag_load(&self.flag, Ordering::Relaxed)
//@end

// client harnesses: what the polled loops need of the shipped watchdogs
fn client_lazy_never_stops_and_interval_positive(w: &LazyWatchdog) {
    let p = w.poll_every();
    assert(p >= 1);                                                             //@ob C01.watchdogs.lazy.interval_is_positive
    let s = w.should_stop();
    assert(!s);                                                                 //@ob C13.watchdogs.lazy.never_stops
}
fn client_flag_default(flag: Arc<AtomicBool>) {
    let w = FlagWatchdog::new(flag);
    let p = w.poll_every();
    assert(p == w.s_interval());
    assert(p >= 1);                                                             //@ob C01.watchdogs.flag.new.interval_is_positive
    let s = w.should_stop();
    assert(s == flag_value(w.s_flag()));                                      //@ob C13.watchdogs.flag.answers_the_flag
}

} // verus!
fn main() {}
