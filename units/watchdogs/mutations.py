#!/usr/bin/env python3
"""Mutation test of unit watchdogs: property-breaking edits must be `failed`, harmless refactors `ok`.
usage: python3 units/watchdogs/mutations.py   (creates and removes the scratch worktree /tmp/wt_watchdogs)"""
import subprocess, sys, os
WT = '/tmp/wt_watchdogs'
def sh(c): return subprocess.run(c, shell=True, capture_output=True, text=True)
BREAK = [
 ('src/watchdog.rs', '    fn should_stop(&self) -> bool {\n        false', '    fn should_stop(&self) -> bool {\n        true', 'lazy watchdog stops'),
 ('src/watchdog.rs', '1_000_000_000_000', '0', 'lazy watchdog interval 0 (every loop divides by zero)'),
 ('src/watchdog.rs', 'let poll_loop_iterations = DEFAULT_WATCHDOG_POLL_LOOP_ITERATIONS;', 'let poll_loop_iterations = DEFAULT_WATCHDOG_POLL_LOOP_ITERATIONS - 100;', 'flag watchdog default interval 0'),
 ('src/watchdog.rs', 'self.flag.load(Ordering::Relaxed)', '!self.flag.load(Ordering::Relaxed)', 'flag watchdog answers the negation'),
 ('src/watchdog.rs', '    fn poll_every(&self) -> usize {\n        self.poll_loop_iterations', '    fn poll_every(&self) -> usize {\n        DEFAULT_WATCHDOG_POLL_LOOP_ITERATIONS', 'flag watchdog ignores the requested interval'),
 ('src/constant.rs', 'pub const DEFAULT_WATCHDOG_POLL_LOOP_ITERATIONS: usize = 100;', 'pub const DEFAULT_WATCHDOG_POLL_LOOP_ITERATIONS: usize = 0;', 'default interval constant 0'),
]
KEEP = [
 ('src/watchdog.rs', 'let poll_loop_iterations = DEFAULT_WATCHDOG_POLL_LOOP_ITERATIONS;\n        Self {\n            flag,\n            poll_loop_iterations,\n        }', 'Self {\n            flag,\n            poll_loop_iterations: DEFAULT_WATCHDOG_POLL_LOOP_ITERATIONS,\n        }', 'inlined let'),
 ('src/constant.rs', 'pub const DEFAULT_WATCHDOG_POLL_LOOP_ITERATIONS: usize = 100;', 'pub const DEFAULT_WATCHDOG_POLL_LOOP_ITERATIONS: usize = 250;', 'another positive default'),
]
def run(edits, expect):
    bad = 0
    for f, a, b, what in edits:
        sh(f'git -C {WT} checkout -- .')
        p = os.path.join(WT, f); s = open(p).read()
        if a not in s: print('ANCHOR LOST', what); bad += 1; continue
        open(p, 'w').write(s.replace(a, b, 1))
        if sh(f'cd {WT} && cargo check --offline -q 2>&1 | grep -c "^error"').stdout.strip() not in ('0', ''):
            print('DOES NOT COMPILE', what); bad += 1; continue
        r = sh(f'cd /verif && VX_REPO={WT} python3 vx/vx.py unit watchdogs --raw')
        st = r.stdout.split('status=')[1].split()[0] if 'status=' in r.stdout else '?'
        labs = [l.strip()[:160] for l in r.stdout.splitlines() if 'FAIL' in l]
        print(f'{"OK " if st == expect else "BAD"} {what}: status={st}', *labs[:2], sep='\n      ' if labs else ' ')
        bad += st != expect
    return bad
sh(f'git -C /repo worktree remove --force {WT}'); sh(f'git -C /repo worktree add --detach {WT} HEAD')
n = run(BREAK, 'failed') + run(KEEP, 'ok')
sh(f'git -C /repo worktree remove --force {WT}')
print('mutations: unexpected =', n); sys.exit(1 if n else 0)
