//@unit props=C18,C01
// Unit value_size — property C18 "values stay within the size limit and report their true size":
// the constructors of src/vm/value/mod.rs (`RSV::new` and its wrappers, `TCSV::new`), the size
// recomputation of `SymbolicValue::{constant_fold, transform_data}`, `SymbolicValueData::child_size`
// and `ValueBuilder::*` (src/vm/mod.rs) against the node-count model
//     nodes(v) = 1 + Σ nodes(child).
use vstd::prelude::*;
use std::sync::Arc;
//@include common/value_tree_items.rs
verus! {

// ---------------- model: the true number of nodes ----------------
pub open spec fn nodes<A>(v: SymbolicValue<A>) -> nat
    decreases v
{
    1 + child_nodes(v.dt())
}
pub open spec fn seq_nodes<A>(s: Seq<BoxedVal<A>>) -> nat
    decreases s
{
    if s.len() == 0 { 0 } else { seq_nodes(s.drop_last()) + nodes(*s.last()) }
}
pub open spec fn span_nodes<A>(s: Seq<PackedSpan<A>>) -> nat
    decreases s
{
    if s.len() == 0 { 0 } else { span_nodes(s.drop_last()) + nodes(*s.last().value) }
}
/// the memoised `size` field is the true node count
pub open spec fn sized<A>(v: SymbolicValue<A>) -> bool { v.sz() == nodes(v) }
pub open spec fn seq_sized<A>(s: Seq<BoxedVal<A>>) -> bool { forall|i: int| 0 <= i < s.len() ==> sized(*#[trigger] s[i]) }
pub open spec fn span_sized<A>(s: Seq<PackedSpan<A>>) -> bool { forall|i: int| 0 <= i < s.len() ==> sized(*(#[trigger] s[i]).value) }
pub open spec fn seq_sz<A>(s: Seq<BoxedVal<A>>) -> nat
    decreases s.len()
{
    if s.len() == 0 { 0 } else { seq_sz(s.drop_last()) + s.last().sz() as nat }
}
pub open spec fn span_sz<A>(s: Seq<PackedSpan<A>>) -> nat
    decreases s.len()
{
    if s.len() == 0 { 0 } else { span_sz(s.drop_last()) + s.last().value.sz() as nat }
}

/// Σ of the `size` fields of the direct children (what `child_size` must return)
pub open spec fn sz_sum<A>(d: SVD<A>) -> nat {
    match d {
        SVD::Value { .. } => 0nat,
        SVD::KnownData { .. } => 0nat,
        SVD::Add { left, right } => left.sz() as nat + right.sz() as nat,
        SVD::Multiply { left, right } => left.sz() as nat + right.sz() as nat,
        SVD::Subtract { left, right } => left.sz() as nat + right.sz() as nat,
        SVD::Divide { dividend, divisor } => dividend.sz() as nat + divisor.sz() as nat,
        SVD::SignedDivide { dividend, divisor } => dividend.sz() as nat + divisor.sz() as nat,
        SVD::Modulo { dividend, divisor } => dividend.sz() as nat + divisor.sz() as nat,
        SVD::SignedModulo { dividend, divisor } => dividend.sz() as nat + divisor.sz() as nat,
        SVD::Exp { value, exponent } => value.sz() as nat + exponent.sz() as nat,
        SVD::SignExtend { size, value } => size.sz() as nat + value.sz() as nat,
        SVD::CallWithValue { gas, address, value, argument_data, ret_offset, ret_size } => gas.sz() as nat + address.sz() as nat + value.sz() as nat + argument_data.sz() as nat + ret_offset.sz() as nat + ret_size.sz() as nat,
        SVD::CallWithoutValue { gas, address, argument_data, ret_offset, ret_size } => gas.sz() as nat + address.sz() as nat + argument_data.sz() as nat + ret_offset.sz() as nat + ret_size.sz() as nat,
        SVD::Sha3 { data } => data.sz() as nat,
        SVD::Address => 0nat,
        SVD::Balance { address } => address.sz() as nat,
        SVD::Origin => 0nat,
        SVD::Caller => 0nat,
        SVD::CallValue => 0nat,
        SVD::GasPrice => 0nat,
        SVD::ExtCodeHash { address } => address.sz() as nat,
        SVD::BlockHash { block_number } => block_number.sz() as nat,
        SVD::CoinBase => 0nat,
        SVD::BlockTimestamp => 0nat,
        SVD::BlockNumber => 0nat,
        SVD::Prevrandao => 0nat,
        SVD::GasLimit => 0nat,
        SVD::ChainId => 0nat,
        SVD::SelfBalance => 0nat,
        SVD::BaseFee => 0nat,
        SVD::Gas => 0nat,
        SVD::Log { data, topics } => data.sz() as nat + seq_sz(topics@),
        SVD::Create { value, data } => value.sz() as nat + data.sz() as nat,
        SVD::Create2 { value, salt, data } => value.sz() as nat + salt.sz() as nat + data.sz() as nat,
        SVD::SelfDestruct { target } => target.sz() as nat,
        SVD::LessThan { left, right } => left.sz() as nat + right.sz() as nat,
        SVD::GreaterThan { left, right } => left.sz() as nat + right.sz() as nat,
        SVD::SignedLessThan { left, right } => left.sz() as nat + right.sz() as nat,
        SVD::SignedGreaterThan { left, right } => left.sz() as nat + right.sz() as nat,
        SVD::Equals { left, right } => left.sz() as nat + right.sz() as nat,
        SVD::IsZero { number } => number.sz() as nat,
        SVD::And { left, right } => left.sz() as nat + right.sz() as nat,
        SVD::Or { left, right } => left.sz() as nat + right.sz() as nat,
        SVD::Xor { left, right } => left.sz() as nat + right.sz() as nat,
        SVD::Not { value } => value.sz() as nat,
        SVD::LeftShift { shift, value } => shift.sz() as nat + value.sz() as nat,
        SVD::RightShift { shift, value } => shift.sz() as nat + value.sz() as nat,
        SVD::ArithmeticRightShift { shift, value } => shift.sz() as nat + value.sz() as nat,
        SVD::CallData { offset, size, .. } => offset.sz() as nat + size.sz() as nat,
        SVD::CallDataSize => 0nat,
        SVD::CodeCopy { offset, size } => offset.sz() as nat + size.sz() as nat,
        SVD::ExtCodeSize { address } => address.sz() as nat,
        SVD::ExtCodeCopy { address, offset, size } => address.sz() as nat + offset.sz() as nat + size.sz() as nat,
        SVD::ReturnData { offset, size } => offset.sz() as nat + size.sz() as nat,
        SVD::Return { data } => data.sz() as nat,
        SVD::Revert { data } => data.sz() as nat,
        SVD::UnwrittenStorageValue { key } => key.sz() as nat,
        SVD::SLoad { key, value } => key.sz() as nat + value.sz() as nat,
        SVD::StorageSlot { key } => key.sz() as nat,
        SVD::StorageWrite { key, value } => key.sz() as nat + value.sz() as nat,
        SVD::Concat { values } => seq_sz(values@),
        SVD::MappingIndex { slot, key, .. } => slot.sz() as nat + key.sz() as nat,
        SVD::DynamicArrayIndex { slot, index } => slot.sz() as nat + index.sz() as nat,
        SVD::SubWord { value, .. } => value.sz() as nat,
        SVD::Shifted { value, .. } => value.sz() as nat,
        SVD::Packed { elements } => span_sz(elements@),
    }
}
/// number of nodes strictly below a node with payload `d`
pub open spec fn child_nodes<A>(d: SVD<A>) -> nat
    decreases d
{
    match d {
        SVD::Value { .. } => 0nat,
        SVD::KnownData { .. } => 0nat,
        SVD::Add { left, right } => nodes(*left) + nodes(*right),
        SVD::Multiply { left, right } => nodes(*left) + nodes(*right),
        SVD::Subtract { left, right } => nodes(*left) + nodes(*right),
        SVD::Divide { dividend, divisor } => nodes(*dividend) + nodes(*divisor),
        SVD::SignedDivide { dividend, divisor } => nodes(*dividend) + nodes(*divisor),
        SVD::Modulo { dividend, divisor } => nodes(*dividend) + nodes(*divisor),
        SVD::SignedModulo { dividend, divisor } => nodes(*dividend) + nodes(*divisor),
        SVD::Exp { value, exponent } => nodes(*value) + nodes(*exponent),
        SVD::SignExtend { size, value } => nodes(*size) + nodes(*value),
        SVD::CallWithValue { gas, address, value, argument_data, ret_offset, ret_size } => nodes(*gas) + nodes(*address) + nodes(*value) + nodes(*argument_data) + nodes(*ret_offset) + nodes(*ret_size),
        SVD::CallWithoutValue { gas, address, argument_data, ret_offset, ret_size } => nodes(*gas) + nodes(*address) + nodes(*argument_data) + nodes(*ret_offset) + nodes(*ret_size),
        SVD::Sha3 { data } => nodes(*data),
        SVD::Address => 0nat,
        SVD::Balance { address } => nodes(*address),
        SVD::Origin => 0nat,
        SVD::Caller => 0nat,
        SVD::CallValue => 0nat,
        SVD::GasPrice => 0nat,
        SVD::ExtCodeHash { address } => nodes(*address),
        SVD::BlockHash { block_number } => nodes(*block_number),
        SVD::CoinBase => 0nat,
        SVD::BlockTimestamp => 0nat,
        SVD::BlockNumber => 0nat,
        SVD::Prevrandao => 0nat,
        SVD::GasLimit => 0nat,
        SVD::ChainId => 0nat,
        SVD::SelfBalance => 0nat,
        SVD::BaseFee => 0nat,
        SVD::Gas => 0nat,
        SVD::Log { data, topics } => nodes(*data) + seq_nodes(topics@),
        SVD::Create { value, data } => nodes(*value) + nodes(*data),
        SVD::Create2 { value, salt, data } => nodes(*value) + nodes(*salt) + nodes(*data),
        SVD::SelfDestruct { target } => nodes(*target),
        SVD::LessThan { left, right } => nodes(*left) + nodes(*right),
        SVD::GreaterThan { left, right } => nodes(*left) + nodes(*right),
        SVD::SignedLessThan { left, right } => nodes(*left) + nodes(*right),
        SVD::SignedGreaterThan { left, right } => nodes(*left) + nodes(*right),
        SVD::Equals { left, right } => nodes(*left) + nodes(*right),
        SVD::IsZero { number } => nodes(*number),
        SVD::And { left, right } => nodes(*left) + nodes(*right),
        SVD::Or { left, right } => nodes(*left) + nodes(*right),
        SVD::Xor { left, right } => nodes(*left) + nodes(*right),
        SVD::Not { value } => nodes(*value),
        SVD::LeftShift { shift, value } => nodes(*shift) + nodes(*value),
        SVD::RightShift { shift, value } => nodes(*shift) + nodes(*value),
        SVD::ArithmeticRightShift { shift, value } => nodes(*shift) + nodes(*value),
        SVD::CallData { offset, size, .. } => nodes(*offset) + nodes(*size),
        SVD::CallDataSize => 0nat,
        SVD::CodeCopy { offset, size } => nodes(*offset) + nodes(*size),
        SVD::ExtCodeSize { address } => nodes(*address),
        SVD::ExtCodeCopy { address, offset, size } => nodes(*address) + nodes(*offset) + nodes(*size),
        SVD::ReturnData { offset, size } => nodes(*offset) + nodes(*size),
        SVD::Return { data } => nodes(*data),
        SVD::Revert { data } => nodes(*data),
        SVD::UnwrittenStorageValue { key } => nodes(*key),
        SVD::SLoad { key, value } => nodes(*key) + nodes(*value),
        SVD::StorageSlot { key } => nodes(*key),
        SVD::StorageWrite { key, value } => nodes(*key) + nodes(*value),
        SVD::Concat { values } => seq_nodes(values@),
        SVD::MappingIndex { slot, key, .. } => nodes(*slot) + nodes(*key),
        SVD::DynamicArrayIndex { slot, index } => nodes(*slot) + nodes(*index),
        SVD::SubWord { value, .. } => nodes(*value),
        SVD::Shifted { value, .. } => nodes(*value),
        SVD::Packed { elements } => span_nodes(elements@),
    }
}
/// every direct child reports its true size
pub open spec fn children_sized<A>(d: SVD<A>) -> bool {
    match d {
        SVD::Value { .. } => true,
        SVD::KnownData { .. } => true,
        SVD::Add { left, right } => sized(*left) && sized(*right),
        SVD::Multiply { left, right } => sized(*left) && sized(*right),
        SVD::Subtract { left, right } => sized(*left) && sized(*right),
        SVD::Divide { dividend, divisor } => sized(*dividend) && sized(*divisor),
        SVD::SignedDivide { dividend, divisor } => sized(*dividend) && sized(*divisor),
        SVD::Modulo { dividend, divisor } => sized(*dividend) && sized(*divisor),
        SVD::SignedModulo { dividend, divisor } => sized(*dividend) && sized(*divisor),
        SVD::Exp { value, exponent } => sized(*value) && sized(*exponent),
        SVD::SignExtend { size, value } => sized(*size) && sized(*value),
        SVD::CallWithValue { gas, address, value, argument_data, ret_offset, ret_size } => sized(*gas) && sized(*address) && sized(*value) && sized(*argument_data) && sized(*ret_offset) && sized(*ret_size),
        SVD::CallWithoutValue { gas, address, argument_data, ret_offset, ret_size } => sized(*gas) && sized(*address) && sized(*argument_data) && sized(*ret_offset) && sized(*ret_size),
        SVD::Sha3 { data } => sized(*data),
        SVD::Address => true,
        SVD::Balance { address } => sized(*address),
        SVD::Origin => true,
        SVD::Caller => true,
        SVD::CallValue => true,
        SVD::GasPrice => true,
        SVD::ExtCodeHash { address } => sized(*address),
        SVD::BlockHash { block_number } => sized(*block_number),
        SVD::CoinBase => true,
        SVD::BlockTimestamp => true,
        SVD::BlockNumber => true,
        SVD::Prevrandao => true,
        SVD::GasLimit => true,
        SVD::ChainId => true,
        SVD::SelfBalance => true,
        SVD::BaseFee => true,
        SVD::Gas => true,
        SVD::Log { data, topics } => sized(*data) && seq_sized(topics@),
        SVD::Create { value, data } => sized(*value) && sized(*data),
        SVD::Create2 { value, salt, data } => sized(*value) && sized(*salt) && sized(*data),
        SVD::SelfDestruct { target } => sized(*target),
        SVD::LessThan { left, right } => sized(*left) && sized(*right),
        SVD::GreaterThan { left, right } => sized(*left) && sized(*right),
        SVD::SignedLessThan { left, right } => sized(*left) && sized(*right),
        SVD::SignedGreaterThan { left, right } => sized(*left) && sized(*right),
        SVD::Equals { left, right } => sized(*left) && sized(*right),
        SVD::IsZero { number } => sized(*number),
        SVD::And { left, right } => sized(*left) && sized(*right),
        SVD::Or { left, right } => sized(*left) && sized(*right),
        SVD::Xor { left, right } => sized(*left) && sized(*right),
        SVD::Not { value } => sized(*value),
        SVD::LeftShift { shift, value } => sized(*shift) && sized(*value),
        SVD::RightShift { shift, value } => sized(*shift) && sized(*value),
        SVD::ArithmeticRightShift { shift, value } => sized(*shift) && sized(*value),
        SVD::CallData { offset, size, .. } => sized(*offset) && sized(*size),
        SVD::CallDataSize => true,
        SVD::CodeCopy { offset, size } => sized(*offset) && sized(*size),
        SVD::ExtCodeSize { address } => sized(*address),
        SVD::ExtCodeCopy { address, offset, size } => sized(*address) && sized(*offset) && sized(*size),
        SVD::ReturnData { offset, size } => sized(*offset) && sized(*size),
        SVD::Return { data } => sized(*data),
        SVD::Revert { data } => sized(*data),
        SVD::UnwrittenStorageValue { key } => sized(*key),
        SVD::SLoad { key, value } => sized(*key) && sized(*value),
        SVD::StorageSlot { key } => sized(*key),
        SVD::StorageWrite { key, value } => sized(*key) && sized(*value),
        SVD::Concat { values } => seq_sized(values@),
        SVD::MappingIndex { slot, key, .. } => sized(*slot) && sized(*key),
        SVD::DynamicArrayIndex { slot, index } => sized(*slot) && sized(*index),
        SVD::SubWord { value, .. } => sized(*value),
        SVD::Shifted { value, .. } => sized(*value),
        SVD::Packed { elements } => span_sized(elements@),
    }
}


// ---------------- lemmas ----------------
proof fn lemma_seq_sized<A>(s: Seq<BoxedVal<A>>)
    requires seq_sized(s)
    ensures seq_sz(s) == seq_nodes(s)
    decreases s.len()
{
    if s.len() > 0 {
        assert(sized(*s[s.len() - 1]));
        assert forall|i: int| 0 <= i < s.drop_last().len() implies sized(*#[trigger] s.drop_last()[i]) by { assert(s.drop_last()[i] == s[i]); }
        lemma_seq_sized(s.drop_last());
    }
}
proof fn lemma_span_sized<A>(s: Seq<PackedSpan<A>>)
    requires span_sized(s)
    ensures span_sz(s) == span_nodes(s)
    decreases s.len()
{
    if s.len() > 0 {
        assert(sized(*s[s.len() - 1].value));
        assert forall|i: int| 0 <= i < s.drop_last().len() implies sized(*(#[trigger] s.drop_last()[i]).value) by { assert(s.drop_last()[i] == s[i]); }
        lemma_span_sized(s.drop_last());
    }
}
/// if every child reports its true size, the sum of the children's `size` fields is the true
/// number of nodes below the node
proof fn lemma_children_sized<A>(d: SVD<A>)
    requires children_sized(d)
    ensures sz_sum(d) == child_nodes(d)
{
    match d {
        SVD::Log { data, topics } => { lemma_seq_sized(topics@); }
        SVD::Concat { values } => { lemma_seq_sized(values@); }
        SVD::Packed { elements } => { lemma_span_sized(elements@); }
        _ => {}
    }
}

// ---------------- A-CALLEE: the iterator-adapter sums of child_size (R-OPAQUE) ----------------
// `xs.iter().map(|t| t.size()).sum::<usize>()` is outside Verus' subset (iterator adapters with
// closures). ASSUMED: it returns the sum of the elements' `size` fields; std's `Sum for usize`
// panics on overflow in debug/test builds, hence the precondition.
#[verifier::external_body]
fn sum_sizes<A>(xs: &Vec<BoxedVal<A>>) -> (r: usize)
    requires seq_sz(xs@) <= usize::MAX
    ensures r == seq_sz(xs@)
{ unimplemented!() }
#[verifier::external_body]
fn sum_span_sizes<A>(xs: &Vec<PackedSpan<A>>) -> (r: usize)
    requires span_sz(xs@) <= usize::MAX
    ensures r == span_sz(xs@)
{ unimplemented!() }

//@extract file=src/vm/value/mod.rs path="impl<AuxData> SymbolicValueData<AuxData>#2" kind=header
//@end
//@extract file=src/vm/value/mod.rs path="impl<AuxData> SymbolicValueData<AuxData>#2|fn child_size"
//@ret r
//@rw R-OPAQUE
//@old
topics.iter().map(|t| t.size()).sum::<usize>()
//@new
sum_sizes(topics)
//@rw R-OPAQUE
//@old
values.iter().map(|v| v.size()).sum()
//@new
sum_sizes(values)
//@rw R-OPAQUE
//@old
elements.iter().map(|s| s.value.size()).sum()
//@new
sum_span_sizes(elements)
//@spec
        requires
            sz_sum(*self) <= usize::MAX,
        ensures
            r == sz_sum(*self),                           //@ob C18.vs.child_size.sum_of_children
//@end

    // A-CALLEE: `SymbolicValueData::constant_fold` / `::transform` (the recursive traversal, iterator
    // adapters inside) return an uninterpreted payload; only determinism is assumed.
    #[verifier::external_body]
    pub fn constant_fold(&self) -> (r: Self) ensures r == cf(*self) { unimplemented!() }
    #[verifier::external_body]
    pub fn transform<F: Fn(&Self) -> Option<Self> + Copy>(&self, transform: F) -> (r: Self) ensures r == tf(*self, transform) { unimplemented!() }
}
pub uninterp spec fn cf<A>(d: SVD<A>) -> SVD<A>;
pub uninterp spec fn tf<A, F>(d: SVD<A>, f: F) -> SVD<A>;

pub open spec fn max1(limit: usize) -> nat { if limit >= 1 { limit as nat } else { 1nat } }

/// the whole postcondition of `RSV::new`, for its wrappers
pub open spec fn new_post(r: RSV, ip: u32, data: RSVD, prov: Provenance, limit: Option<usize>) -> bool {
    &&& r.sz() == 1 + sz_sum(r.dt())
    &&& (children_sized(data) ==> sized(r))
    &&& (limit matches Some(l) ==> {
            &&& r.sz() <= max1(l)
            &&& (children_sized(data) ==> nodes(r) <= max1(l))
            &&& (1 + sz_sum(data) <= l ==> r.dt() == data)
            &&& (1 + sz_sum(data) > l ==> r.dt() is Value && r.sz() == 1)
        })
    &&& (limit is None ==> r.dt() == data)
    &&& r.ip() == ip && r.prov() == prov
}

// ---------------- the constructors ----------------
//@extract file=src/vm/value/mod.rs path="impl RSV" kind=header
//@end
//@extract file=src/vm/value/mod.rs path="impl RSV|fn new"
//@ret r
//@spec
        requires
            sz_sum(data) < usize::MAX,       // the tree below has fewer than usize::MAX nodes (C01: `child_size() + 1`)
        ensures
            r.sz() == 1 + sz_sum(r.dt()),                                                          //@ob C18.vs.new.size_is_children_plus_one
            children_sized(data) ==> sized(*r),                                                    //@ob C18.vs.new.size_exact
            value_size_limit matches Some(limit) ==> r.sz() <= max1(limit),                        //@ob C18.vs.new.size_within_limit
            value_size_limit matches Some(limit) ==> children_sized(data) ==> nodes(*r) <= max1(limit),   //@ob C18.vs.new.nodes_within_limit
            value_size_limit matches Some(limit) ==> 1 + sz_sum(data) <= limit ==> r.dt() == data, //@ob C18.vs.new.kept_when_within_limit
            value_size_limit matches Some(limit) ==> 1 + sz_sum(data) > limit ==> r.dt() is Value && r.sz() == 1,   //@ob C18.vs.new.culled_to_fresh_value
            value_size_limit is None ==> r.dt() == data,                                           //@ob C18.vs.new.no_limit_untouched
            r.ip() == instruction_pointer && r.prov() == provenance && r.aux() == (),              //@ob C18.vs.new.frame
//@proof entry
        proof { if children_sized(data) { lemma_children_sized(data); } }
//@end

//@extract file=src/vm/value/mod.rs path="impl RSV|fn new_from_execution"
//@ret r
//@spec
        requires
            sz_sum(data) < usize::MAX,
        ensures
            new_post(*r, instruction_pointer, data, Provenance::Execution, value_size_limit),     //@ob C18.vs.new_from_execution.as_new
//@end

//@extract file=src/vm/value/mod.rs path="impl RSV|fn new_synthetic"
//@ret r
//@spec
        requires
            sz_sum(data) < usize::MAX,
        ensures
            new_post(*r, instruction_pointer, data, Provenance::Synthetic, None),                 //@ob C18.vs.new_synthetic.as_new_unlimited
//@end

//@extract file=src/vm/value/mod.rs path="impl RSV|fn new_value"
//@ret r
//@spec
        ensures
            r.dt() is Value && r.sz() == 1 && sized(*r),                                          //@ob C18.vs.new_value.leaf_size_one
            r.ip() == instruction_pointer && r.prov() == provenance,                              //@ob C18.vs.new_value.frame
//@end

//@extract file=src/vm/value/mod.rs path="impl RSV|fn new_known_value"
//@ret r
//@spec
        ensures
            r.sz() == 1 && sized(*r),                                                             //@ob C18.vs.new_known_value.leaf_size_one
            value_size_limit != Some(0usize) ==> r.dt() == (RSVD::KnownData { value: value_data }),   //@ob C18.vs.new_known_value.kept
            r.ip() == instruction_pointer && r.prov() == provenance,                              //@ob C18.vs.new_known_value.frame
//@end
}

//@extract file=src/vm/value/mod.rs path="impl TCSV" kind=header
//@end
//@extract file=src/vm/value/mod.rs path="impl TCSV|fn new"
//@ret r
//@spec
        requires
            sz_sum(data) < usize::MAX,
        ensures
            r.dt() == data,                                                                        //@ob C18.vs.tc_new.untouched
            r.sz() == 1 + sz_sum(data),                                                            //@ob C18.vs.tc_new.size_is_children_plus_one
            children_sized(data) ==> sized(*r),                                                    //@ob C18.vs.tc_new.size_exact
            r.ip() == instruction_pointer && r.prov() == provenance && r.aux() == aux_data,        //@ob C18.vs.tc_new.frame
//@proof entry
        proof { if children_sized(data) { lemma_children_sized(data); } }
//@end
}

// ---------------- size recomputation after a rewrite of the payload ----------------
//@extract file=src/vm/value/mod.rs path="impl<AuxData> SymbolicValue<AuxData>" kind=header id=SymbolicValue::impl#again
//@end
//@extract file=src/vm/value/mod.rs path="impl<AuxData> SymbolicValue<AuxData>|fn constant_fold"
//@ret r
//@spec
        requires
            sz_sum(cf(self.dt())) < usize::MAX,
        ensures
            r.dt() == cf(self.dt()),                                                               //@ob C18.vs.constant_fold.payload_is_folded
            r.sz() == 1 + sz_sum(r.dt()),                                                          //@ob C18.vs.constant_fold.size_recomputed
            children_sized(r.dt()) ==> sized(*r),                                                  //@ob C18.vs.constant_fold.size_exact
            r.ip() == self.ip() && r.prov() == self.prov(),                                        //@ob C18.vs.constant_fold.frame
//@proof before "Arc::new(Self {"
        proof { if children_sized(cf(self.dt())) { lemma_children_sized(cf(self.dt())); } }
//@end

//@extract file=src/vm/value/mod.rs path="impl<AuxData> SymbolicValue<AuxData>|fn transform_data"
//@ret r
//@spec
        requires
            sz_sum(tf(self.dt(), transform)) < usize::MAX,
        ensures
            r.dt() == tf(self.dt(), transform),                                                    //@ob C18.vs.transform_data.payload_is_transformed
            r.sz() == 1 + sz_sum(r.dt()),                                                          //@ob C18.vs.transform_data.size_recomputed
            children_sized(r.dt()) ==> sized(*r),                                                  //@ob C18.vs.transform_data.size_exact
            r.ip() == self.ip() && r.prov() == self.prov(),                                        //@ob C18.vs.transform_data.frame
//@proof before "Arc::new(Self {"
        proof { if children_sized(tf(self.dt(), transform)) { lemma_children_sized(tf(self.dt(), transform)); } }
//@end
}

// ---------------- the builder every opcode uses ----------------
//@extract file=src/vm/mod.rs path="struct Config" kind=type
//@end
// A-DERIVE: `#[derive(Clone)]` on Config (plain scalars) returns an equal value
impl Clone for Config {
    #[verifier::external_body]
    fn clone(&self) -> (r: Self) ensures r == *self { unimplemented!() }
}
//@extract file=src/vm/mod.rs path="struct ValueBuilder" kind=type
//@end
impl ValueBuilder {
    /// the configured limit on the number of nodes of a value
    pub closed spec fn limit(&self) -> usize { self.config.value_size_limit }
}

//@extract file=src/vm/mod.rs path="impl ValueBuilder" kind=header
//@end
//@extract file=src/vm/mod.rs path="impl ValueBuilder|fn new"
//@ret r
//@spec
        ensures
            r.limit() == config.value_size_limit,                                                  //@ob C18.vs.builder_new.limit_is_configured
//@end

//@extract file=src/vm/mod.rs path="impl ValueBuilder|fn value"
//@ret r
//@spec
        ensures
            r.dt() is Value && r.sz() == 1 && sized(*r),                                          //@ob C18.vs.builder_value.leaf_size_one
            nodes(*r) <= max1(self.limit()),                                                       //@ob C18.vs.builder_value.within_limit
//@end

//@extract file=src/vm/mod.rs path="impl ValueBuilder|fn symbolic"
//@ret r
//@spec
        requires
            sz_sum(data) < usize::MAX,
        ensures
            new_post(*r, instruction_pointer, data, provenance, Some(self.limit())),               //@ob C18.vs.builder_symbolic.built_under_the_limit
//@end

//@extract file=src/vm/mod.rs path="impl ValueBuilder|fn symbolic_exec"
//@ret r
//@spec
        requires
            sz_sum(data) < usize::MAX,
        ensures
            new_post(*r, instruction_pointer, data, Provenance::Execution, Some(self.limit())),    //@ob C18.vs.builder_symbolic_exec.built_under_the_limit
//@end

//@extract file=src/vm/mod.rs path="impl ValueBuilder|fn known"
//@ret r
//@spec
        ensures
            r.sz() == 1 && sized(*r) && nodes(*r) <= max1(self.limit()),                           //@ob C18.vs.builder_known.leaf_within_limit
            self.limit() >= 1 ==> r.dt() == (RSVD::KnownData { value: value_data }),               //@ob C18.vs.builder_known.kept
//@end

//@extract file=src/vm/mod.rs path="impl ValueBuilder|fn known_exec"
//@ret r
//@spec
        ensures
            r.sz() == 1 && sized(*r) && nodes(*r) <= max1(self.limit()),                           //@ob C18.vs.builder_known_exec.leaf_within_limit
            self.limit() >= 1 ==> r.dt() == (RSVD::KnownData { value: value_data }),               //@ob C18.vs.builder_known_exec.kept
//@end
}

//@dropped SymbolicValueData::{transform, constant_fold, children}: recursive traversal with iterator adapters — assumed callees (uninterpreted result), not under contract
//@dropped child_size: the three iterator sums (Log.topics, Concat.values, Packed.elements) are R-OPAQUE stand-ins with the ASSUMED contract "sum of the elements' size fields"
//@dropped that every opcode builds its results through ValueBuilder is a grep-level side condition over src/opcode/*.rs, not proved
} // verus!
fn main() {}
