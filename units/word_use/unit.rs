//@unit props=C15,C16,C01
// Unit word_use — src/tc/expression.rs: `WordUse::{merge, size, is_definitely_signed}` against the
// usage lattice of C15 (merge = least upper bound, None exactly when no upper bound exists) and
// the algebraic laws C16 needs of it (symmetric, associative, idempotent), for all 8 usages.
use vstd::prelude::*;
verus! {
//@include word_use/items.rs
//@dropped impl Default for WordUse, impl Display for WordUse: not under contract (Display uses write!/format machinery outside Verus' subset; no listed property mentions them)

} // verus!
fn main() {}
