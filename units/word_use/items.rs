// WordUse under contract (shared by units word_use and merge): items extracted from
// src/tc/expression.rs and src/constant.rs with the usage-lattice contracts of C15/C16.
// Must be included inside verus!{}.

// ---------------- the usage lattice, written from C15's sentence ----------------------------------
// "a more specific usage such as address, signed or unsigned is kept"; contradictory = "incompatible
// usages".  Order of specificity (DESIGN §6 C15):
//        Bytes < Numeric < UnsignedNumeric < Address          Bytes < Bool
//                Numeric < SignedNumeric                      Bytes < Selector
//                                                             Bytes < Function
/// the covering relation of the order (one step more specific)
pub open spec fn covers(a: WordUse, b: WordUse) -> bool {
    ||| (a == WordUse::Bytes && (b == WordUse::Numeric || b == WordUse::Bool || b == WordUse::Selector || b == WordUse::Function))
    ||| (a == WordUse::Numeric && (b == WordUse::UnsignedNumeric || b == WordUse::SignedNumeric))
    ||| (a == WordUse::UnsignedNumeric && b == WordUse::Address)
}
/// `a` is at most as specific as `b`: reflexive-transitive closure of `covers` (chains have length <= 3)
pub open spec fn leq(a: WordUse, b: WordUse) -> bool {
    ||| a == b
    ||| covers(a, b)
    ||| (exists|m: WordUse| covers(a, m) && covers(m, b))
    ||| (exists|m: WordUse, n: WordUse| covers(a, m) && covers(m, n) && covers(n, b))
}
pub open spec fn upper_bound(a: WordUse, b: WordUse, c: WordUse) -> bool { leq(a, c) && leq(b, c) }
pub open spec fn is_lub(a: WordUse, b: WordUse, c: WordUse) -> bool {
    upper_bound(a, b, c) && forall|d: WordUse| upper_bound(a, b, d) ==> leq(c, d)
}
/// join of two usages: the least usage at least as specific as both; None when they are incompatible
pub open spec fn join_use(a: WordUse, b: WordUse) -> Option<WordUse> {
    if exists|c: WordUse| is_lub(a, b, c) { Some(choose|c: WordUse| is_lub(a, b, c)) } else { None }
}
/// closed form of `leq` (proved equal to it below; used to keep the solver's work small)
pub open spec fn leq_cf(a: WordUse, b: WordUse) -> bool {
    a == b || a == WordUse::Bytes
    || (a == WordUse::Numeric && (b == WordUse::UnsignedNumeric || b == WordUse::SignedNumeric || b == WordUse::Address))
    || (a == WordUse::UnsignedNumeric && b == WordUse::Address)
}
/// closed form of `join_use`: the order is a forest, so two usages with an upper bound are comparable
pub open spec fn join_use_cf(a: WordUse, b: WordUse) -> Option<WordUse> {
    if leq_cf(a, b) { Some(b) } else if leq_cf(b, a) { Some(a) } else { None }
}
/// fixed bit width of a usage (Solidity: bool is one byte, address 160 bits, selector 4 bytes,
/// external function = address + selector); the numeric and bytesN usages have no width of their own
pub open spec fn use_width(a: WordUse) -> Option<usize> {
    match a {
        WordUse::Bool => Some(8usize),
        WordUse::Address => Some(160usize),
        WordUse::Selector => Some(32usize),
        WordUse::Function => Some(192usize),
        _ => None,
    }
}
pub open spec fn lift_join(a: Option<WordUse>, b: WordUse) -> Option<WordUse> {
    match a { Some(x) => join_use(x, b), None => None }
}

pub proof fn lemma_leq_closed_form(a: WordUse, b: WordUse)
    ensures leq(a, b) == leq_cf(a, b)
{
    if leq_cf(a, b) && !leq(a, b) {
        // witnesses for the chains of length 2 and 3
        assert(covers(WordUse::Bytes, WordUse::Numeric));
        assert(covers(WordUse::Numeric, WordUse::UnsignedNumeric));
        assert(covers(WordUse::Numeric, WordUse::SignedNumeric));
        assert(covers(WordUse::UnsignedNumeric, WordUse::Address));
    }
}

/// the choose-based join coincides with its closed form
pub proof fn lemma_join_use_closed_form(a: WordUse, b: WordUse)
    ensures join_use(a, b) == join_use_cf(a, b)
{
    assert forall|x: WordUse, y: WordUse| leq(x, y) == leq_cf(x, y) by { lemma_leq_closed_form(x, y); }
    match join_use_cf(a, b) {
        Some(c) => {
            assert(is_lub(a, b, c));
            assert forall|d: WordUse| is_lub(a, b, d) implies d == c by { assert(leq(c, d) && leq(d, c)); }
        },
        None => {
            assert forall|d: WordUse| !upper_bound(a, b, d) by {}
            assert forall|d: WordUse| !is_lub(a, b, d) by {}
        },
    }
}

/// `leq` is a partial order and `join_use` is its least upper bound (None iff no upper bound exists)
pub proof fn lemma_join_use_is_join(a: WordUse, b: WordUse)
    ensures
        leq(a, a),                                                                       //@ob C15.wu.lattice.reflexive
        leq(a, b) && leq(b, a) ==> a == b,                                               //@ob C15.wu.lattice.antisymmetric
        forall|c: WordUse| leq(a, b) && leq(b, c) ==> leq(a, c),                         //@ob C15.wu.lattice.transitive
        forall|c: WordUse| join_use(a, b) == Some(c) ==> is_lub(a, b, c),                //@ob C15.wu.merge.is_join
        join_use(a, b) is None ==> forall|d: WordUse| !upper_bound(a, b, d),             //@ob C15.wu.merge.is_join
        join_use(a, a) == Some(a),                                                       //@ob C15.wu.merge.idempotent
{
    assert forall|x: WordUse, y: WordUse| leq(x, y) == leq_cf(x, y) by { lemma_leq_closed_form(x, y); }
    lemma_join_use_closed_form(a, b);
    lemma_join_use_closed_form(a, a);
}

pub proof fn lemma_join_use_symmetric(a: WordUse, b: WordUse)
    ensures join_use(a, b) == join_use(b, a),                                            //@ob C16.wu.merge.symmetric
{
    lemma_join_use_closed_form(a, b);
    lemma_join_use_closed_form(b, a);
}

pub proof fn lemma_join_use_associative(a: WordUse, b: WordUse, c: WordUse)
    ensures lift_join(join_use(a, b), c) == lift_join(join_use(b, c), a),                //@ob C16.wu.merge.associative
{
    assert forall|x: WordUse, y: WordUse| join_use(x, y) == join_use_cf(x, y) by { lemma_join_use_closed_form(x, y); }
}

// ---------------- extracted items -------------------------------------------------------------
//@extract file=src/constant.rs path="const BYTE_SIZE_BITS" kind=type
//@end
//@extract file=src/constant.rs path="const WORD_SIZE_BITS" kind=type
//@end
//@extract file=src/constant.rs path="const WORD_SIZE_BYTES" kind=type
//@end
//@extract file=src/constant.rs path="const BOOL_WIDTH_BITS" kind=type
//@end
//@extract file=src/constant.rs path="const ADDRESS_WIDTH_BITS" kind=type
//@end
//@extract file=src/constant.rs path="const SELECTOR_WIDTH_BITS" kind=type
//@end
//@extract file=src/constant.rs path="const FUNCTION_WIDTH_BITS" kind=type
//@end

// A-DERIVE: #[derive(Copy, Clone, Eq, PartialEq)] on the field-less enum WordUse is structural
#[derive(Copy, Clone, Eq, PartialEq, Structural)]
//@extract file=src/tc/expression.rs path="enum WordUse" kind=type
//@end

//@extract file=src/tc/expression.rs path="impl WordUse" kind=header
//@end

//@extract file=src/tc/expression.rs path="impl WordUse|fn size" props=C15,C01
//@ret r
//@spec
        ensures r == use_width(*self),                              //@ob C15.wu.size.fixed_width
//@end

//@extract file=src/tc/expression.rs path="impl WordUse|fn is_definitely_signed" props=C15,C01
//@ret r
//@spec
        ensures r == (*self == WordUse::SignedNumeric),             //@ob C15.wu.is_definitely_signed
//@end

//@extract file=src/tc/expression.rs path="impl WordUse|fn merge" props=C15,C16,C01
//@ret r
//@spec
        ensures r == join_use(self, other),                         //@ob C15.wu.merge.join C16.wu.merge.join
//@proof entry
        proof { lemma_join_use_closed_form(self, other); }
//@end
}
