#!/usr/bin/env python3
"""Mutation test of unit enumerate: property-breaking edits must be `failed`, harmless refactors `ok`.
usage: python3 units/enumerate/mutations.py   (creates and removes the scratch worktree /tmp/wt_enumerate)
(no `cargo check` of the mutants: every edit below is type-correct Rust by construction)"""
import subprocess, sys, os
WT = '/tmp/wt_enumerate'
VM, DS, CB = 'src/data/vector_map.rs', 'src/data/disjoint_set.rs', 'src/data/combine.rs'
def sh(c): return subprocess.run(c, shell=True, capture_output=True, text=True)
ITER_HEAD = 'pub fn iter(&self) -> impl Iterator<Item = (usize, &V)> {\n        self.data\n            .iter()\n'
BREAK = [
 (VM, '.map(|(i, v)| (i, v.as_ref().expect("Known Some was not Some")))\n    }\n\n    /// An iterator visiting all index-value pairs in arbitrary order. The\n    /// iterator element type is `(usize, &\'a V)`.\n    #[allow(clippy::missing_panics_doc)] // Cannot actually panic\n    pub fn iter_mut', '.map(|(i, v)| (i + 1, v.as_ref().expect("Known Some was not Some")))\n    }\n\n    /// x\n    pub fn iter_mut', 'iter reports index i + 1'),
 (VM, ITER_HEAD + '            .enumerate()\n            .filter(|(_, v)| v.is_some())', ITER_HEAD + '            .enumerate()\n            .filter(|(_, v)| v.is_none())', 'iter keeps the ABSENT slots (expect panics)'),
 (VM, ITER_HEAD + '            .enumerate()', ITER_HEAD + '            .skip(1)\n            .enumerate()', 'iter skips slot 0 (and shifts the indices)'),
 (VM, ITER_HEAD + '            .enumerate()', ITER_HEAD + '            .enumerate()\n            .skip(1)', 'iter drops slot 0'),
 (VM, "pub fn indices(&self) -> impl Iterator<Item = usize> + '_ {\n        self.data\n            .iter()\n            .enumerate()\n            .filter_map(|(i, v)| v.as_ref().map(|_| i))", "pub fn indices(&self) -> impl Iterator<Item = usize> + '_ {\n        self.data\n            .iter()\n            .enumerate()\n            .filter_map(|(i, v)| v.as_ref().map(|_| i + 1))", 'indices yields i + 1'),
 (VM, "pub fn indices(&self) -> impl Iterator<Item = usize> + '_ {\n        self.data\n            .iter()\n            .enumerate()", "pub fn indices(&self) -> impl Iterator<Item = usize> + '_ {\n        self.data\n            .iter()\n            .rev()\n            .enumerate()", 'indices numbers the slots from the back'),
 (VM, 'pub fn into_indices(self) -> impl Iterator<Item = usize> {\n        self.data\n            .into_iter()\n            .enumerate()', 'pub fn into_indices(self) -> impl Iterator<Item = usize> {\n        self.data\n            .into_iter()\n            .enumerate()\n            .skip(1)', 'into_indices drops slot 0'),
 (VM, 'self.data.iter().filter_map(Option::as_ref)', 'self.data.iter().rev().filter_map(Option::as_ref)', 'values in descending slot order'),
 (VM, 'self.data.iter().filter_map(Option::as_ref)', 'self.data.iter().skip(1).filter_map(Option::as_ref)', 'values drops slot 0'),
 (VM, 'self.data.into_iter().flatten()', 'self.data.into_iter().skip(1).flatten()', 'into_values drops slot 0'),
 (DS, 'self.reps.indices().map(Value::from_index).collect()', 'self.reps.indices().skip(1).map(Value::from_index).collect()', 'DisjointSet::values loses the first inserted value'),
 (DS, 'self.reps.indices().map(Value::from_index).collect()', 'self.reps.indices().map(|i| Value::from_index(i + 1)).collect()', 'DisjointSet::values maps from_index(i + 1)'),
 (CB, 'self.union(&other).cloned().collect()', 'self.intersection(&other).cloned().collect()', 'HashSet combine = intersection'),
 (CB, 'self.union(&other).cloned().collect()', 'self.difference(&other).cloned().collect()', 'HashSet combine = difference'),
 (CB, 'self.union(&other).cloned().collect()', 'self.union(&self).cloned().collect()', 'HashSet combine forgets `other`'),
]
KEEP = [
 (VM, ITER_HEAD + '            .enumerate()\n            .filter(|(_, v)| v.is_some())\n            .map(', '    pub fn iter(&self) -> impl Iterator<Item = (usize, &V)> {\n        self.data.iter().enumerate().filter(|(_, v)| v.is_some()).map('[4:], 'iter chain on one line'),
 (VM, 'v.as_ref().expect("Known Some was not Some")', 'v.as_ref().expect("present")', 'other panic message'),
 (VM, ITER_HEAD + '            .enumerate()\n            .filter(|(_, v)| v.is_some())', ITER_HEAD + '            .enumerate()\n            .filter(|(_, v)| !v.is_none())', 'is_some written as !is_none'),
 (CB, 'self.union(&other).cloned().collect()', 'let out: Self = self.union(&other).cloned().collect();\n        out', 'let-bound result'),
 (CB, 'self.union(&other).cloned().collect()', 'other.union(&self).cloned().collect()', 'union operands swapped (commutative)'),
 (DS, 'self.reps.indices().map(Value::from_index).collect()', 'let vs: Vec<Value> = self.reps.indices().map(Value::from_index).collect();\n        vs', 'let-bound result in DisjointSet::values'),
]
def run(edits, expect):
    bad = 0
    for f, a, b, what in edits:
        sh(f'git -C {WT} checkout -- .')
        p = os.path.join(WT, f); s = open(p).read()
        if a not in s: print('ANCHOR LOST', what); bad += 1; continue
        open(p, 'w').write(s.replace(a, b, 1))
        r = sh(f'cd /verif && VX_REPO={WT} python3 vx/vx.py unit enumerate --raw')
        st = r.stdout.split('status=')[1].split()[0] if 'status=' in r.stdout else '?'
        labs = [l.strip()[:170] for l in r.stdout.splitlines() if 'FAIL' in l]
        print(f'{"OK " if st == expect else "BAD"} {what}: status={st}', *labs[:2], sep='\n      ' if labs else ' ')
        if st not in (expect,) and not labs: print('      ' + r.stdout.strip()[:300])
        bad += st != expect
    return bad
sh(f'git -C /repo worktree remove --force {WT}'); sh(f'git -C /repo worktree add --detach {WT} HEAD')
n = run(BREAK, 'failed') + run(KEEP, 'ok')
sh(f'git -C /repo worktree remove --force {WT}')
print('mutations: unexpected =', n); sys.exit(1 if n else 0)
