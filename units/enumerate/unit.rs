//@unit props=C19,C01
// Unit enumerate — the ENUMERATION half of C19: VectorMap::{iter, indices, into_indices, values,
// into_values} (src/data/vector_map.rs), DisjointSet::values (src/data/disjoint_set.rs) and the
// HashSet instance of Combine (src/data/combine.rs).
//
// Technique: only the HEAD of each iterator chain is abstracted (R-CALL `self.data.iter()` ->
// `vx_iter(&self.data)`); the adapter chain and the closures stay verbatim, the receiver being the
// stand-in `VxIter<T>` (viewed as the sequence `seq()` it will yield) whose methods are named like the
// std adapters and carry assumed Seq specifications (A-STD) phrased with the closures' ensures.
// Closures get type/ensures annotations by R-SIG with the BODY carried over by a `$n` wildcard.
// Model: `somes(s)` = the Some-entries of s in order; `entries(d)` = [(i, v) | i <- 0..d.len(), d[i] == Some(v)].
use vstd::prelude::*;
use std::marker::PhantomData;
use std::{fmt::Debug, hash::Hash, hash::BuildHasher};
verus! {
//@include common/vector_map_items.rs
//@dropped DisjointSet::sets: its `.map` closure mutates `self.data` (`self.data.insert(&k, Data::default())`); Verus 0.2026.09.13 rejects it ("does not currently support closures capturing a mutable reference"), so the one-pair-per-root / accumulated-data-at-enumeration clause of C19 is NOT under contract here
//@dropped VectorMap::iter_mut: yields `&mut V` items, outside Verus' subset
//@dropped impl Combine for Option<A>: not part of this unit

// ---------------------------------------------------------------------------------------------
// Model of an enumeration
// ---------------------------------------------------------------------------------------------
/// the present entries of `s`, in order
pub open spec fn somes<U>(s: Seq<Option<U>>) -> Seq<U>
    decreases s.len()
{
    if s.len() == 0 { Seq::empty() } else if s.last().is_some() { somes(s.drop_last()).push(s.last().unwrap()) } else { somes(s.drop_last()) }
}
/// every slot tagged with its index
pub open spec fn tagged<V>(d: Seq<Option<V>>) -> Seq<Option<(usize, V)>> {
    Seq::new(d.len(), |i: int| match d[i] { Some(v) => Some((i as usize, v)), None => None })
}
/// the list comprehension [(i, v) | i <- 0..d.len(), d[i] == Some(v)]
pub open spec fn entries<V>(d: Seq<Option<V>>) -> Seq<(usize, V)> { somes(tagged(d)) }
/// `keep`-selected elements as an option sequence
pub open spec fn mask<T>(s: Seq<T>, keep: Seq<bool>) -> Seq<Option<T>> {
    Seq::new(s.len(), |i: int| if keep[i] { Some(s[i]) } else { None })
}

pub proof fn lemma_somes_rel<A, B>(a: Seq<Option<A>>, b: Seq<Option<B>>, rel: spec_fn(A, B) -> bool)
    requires a.len() == b.len(),
        forall|i: int| 0 <= i < a.len() ==> (a[i].is_some() == b[i].is_some()) && (a[i].is_some() ==> rel(a[i].unwrap(), b[i].unwrap())),
    ensures somes(a).len() == somes(b).len(),
        forall|j: int| 0 <= j < somes(a).len() ==> rel(#[trigger] somes(a)[j], somes(b)[j]),
    decreases a.len()
{
    if a.len() > 0 {
        lemma_somes_rel(a.drop_last(), b.drop_last(), rel);
    }
}
pub proof fn lemma_somes_len<A>(a: Seq<Option<A>>)
    ensures somes(a).len() == count_some(a),
    decreases a.len()
{
    if a.len() > 0 { lemma_somes_len(a.drop_last()); }
}
pub proof fn lemma_entries_len<V>(d: Seq<Option<V>>)
    ensures entries(d).len() == count_some(d), somes(d).len() == count_some(d),
{
    lemma_somes_rel(tagged(d), d, |a: (usize, V), b: V| true);
    lemma_somes_len(d);
}


/// C19 reading of the model: `entries(d)` holds EXACTLY the present slots, each once, in ascending index order
pub proof fn lemma_entries_char<V>(d: Seq<Option<V>>)
    requires d.len() <= usize::MAX
    ensures
        forall|j: int| 0 <= j < entries(d).len() ==> (#[trigger] entries(d)[j]).0 < d.len() && d[entries(d)[j].0 as int] == Some(entries(d)[j].1),   //@ob C19.enumerate.model.only_present
        forall|j: int, k: int| 0 <= j < k < entries(d).len() ==> (#[trigger] entries(d)[j]).0 < (#[trigger] entries(d)[k]).0,                       //@ob C19.enumerate.model.ascending_each_once
        forall|i: int| 0 <= i < d.len() && (#[trigger] d[i]).is_some() ==> exists|j: int| 0 <= j < entries(d).len() && entries(d)[j] == (i as usize, d[i].unwrap()),   //@ob C19.enumerate.model.all_present
    decreases d.len()
{
    if d.len() > 0 {
        let p = d.drop_last();
        lemma_entries_char(p);
        assert(tagged(d).drop_last() =~= tagged(p));
        let e = entries(d); let ep = entries(p);
        assert forall|i: int| 0 <= i < d.len() && (#[trigger] d[i]).is_some() implies exists|j: int| 0 <= j < e.len() && e[j] == (i as usize, d[i].unwrap()) by {
            if i < d.len() - 1 {
                assert(p[i] == d[i]);
                let j = choose|j: int| 0 <= j < ep.len() && ep[j] == (i as usize, p[i].unwrap());
                assert(e[j] == ep[j]);
            } else {
                assert(e[e.len() - 1] == (i as usize, d[i].unwrap()));
            }
        }
        assert forall|j: int| 0 <= j < e.len() implies (#[trigger] e[j]).0 < d.len() && d[e[j].0 as int] == Some(e[j].1) by {
            if j < ep.len() { assert(e[j] == ep[j]); assert(p[ep[j].0 as int] == d[ep[j].0 as int]); }
        }
        assert forall|j: int, k: int| 0 <= j < k < e.len() implies (#[trigger] e[j]).0 < (#[trigger] e[k]).0 by {
            assert(e[j] == ep[j]);
            if k < ep.len() { assert(e[k] == ep[k]); }
        }
    }
}

// ---------------------------------------------------------------------------------------------
// Stand-ins for the iterator pipeline (A-STD): an iterator is viewed as the sequence of items it will yield
// ---------------------------------------------------------------------------------------------
#[verifier::external_body]
#[verifier::reject_recursive_types(T)]
pub struct VxIter<T> { _v: Vec<T> }

impl<T> VxIter<T> {
    pub uninterp spec fn seq(&self) -> Seq<T>;
    // A-STD: `Iterator::enumerate`: every item paired with its position, same order
    #[verifier::external_body]
    pub fn enumerate(self) -> (r: VxIter<(usize, T)>)
        ensures r.seq().len() == self.seq().len(),
            forall|i: int| 0 <= i < self.seq().len() ==> #[trigger] r.seq()[i] == (i as usize, self.seq()[i]),
    { unimplemented!() }
    // A-STD: `Iterator::filter`: the predicate is called once per item (`keep` = what it returned), exactly the
    // items it accepted are yielded, in order
    #[verifier::external_body]
    pub fn filter<F: Fn(&T) -> bool>(self, f: F) -> (r: VxIter<T>)
        requires forall|i: int| 0 <= i < self.seq().len() ==> f.requires((&#[trigger] self.seq()[i],)),
        ensures exists|keep: Seq<bool>| keep.len() == self.seq().len()
            && (forall|i: int| 0 <= i < self.seq().len() ==> f.ensures((&self.seq()[i],), #[trigger] keep[i]))
            && r.seq() == somes(mask(self.seq(), keep)),
    { unimplemented!() }
    // A-STD: `Iterator::map`: the closure is called once per item, results in the same order
    #[verifier::external_body]
    pub fn map<U, F: Fn(T) -> U>(self, f: F) -> (r: VxIter<U>)
        requires forall|i: int| 0 <= i < self.seq().len() ==> f.requires((#[trigger] self.seq()[i],)),
        ensures r.seq().len() == self.seq().len(),
            forall|i: int| 0 <= i < self.seq().len() ==> f.ensures((self.seq()[i],), #[trigger] r.seq()[i]),
    { unimplemented!() }
    // A-STD: `Iterator::filter_map`: the closure is called once per item (`mid` = what it returned), the
    // payloads of its Some results are yielded, in order
    #[verifier::external_body]
    pub fn filter_map<U, F: Fn(T) -> Option<U>>(self, f: F) -> (r: VxIter<U>)
        requires forall|i: int| 0 <= i < self.seq().len() ==> f.requires((#[trigger] self.seq()[i],)),
        ensures exists|mid: Seq<Option<U>>| mid.len() == self.seq().len()
            && (forall|i: int| 0 <= i < self.seq().len() ==> f.ensures((self.seq()[i],), #[trigger] mid[i]))
            && r.seq() == somes(mid),
    { unimplemented!() }
    // A-STD: `Iterator::skip`: the items from position n on (not used by the pinned code; lets such an edit reach the verifier)
    #[verifier::external_body]
    pub fn skip(self, n: usize) -> (r: VxIter<T>)
        ensures r.seq() == self.seq().subrange(if n <= self.seq().len() { n as int } else { self.seq().len() as int }, self.seq().len() as int),
    { unimplemented!() }
    // A-STD: `Iterator::rev`: the items in reverse order (not used by the pinned code; lets such an edit reach the verifier)
    #[verifier::external_body]
    pub fn rev(self) -> (r: VxIter<T>) ensures r.seq() == self.seq().reverse() { unimplemented!() }
    // A-STD: `Iterator::collect::<Vec<_>>`: the items in order
    #[verifier::external_body]
    pub fn collect(self) -> (r: Vec<T>) ensures r@ == self.seq() { unimplemented!() }
}
impl<U> VxIter<Option<U>> {
    // A-STD: `Iterator::flatten` over Option items: the payloads of the Some items, in order
    #[verifier::external_body]
    pub fn flatten(self) -> (r: VxIter<U>) ensures r.seq() == somes(self.seq()) { unimplemented!() }
}
// A-STD: `slice::iter` yields a reference to every element, in index order
#[verifier::external_body]
pub fn vx_iter<'a, T>(v: &'a Vec<T>) -> (r: VxIter<&'a T>)
    ensures r.seq().len() == v@.len(), forall|i: int| 0 <= i < v@.len() ==> *#[trigger] r.seq()[i] == v@[i],
{ unimplemented!() }
// A-STD: `Vec::into_iter` yields every element, in index order
#[verifier::external_body]
pub fn vx_into_iter<T>(v: Vec<T>) -> (r: VxIter<T>) ensures r.seq() == v@ { unimplemented!() }

// ---------------------------------------------------------------------------------------------
// VectorMap enumeration under contract
// ---------------------------------------------------------------------------------------------
impl<K: ToUniqueIndex, V> VectorMap<K, V> {
    /// the enumeration model: present (index, value) pairs in ascending index order
    pub closed spec fn sentries(&self) -> Seq<(usize, V)> { entries(self.data@) }
    /// the enumeration model against the map model `sget`: exactly the present entries, each once, ascending
    pub proof fn lemma_sentries_model(&self)
        ensures
            forall|j: int| 0 <= j < self.sentries().len() ==> self.sget((#[trigger] self.sentries()[j]).0 as int) == Some(self.sentries()[j].1),     //@ob C19.enumerate.model.only_present_sget
            forall|j: int, k: int| 0 <= j < k < self.sentries().len() ==> (#[trigger] self.sentries()[j]).0 < (#[trigger] self.sentries()[k]).0,   //@ob C19.enumerate.model.ascending_each_once_sget
            forall|i: int| (#[trigger] self.sget(i)).is_some() ==> exists|j: int| 0 <= j < self.sentries().len() && self.sentries()[j] == (i as usize, self.sget(i).unwrap()),   //@ob C19.enumerate.model.all_present_sget
            self.wf() ==> self.sentries().len() == self.slen(),                                                                                     //@ob C19.enumerate.model.len_is_reported_len
    {
        // A-STD (vstd): a Vec's length fits in usize
        vstd::std_specs::vec::axiom_spec_len(&self.data);
        assert(self.data@.len() <= usize::MAX);
        lemma_entries_char(self.data@);
        lemma_entries_len(self.data@);
        assert forall|i: int| (#[trigger] self.sget(i)).is_some() implies exists|j: int| 0 <= j < self.sentries().len() && self.sentries()[j] == (i as usize, self.sget(i).unwrap()) by {
            assert(self.data@[i].is_some());
        }
    }
}

/// what `iter` yields after the filter, against the model
pub open spec fn iter_out_ok<V>(x: Seq<(usize, &Option<V>)>, d: Seq<Option<V>>) -> bool {
    x.len() == entries(d).len() && forall|j: int| 0 <= j < x.len() ==> (#[trigger] x[j]).0 == entries(d)[j].0 && *x[j].1 == Some(entries(d)[j].1)
}
pub open spec fn iter_mid_ok<V>(m: Seq<Option<(usize, &Option<V>)>>, d: Seq<Option<V>>) -> bool {
    m.len() == d.len() && forall|i: int| 0 <= i < d.len() ==> ((#[trigger] m[i]).is_some() == d[i].is_some()) && (m[i].is_some() ==> m[i].unwrap().0 == i as usize && *m[i].unwrap().1 == d[i])
}
pub proof fn lemma_iter_mid<V>(m: Seq<Option<(usize, &Option<V>)>>, d: Seq<Option<V>>)
    requires iter_mid_ok(m, d)
    ensures iter_out_ok(somes(m), d)
{
    lemma_somes_rel(m, tagged(d), |a: (usize, &Option<V>), b: (usize, V)| a.0 == b.0 && *a.1 == Some(b.1));
}


/// what `indices` / `into_indices` compute per slot, against the model (T = &Option<V> or Option<V>)
pub open spec fn idx_mid_ok<V>(m: Seq<Option<usize>>, d: Seq<Option<V>>) -> bool {
    m.len() == d.len() && forall|i: int| 0 <= i < d.len() ==> ((#[trigger] m[i]).is_some() == d[i].is_some()) && (m[i].is_some() ==> m[i].unwrap() == i as usize)
}
pub open spec fn idx_out_ok<V>(x: Seq<usize>, d: Seq<Option<V>>) -> bool {
    x.len() == entries(d).len() && forall|j: int| 0 <= j < x.len() ==> #[trigger] x[j] == entries(d)[j].0
}
pub proof fn lemma_idx_mid<V>(m: Seq<Option<usize>>, d: Seq<Option<V>>)
    requires idx_mid_ok(m, d)
    ensures idx_out_ok(somes(m), d)
{
    lemma_somes_rel(m, tagged(d), |a: usize, b: (usize, V)| a == b.0);
}
/// what `values` computes per slot
pub open spec fn val_mid_ok<V>(m: Seq<Option<&V>>, d: Seq<Option<V>>) -> bool {
    m.len() == d.len() && forall|i: int| 0 <= i < d.len() ==> ((#[trigger] m[i]).is_some() == d[i].is_some()) && (m[i].is_some() ==> *m[i].unwrap() == d[i].unwrap())
}
pub open spec fn val_out_ok<V>(x: Seq<&V>, d: Seq<Option<V>>) -> bool {
    x.len() == entries(d).len() && forall|j: int| 0 <= j < x.len() ==> *#[trigger] x[j] == entries(d)[j].1
}
pub proof fn lemma_val_mid<V>(m: Seq<Option<&V>>, d: Seq<Option<V>>)
    requires val_mid_ok(m, d)
    ensures val_out_ok(somes(m), d)
{
    lemma_somes_rel(m, tagged(d), |a: &V, b: (usize, V)| *a == b.1);
}
pub proof fn lemma_into_values<V>(d: Seq<Option<V>>)
    ensures somes(d).len() == entries(d).len(), forall|j: int| 0 <= j < somes(d).len() ==> #[trigger] somes(d)[j] == entries(d)[j].1
{
    lemma_somes_rel(d, tagged(d), |a: V, b: (usize, V)| a == b.1);
}

//@extract file=src/data/vector_map.rs path="impl<K, V> VectorMap<K, V>" kind=header id=vector_map::enumeration
//@end

//@extract file=src/data/vector_map.rs path="impl<K, V> VectorMap<K, V>|fn iter"
//@ret r
//@spec
        ensures
            r.seq().len() == self.sentries().len(),                                                              //@ob C19.enumerate.iter.exactly_present_count
            forall|j: int| 0 <= j < r.seq().len() ==> (#[trigger] r.seq()[j]).0 == self.sentries()[j].0 && *r.seq()[j].1 == self.sentries()[j].1,   //@ob C19.enumerate.iter.exactly_present_in_order
            self.wf() ==> r.seq().len() == self.slen(),                                                          //@ob C19.enumerate.iter.len_is_reported_len
//@proof entry
        proof {
            let d = self.data@;
            lemma_entries_len(d);
            assert forall|m: Seq<Option<(usize, &Option<V>)>>| iter_mid_ok(m, d) implies iter_out_ok(#[trigger] somes(m), d) by { lemma_iter_mid(m, d); }
        }
//@rw R-SIG
// the opaque return type names the stand-in; the lifetime is named so that the closure annotations can mention it
//@old
pub fn iter(&self) -> impl Iterator<Item = (usize, &V)>
//@new
pub fn iter<'a>(&'a self) -> VxIter<(usize, &'a V)>
//@rw R-CALL
//@old
self.data
            .iter()
//@new
vx_iter(&self.data)
//@rw R-SIG
// closure annotations only: parameter/result types and postconditions; bodies carried over verbatim (the filter's
// postcondition IS its body expression; the map closure's is verified against its body)
//@old
.filter(|(_, v)| $1)
            .map(|(i, v)| $2)
    }
//@new
.filter(|p: &(usize, &'a Option<V>)| -> (b: bool) ensures ({ let (_, v) = p; b == ($1) }) { let (_, v) = p; $1 })
            .map(|p: (usize, &'a Option<V>)| -> (q: (usize, &'a V))
                requires p.1.is_some()
                ensures q.0 == p.0 && Some(*q.1) == *p.1                                                         //@ob C19.enumerate.iter.yields_slot_index_and_value
                { let (i, v) = p; $2 })
    }
//@end

//@extract file=src/data/vector_map.rs path="impl<K, V> VectorMap<K, V>|fn indices"
//@ret r
//@spec
        ensures
            r.seq().len() == self.sentries().len(),                                                              //@ob C19.enumerate.indices.exactly_present_count
            forall|j: int| 0 <= j < r.seq().len() ==> #[trigger] r.seq()[j] == self.sentries()[j].0,             //@ob C19.enumerate.indices.exactly_present_in_order
            self.wf() ==> r.seq().len() == self.slen(),                                                          //@ob C19.enumerate.indices.len_is_reported_len
//@proof entry
        proof {
            let d = self.data@;
            lemma_entries_len(d);
            assert forall|m: Seq<Option<usize>>| idx_mid_ok(m, d) implies idx_out_ok(#[trigger] somes(m), d) by { lemma_idx_mid(m, d); }
        }
//@rw R-SIG
//@old
pub fn indices(&self) -> impl Iterator<Item = usize> + '_
//@new
pub fn indices<'a>(&'a self) -> VxIter<usize>
//@rw R-CALL
//@old
self.data
            .iter()
//@new
vx_iter(&self.data)
//@rw R-SIG
// closure annotations only; the closures' postconditions are stated with the (carried over) body expression $1 and are
// themselves verified against the closure bodies
//@old
.filter_map(|(i, v)| v.as_ref().map(|_| $1))
    }
//@new
.filter_map(|p: (usize, &'a Option<V>)| -> (o: Option<usize>) ensures ({ let (i, v) = p; (o.is_some() == v.is_some()) && (o.is_some() ==> o.unwrap() == ($1)) }) { let (i, v) = p; v.as_ref().map(|_x: &V| -> (q: usize) ensures q == ($1) { $1 }) })
    }
//@end

//@extract file=src/data/vector_map.rs path="impl<K, V> VectorMap<K, V>|fn into_indices"
//@ret r
//@spec
        ensures
            r.seq().len() == self.sentries().len(),                                                              //@ob C19.enumerate.into_indices.exactly_present_count
            forall|j: int| 0 <= j < r.seq().len() ==> #[trigger] r.seq()[j] == self.sentries()[j].0,             //@ob C19.enumerate.into_indices.exactly_present_in_order
            self.wf() ==> r.seq().len() == self.slen(),                                                          //@ob C19.enumerate.into_indices.len_is_reported_len
//@proof entry
        proof {
            let d = self.data@;
            lemma_entries_len(d);
            assert forall|m: Seq<Option<usize>>| idx_mid_ok(m, d) implies idx_out_ok(#[trigger] somes(m), d) by { lemma_idx_mid(m, d); }
        }
//@rw R-SIG
//@old
pub fn into_indices(self) -> impl Iterator<Item = usize>
//@new
pub fn into_indices(self) -> VxIter<usize>
//@rw R-CALL
//@old
self.data
            .into_iter()
//@new
vx_into_iter(self.data)
//@rw R-SIG
//@old
.filter_map(|(i, v)| v.as_ref().map(|_| $1))
    }
//@new
.filter_map(|p: (usize, Option<V>)| -> (o: Option<usize>) ensures ({ let (i, v) = p; (o.is_some() == v.is_some()) && (o.is_some() ==> o.unwrap() == ($1)) }) { let (i, v) = p; v.as_ref().map(|_x: &V| -> (q: usize) ensures q == ($1) { $1 }) })
    }
//@end

//@extract file=src/data/vector_map.rs path="impl<K, V> VectorMap<K, V>|fn values"
//@ret r
//@spec
        ensures
            r.seq().len() == self.sentries().len(),                                                              //@ob C19.enumerate.values.exactly_present_count
            forall|j: int| 0 <= j < r.seq().len() ==> *#[trigger] r.seq()[j] == self.sentries()[j].1,            //@ob C19.enumerate.values.exactly_present_in_order
            self.wf() ==> r.seq().len() == self.slen(),                                                          //@ob C19.enumerate.values.len_is_reported_len
//@proof entry
        proof {
            let d = self.data@;
            lemma_entries_len(d);
            assert forall|m: Seq<Option<&V>>| val_mid_ok(m, d) implies val_out_ok(#[trigger] somes(m), d) by { lemma_val_mid(m, d); }
        }
//@rw R-SIG
//@old
pub fn values(&self) -> impl Iterator<Item = &V>
//@new
pub fn values<'a>(&'a self) -> VxIter<&'a V>
//@rw R-CALL
//@old
self.data.iter()
//@new
vx_iter(&self.data)
//@end

//@extract file=src/data/vector_map.rs path="impl<K, V> VectorMap<K, V>|fn into_values"
//@ret r
//@spec
        ensures
            r.seq().len() == self.sentries().len(),                                                              //@ob C19.enumerate.into_values.exactly_present_count
            forall|j: int| 0 <= j < r.seq().len() ==> #[trigger] r.seq()[j] == self.sentries()[j].1,             //@ob C19.enumerate.into_values.exactly_present_in_order
            self.wf() ==> r.seq().len() == self.slen(),                                                          //@ob C19.enumerate.into_values.len_is_reported_len
//@proof entry
        proof {
            lemma_entries_len(self.data@);
            lemma_into_values(self.data@);
        }
//@rw R-SIG
//@old
pub fn into_values(self) -> impl Iterator<Item = V>
//@new
pub fn into_values(self) -> VxIter<V>
//@rw R-CALL
//@old
self.data.into_iter()
//@new
vx_into_iter(self.data)
//@end
}

// ---------------------------------------------------------------------------------------------
// DisjointSet::values under contract, as a CALLER of the VectorMap enumeration contract above
// ---------------------------------------------------------------------------------------------
// A-KEY: `from_index` is a function of the index (`from_index_spec`, uninterpreted); nothing else is assumed of it.
//@extract file=src/data/vector_map.rs path="trait FromUniqueIndex" kind=type
//@rw R-SIG
// `Self` is returned by value, so it is Sized in every instance; Verus needs the bound spelled out for the spec function
//@old
pub trait FromUniqueIndex {
//@new
pub trait FromUniqueIndex: Sized {
//@rw R-SIG
//@old
fn from_index(index: usize) -> Self;
//@new
spec fn from_index_spec(index: usize) -> Self;
    fn from_index(index: usize) -> (r: Self)
        ensures r == Self::from_index_spec(index);
//@end

//@extract file=src/data/combine.rs path="trait Combine" kind=type
//@end

//@extract file=src/data/disjoint_set.rs path="struct DisjointSet" kind=type
//@end

//@extract file=src/data/disjoint_set.rs path="impl<Value, Data> DisjointSet<Value, Data>#2" kind=header id=disjoint_set::views
//@end
    /// `i` is an element of the structure (it was inserted)
    pub closed spec fn dom(&self, i: int) -> bool { self.reps.sget(i).is_some() }
    /// the inserted indices in ascending order (the VectorMap enumeration model of `reps`)
    pub closed spec fn members(&self) -> Seq<(usize, Value)> { self.reps.sentries() }
}

//@extract file=src/data/disjoint_set.rs path="impl<Value, Data> DisjointSet<Value, Data>#2" kind=header
//@end

//@extract file=src/data/disjoint_set.rs path="impl<Value, Data> DisjointSet<Value, Data>#2|fn values"
//@ret r
//@spec
        ensures
            r@.len() == self.members().len(),                                                                     //@ob C19.enumerate.ds_values.one_per_inserted
            forall|j: int| 0 <= j < r@.len() ==> #[trigger] r@[j] == Value::from_index_spec(self.members()[j].0),  //@ob C19.enumerate.ds_values.exactly_inserted
//@end
}

// ---------------------------------------------------------------------------------------------
// HashSet as a Combine monoid: combine == set union, identity == empty set, and the laws
// ---------------------------------------------------------------------------------------------
// A-STD: stand-in for std::collections::HashSet<A, S>, viewed as the mathematical set `set()` of its elements
#[verifier::external_body]
#[verifier::reject_recursive_types(A)]
#[verifier::accept_recursive_types(S)]
pub struct HashSet<A, S> { _a: PhantomData<(A, S)> }
// A-STD: the borrowed-element iterator `Union` / `Intersection` / `Difference`, viewed as the set of elements it yields
#[verifier::external_body]
#[verifier::reject_recursive_types(A)]
pub struct VxSetRefs<'a, A> { _a: PhantomData<&'a A> }
// A-STD: an owned-element iterator, viewed as the set of elements it yields
#[verifier::external_body]
#[verifier::reject_recursive_types(A)]
pub struct VxSetItems<A> { _a: PhantomData<A> }

impl<A, S> HashSet<A, S> {
    pub uninterp spec fn set(&self) -> Set<A>;
    // A-STD: `HashSet::union` yields exactly the elements in either set
    #[verifier::external_body]
    pub fn union<'a>(&'a self, other: &'a HashSet<A, S>) -> (r: VxSetRefs<'a, A>) ensures r.set() == self.set().union(other.set()) { unimplemented!() }
    // A-STD: `HashSet::intersection` yields exactly the elements in both sets
    #[verifier::external_body]
    pub fn intersection<'a>(&'a self, other: &'a HashSet<A, S>) -> (r: VxSetRefs<'a, A>) ensures r.set() == self.set().intersect(other.set()) { unimplemented!() }
    // A-STD: `HashSet::difference` yields exactly the elements of self not in other
    #[verifier::external_body]
    pub fn difference<'a>(&'a self, other: &'a HashSet<A, S>) -> (r: VxSetRefs<'a, A>) ensures r.set() == self.set().difference(other.set()) { unimplemented!() }
}
impl<'a, A> VxSetRefs<'a, A> {
    pub uninterp spec fn set(&self) -> Set<A>;
    // A-STD + A-DERIVE: `Iterator::cloned` yields a clone of every element, and `A::clone` returns an equal element
    #[verifier::external_body]
    pub fn cloned(self) -> (r: VxSetItems<A>) where A: Clone ensures r.set() == self.set() { unimplemented!() }
}
impl<A> VxSetItems<A> {
    pub uninterp spec fn set(&self) -> Set<A>;
    // A-STD: `collect::<HashSet<_, _>>()` builds the set of the yielded elements
    #[verifier::external_body]
    pub fn collect<S>(self) -> (r: HashSet<A, S>) ensures r.set() == self.set() { unimplemented!() }
}
// A-STD: `HashSet::clone` has the same elements
impl<A, S> Clone for HashSet<A, S> {
    #[verifier::external_body]
    fn clone(&self) -> (r: Self) ensures r.set() == self.set() { unimplemented!() }
}
// A-STD: `HashSet::default` is empty
impl<A, S> Default for HashSet<A, S> {
    #[verifier::external_body]
    fn default() -> (r: Self) ensures r.set() == Set::<A>::empty() { unimplemented!() }
}

/// the monoid the property talks about: set union with the empty set
pub open spec fn hs_combine<A>(a: Set<A>, b: Set<A>) -> Set<A> { a.union(b) }
pub open spec fn hs_identity<A>() -> Set<A> { Set::empty() }

//@extract file=src/data/combine.rs path="impl<A, S> Combine for HashSet<A, S>" kind=header
//@end

//@extract file=src/data/combine.rs path="impl<A, S> Combine for HashSet<A, S>|fn combine"
//@ret r
//@spec
        ensures r.set() == hs_combine(self.set(), other.set()),          //@ob C19.enumerate.hashset_combine.is_union
//@end

//@extract file=src/data/combine.rs path="impl<A, S> Combine for HashSet<A, S>|fn identity"
//@ret r
//@spec
        ensures r.set() == hs_identity::<A>(),                           //@ob C19.enumerate.hashset_identity.is_empty
//@end
}

// client lemmas: the laws DisjointSet's order-independence relies on, for the monoid the code was proved to implement
pub proof fn lemma_hs_commutative<A>(a: Set<A>, b: Set<A>)
    ensures hs_combine(a, b) == hs_combine(b, a)                         //@ob C19.enumerate.hashset_combine.commutative
{ assert(a.union(b) =~= b.union(a)); }
pub proof fn lemma_hs_associative<A>(a: Set<A>, b: Set<A>, c: Set<A>)
    ensures hs_combine(a, hs_combine(b, c)) == hs_combine(hs_combine(a, b), c)     //@ob C19.enumerate.hashset_combine.associative
{ assert(a.union(b.union(c)) =~= a.union(b).union(c)); }
pub proof fn lemma_hs_idempotent<A>(a: Set<A>)
    ensures hs_combine(a, a) == a                                        //@ob C19.enumerate.hashset_combine.idempotent
{ assert(a.union(a) =~= a); }
pub proof fn lemma_hs_identity<A>(a: Set<A>)
    ensures hs_combine(hs_identity(), a) == a, hs_combine(a, hs_identity()) == a   //@ob C19.enumerate.hashset_combine.identity_neutral
{ assert(Set::<A>::empty().union(a) =~= a); assert(a.union(Set::<A>::empty()) =~= a); }

} // verus!
fn main() {}
