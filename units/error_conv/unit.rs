//@unit props=C17,C01
// Unit error_conv — src/error/mod.rs: the `?` / `.into()` conversions through which every stage error
// (disassembly, execution, unification) reaches the caller of `analyze` (C17: "any error raised while executing
// any path makes the analysis return an error that lists it, located at a byte offset inside the code").
// Contract: a located stage error keeps its LOCATION and its payload is wrapped in the variant of its own stage
// (never another variant, never `Other`); one located error becomes a container of exactly that one error; a
// container of n stage errors becomes a container of exactly n errors, the k-th being the conversion of the
// k-th (none dropped, none duplicated, order and locations kept).
use vstd::prelude::*;
//@dropped error/mod.rs: Error::other (impl Into<String>), derived Clone/Debug/Display (thiserror) of Error
//@dropped error/{disassembly,execution,unification}.rs: the stage error enums are opaque stand-in types here (their variants play no role in the conversions)
//@dropped the thiserror-derived `From<stage::Error> for Error` (#[from]) are ASSUMED (A-DERIVE) to wrap in the variant that carries the attribute
//@dropped `Vec::into_iter().map(Into::into).collect()` is desugared (R-FOREACH) into a loop over an iterator stand-in with ASSUMED Seq semantics (SeqIter)

pub mod container {
use vstd::prelude::*;
verus! {
//@include stack/container_items.rs

// the conversion performed by `.into()` / `?` is the `From` impl below, with the `ensures` it carries
impl<E> vstd::std_specs::convert::FromSpecImpl<Errors<E>> for Vec<E> {
    open spec fn obeys_from_spec() -> bool { false }
    open spec fn from_spec(v: Errors<E>) -> Vec<E> { arbitrary() }
}
impl<E> vstd::std_specs::convert::FromSpecImpl<Vec<E>> for Errors<E> {
    open spec fn obeys_from_spec() -> bool { false }
    open spec fn from_spec(v: Vec<E>) -> Errors<E> { arbitrary() }
}
impl<E> vstd::std_specs::convert::FromSpecImpl<E> for Errors<E> {
    open spec fn obeys_from_spec() -> bool { false }
    open spec fn from_spec(v: E) -> Errors<E> { arbitrary() }
}
//@extract file=src/error/container.rs path="impl<E> Default for Errors<E>" kind=header
//@end
//@extract file=src/error/container.rs path="impl<E> Default for Errors<E>|fn default" id=container::Errors::default
//@ret r
//@spec
        ensures r.log() == Seq::<E>::empty(),        //@ob C17.error_conv.container_default.empty
//@end
}
//@extract file=src/error/container.rs path="impl<E> From<Errors<E>> for Vec<E>" kind=header
//@rw R-SIG
//@old
E: std::error::Error,
//@new
E: Sized,
//@end
//@extract file=src/error/container.rs path="impl<E> From<Errors<E>> for Vec<E>|fn from" id=container::Vec::from_errors
//@ret r
//@spec
        ensures r@ == value.log(),                   //@ob C17.error_conv.container_into_vec.lists_every_recorded_error
//@end
}
//@extract file=src/error/container.rs path="impl<E> From<Vec<E>> for Errors<E>" kind=header
//@rw R-SIG
//@old
E: std::error::Error,
//@new
E: Sized,
//@end
//@extract file=src/error/container.rs path="impl<E> From<Vec<E>> for Errors<E>|fn from" id=container::Errors::from_vec
//@ret r
//@spec
        ensures r.log() == value@,                   //@ob C17.error_conv.container_from_vec.keeps_every_error
//@end
}
//@extract file=src/error/container.rs path="impl<E> From<E> for Errors<E>" kind=header
//@rw R-SIG
//@old
E: std::error::Error,
//@new
E: Sized,
//@end
//@extract file=src/error/container.rs path="impl<E> From<E> for Errors<E>|fn from" id=container::Errors::from_one
//@ret r
//@spec
        ensures r.log() == seq![value],              //@ob C17.error_conv.container_from_one.lists_it
//@end
}
} // verus!
}
// stand-in for src/error/disassembly.rs: the stage error enum is OPAQUE (no variant is looked at by the conversions)
pub mod disassembly {
use vstd::prelude::*;
use super::container;
verus! {
#[verifier::external_body]
pub struct Error { opaque: u8 }
// A-DERIVE: the stage enum derives Clone (needed only for the bound `Located<E> where E: Clone`; never called here)
impl Clone for Error {
    #[verifier::external_body]
    fn clone(&self) -> Error { Error { opaque: self.opaque } }
}
//@extract file=src/error/disassembly.rs path="type LocatedError" kind=type id=disassembly::LocatedError
//@end
} // verus!
}
// stand-in for src/error/execution.rs: the stage error enum is OPAQUE (no variant is looked at by the conversions)
pub mod execution {
use vstd::prelude::*;
use super::container;
verus! {
#[verifier::external_body]
pub struct Error { opaque: u8 }
// A-DERIVE: the stage enum derives Clone (needed only for the bound `Located<E> where E: Clone`; never called here)
impl Clone for Error {
    #[verifier::external_body]
    fn clone(&self) -> Error { Error { opaque: self.opaque } }
}
//@extract file=src/error/execution.rs path="type LocatedError" kind=type id=execution::LocatedError
//@end
//@extract file=src/error/execution.rs path="type Errors" kind=type id=execution::Errors
//@end
} // verus!
}
// stand-in for src/error/unification.rs: the stage error enum is OPAQUE (no variant is looked at by the conversions)
pub mod unification {
use vstd::prelude::*;
use super::container;
verus! {
#[verifier::external_body]
pub struct Error { opaque: u8 }
// A-DERIVE: the stage enum derives Clone (needed only for the bound `Located<E> where E: Clone`; never called here)
impl Clone for Error {
    #[verifier::external_body]
    fn clone(&self) -> Error { Error { opaque: self.opaque } }
}
//@extract file=src/error/unification.rs path="type LocatedError" kind=type id=unification::LocatedError
//@end
//@extract file=src/error/unification.rs path="type Errors" kind=type id=unification::Errors
//@end
} // verus!
}

verus! {
#[derive(Clone)]
//@extract file=src/error/mod.rs path="enum Error" kind=type id=Error
// R-ATTR: the thiserror field attribute is not Rust without the derive; fail-closed per variant, so that the A-DERIVE impls below
// are only assumed while each variant still carries its `#[from]` on the stage error of its own name
//@rw R-ATTR
//@old
Disassembly(#[from] disassembly::Error)
//@new
Disassembly(/* #[from]: A-DERIVE below */ disassembly::Error)
//@rw R-ATTR
//@old
Execution(#[from] execution::Error)
//@new
Execution(/* #[from]: A-DERIVE below */ execution::Error)
//@rw R-ATTR
//@old
Unification(#[from] unification::Error)
//@new
Unification(/* #[from]: A-DERIVE below */ unification::Error)
//@end
//@extract file=src/error/mod.rs path="type LocatedError" kind=type id=LocatedError
//@end
//@extract file=src/error/mod.rs path="type Errors" kind=type id=Errors
//@end

// A-DERIVE: thiserror #[from] on `Error::Disassembly` generates `From<disassembly::Error> for Error` returning that variant
impl vstd::std_specs::convert::FromSpecImpl<disassembly::Error> for Error {
    open spec fn obeys_from_spec() -> bool { false }
    open spec fn from_spec(v: disassembly::Error) -> Error { arbitrary() }
}
impl From<disassembly::Error> for Error {
    #[verifier::external_body]
    fn from(v: disassembly::Error) -> (r: Error)
        ensures r == Error::Disassembly(v),
    { Error::Disassembly(v) }
}
/// what C17 asks of the conversion of one located disassembly error: same location, payload in the `Disassembly` variant
pub open spec fn conv_disassembly(e: disassembly::LocatedError) -> LocatedError {
    container::Located { location: e.location, payload: Error::Disassembly(e.payload) }
}
// A-DERIVE: thiserror #[from] on `Error::Execution` generates `From<execution::Error> for Error` returning that variant
impl vstd::std_specs::convert::FromSpecImpl<execution::Error> for Error {
    open spec fn obeys_from_spec() -> bool { false }
    open spec fn from_spec(v: execution::Error) -> Error { arbitrary() }
}
impl From<execution::Error> for Error {
    #[verifier::external_body]
    fn from(v: execution::Error) -> (r: Error)
        ensures r == Error::Execution(v),
    { Error::Execution(v) }
}
/// what C17 asks of the conversion of one located execution error: same location, payload in the `Execution` variant
pub open spec fn conv_execution(e: execution::LocatedError) -> LocatedError {
    container::Located { location: e.location, payload: Error::Execution(e.payload) }
}
// A-DERIVE: thiserror #[from] on `Error::Unification` generates `From<unification::Error> for Error` returning that variant
impl vstd::std_specs::convert::FromSpecImpl<unification::Error> for Error {
    open spec fn obeys_from_spec() -> bool { false }
    open spec fn from_spec(v: unification::Error) -> Error { arbitrary() }
}
impl From<unification::Error> for Error {
    #[verifier::external_body]
    fn from(v: unification::Error) -> (r: Error)
        ensures r == Error::Unification(v),
    { Error::Unification(v) }
}
/// what C17 asks of the conversion of one located unification error: same location, payload in the `Unification` variant
pub open spec fn conv_unification(e: unification::LocatedError) -> LocatedError {
    container::Located { location: e.location, payload: Error::Unification(e.payload) }
}

// ---- A-STD: iterator stand-in. `Vec::into_iter()` yields the elements of the vector in order; `take`/`skip`/`rev`
// have their std meaning (given so that an edit that thins out or reorders the iterator reaches the postconditions).
#[verifier::external_body]
#[verifier::reject_recursive_types(T)]
pub struct SeqIter<T> { items: std::collections::VecDeque<T> }
impl<T> SeqIter<T> {
    /// the elements still to be yielded, in order
    pub uninterp spec fn view(&self) -> Seq<T>;
    #[verifier::external_body]
    pub fn take(self, n: usize) -> (r: SeqIter<T>)
        ensures r@ == (if n <= self@.len() { self@.take(n as int) } else { self@ }),
    { SeqIter { items: self.items.into_iter().take(n).collect() } }
    #[verifier::external_body]
    pub fn skip(self, n: usize) -> (r: SeqIter<T>)
        ensures r@ == (if n <= self@.len() { self@.skip(n as int) } else { Seq::<T>::empty() }),
    { SeqIter { items: self.items.into_iter().skip(n).collect() } }
    #[verifier::external_body]
    pub fn rev(self) -> (r: SeqIter<T>)
        ensures r@ == self@.reverse(),
    { SeqIter { items: self.items.into_iter().rev().collect() } }
    #[verifier::external_body]
    pub fn next(&mut self) -> (r: Option<T>)
        ensures
            old(self)@.len() == 0 ==> r is None && final(self)@ == old(self)@,
            old(self)@.len() > 0 ==> r == Some(old(self)@[0]) && final(self)@ == old(self)@.skip(1),
    { self.items.pop_front() }
}
// A-STD (R-FOREACH stand-in): `v.into_iter()`
#[verifier::external_body]
pub fn seq_iter<T>(v: Vec<T>) -> (r: SeqIter<T>)
    ensures r@ == v@,
{ SeqIter { items: v.into_iter().collect() } }

// ---- Locatable for Error ---------------------------------------------------------------------------------
//@extract file=src/error/mod.rs path="impl container::Locatable for Error" kind=header
//@end
    type Located = LocatedError;
//@extract file=src/error/mod.rs path="impl container::Locatable for Error|fn locate" id=Error::locate props=C17,C01
//@ret r
//@spec
        ensures
            r.location == instruction_pointer,       //@ob C17.error_conv.locate.location
            r.payload == self,                       //@ob C17.error_conv.locate.payload_unchanged
//@end
}

// ---- disassembly: one located error -------------------------------------------------------------------------------
impl vstd::std_specs::convert::FromSpecImpl<disassembly::LocatedError> for LocatedError {
    open spec fn obeys_from_spec() -> bool { false }
    open spec fn from_spec(v: disassembly::LocatedError) -> LocatedError { arbitrary() }
}
//@extract file=src/error/mod.rs path="impl From<disassembly::LocatedError> for LocatedError" kind=header
//@end
//@extract file=src/error/mod.rs path="impl From<disassembly::LocatedError> for LocatedError|fn from" id=LocatedError::from_disassembly props=C17,C01
//@ret r
//@spec
        ensures
            r.location == value.location,                    //@ob C17.error_conv.located_from_disassembly.keeps_location
            r.payload == Error::Disassembly(value.payload),   //@ob C17.error_conv.located_from_disassembly.payload_in_own_stage_variant
//@end
}
impl vstd::std_specs::convert::FromSpecImpl<disassembly::LocatedError> for Errors {
    open spec fn obeys_from_spec() -> bool { false }
    open spec fn from_spec(v: disassembly::LocatedError) -> Errors { arbitrary() }
}
//@extract file=src/error/mod.rs path="impl From<disassembly::LocatedError> for Errors" kind=header
//@end
//@extract file=src/error/mod.rs path="impl From<disassembly::LocatedError> for Errors|fn from" id=Errors::from_located_disassembly props=C17,C01
//@ret r
//@spec
        ensures
            r.log().len() == 1,                              //@ob C17.error_conv.errors_from_located_disassembly.exactly_one_error
            r.log() == seq![conv_disassembly(value)],      //@ob C17.error_conv.errors_from_located_disassembly.lists_it_located_in_own_stage_variant
//@end
}

// ---- execution: one located error -------------------------------------------------------------------------------
impl vstd::std_specs::convert::FromSpecImpl<execution::LocatedError> for LocatedError {
    open spec fn obeys_from_spec() -> bool { false }
    open spec fn from_spec(v: execution::LocatedError) -> LocatedError { arbitrary() }
}
//@extract file=src/error/mod.rs path="impl From<execution::LocatedError> for LocatedError" kind=header
//@end
//@extract file=src/error/mod.rs path="impl From<execution::LocatedError> for LocatedError|fn from" id=LocatedError::from_execution props=C17,C01
//@ret r
//@spec
        ensures
            r.location == value.location,                    //@ob C17.error_conv.located_from_execution.keeps_location
            r.payload == Error::Execution(value.payload),   //@ob C17.error_conv.located_from_execution.payload_in_own_stage_variant
//@end
}
impl vstd::std_specs::convert::FromSpecImpl<execution::LocatedError> for Errors {
    open spec fn obeys_from_spec() -> bool { false }
    open spec fn from_spec(v: execution::LocatedError) -> Errors { arbitrary() }
}
//@extract file=src/error/mod.rs path="impl From<execution::LocatedError> for Errors" kind=header
//@end
//@extract file=src/error/mod.rs path="impl From<execution::LocatedError> for Errors|fn from" id=Errors::from_located_execution props=C17,C01
//@ret r
//@spec
        ensures
            r.log().len() == 1,                              //@ob C17.error_conv.errors_from_located_execution.exactly_one_error
            r.log() == seq![conv_execution(value)],      //@ob C17.error_conv.errors_from_located_execution.lists_it_located_in_own_stage_variant
//@end
}

// ---- unification: one located error -------------------------------------------------------------------------------
impl vstd::std_specs::convert::FromSpecImpl<unification::LocatedError> for LocatedError {
    open spec fn obeys_from_spec() -> bool { false }
    open spec fn from_spec(v: unification::LocatedError) -> LocatedError { arbitrary() }
}
//@extract file=src/error/mod.rs path="impl From<unification::LocatedError> for LocatedError" kind=header
//@end
//@extract file=src/error/mod.rs path="impl From<unification::LocatedError> for LocatedError|fn from" id=LocatedError::from_unification props=C17,C01
//@ret r
//@spec
        ensures
            r.location == value.location,                    //@ob C17.error_conv.located_from_unification.keeps_location
            r.payload == Error::Unification(value.payload),   //@ob C17.error_conv.located_from_unification.payload_in_own_stage_variant
//@end
}
impl vstd::std_specs::convert::FromSpecImpl<unification::LocatedError> for Errors {
    open spec fn obeys_from_spec() -> bool { false }
    open spec fn from_spec(v: unification::LocatedError) -> Errors { arbitrary() }
}
//@extract file=src/error/mod.rs path="impl From<unification::LocatedError> for Errors" kind=header
//@end
//@extract file=src/error/mod.rs path="impl From<unification::LocatedError> for Errors|fn from" id=Errors::from_located_unification props=C17,C01
//@ret r
//@spec
        ensures
            r.log().len() == 1,                              //@ob C17.error_conv.errors_from_located_unification.exactly_one_error
            r.log() == seq![conv_unification(value)],      //@ob C17.error_conv.errors_from_located_unification.lists_it_located_in_own_stage_variant
//@end
}

// ---- execution: a container of located errors ---------------------------------------------------------------------
impl vstd::std_specs::convert::FromSpecImpl<execution::Errors> for Errors {
    open spec fn obeys_from_spec() -> bool { false }
    open spec fn from_spec(v: execution::Errors) -> Errors { arbitrary() }
}
//@extract file=src/error/mod.rs path="impl From<execution::Errors> for Errors" kind=header
//@end
//@extract file=src/error/mod.rs path="impl From<execution::Errors> for Errors|fn from" id=Errors::from_errors_execution props=C17,C01
//@ret r
// R-FOREACH: `it.map(Into::into).collect()` is the loop that pushes `x.into()` for every `x` the iterator yields, in order;
// `$1` is the iterator expression of the source, verbatim (R-CALL: its `errs.into_iter()` is the stand-in `seq_iter(errs)`); the `.into()` stays the real conversion
//@rw R-CALL
//@old
errs.into_iter()
//@new
seq_iter(errs)
//@rw R-FOREACH
//@old
let new_errs: Vec<LocatedError> = $1.map(std::convert::Into::into).collect();
//@new
let mut new_errs: Vec<LocatedError> = Vec::new();
        let mut conv_iter = $1;
        let ghost conv_src = conv_iter@;
        loop
            invariant
                new_errs@.len() <= conv_src.len(),
                conv_iter@ == conv_src.skip(new_errs@.len() as int),
                forall|k: int| 0 <= k < new_errs@.len() ==> new_errs@[k] == conv_execution(#[trigger] conv_src[k]),
            ensures
                new_errs@.len() == conv_src.len(),
                forall|k: int| 0 <= k < new_errs@.len() ==> new_errs@[k] == conv_execution(#[trigger] conv_src[k]),
            decreases conv_iter@.len(),
        {
            match conv_iter.next() {
                Some(x) => { new_errs.push(x.into()); }
                None => { break; }
            }
        }
//@spec
        ensures
            r.log().len() == value.log().len(),                                                              //@ob C17.error_conv.errors_from_execution_errors.none_dropped_none_duplicated
            forall|k: int| 0 <= k < value.log().len() ==> r.log()[k].location == (#[trigger] value.log()[k]).location,   //@ob C17.error_conv.errors_from_execution_errors.kth_keeps_location_and_order
            forall|k: int| 0 <= k < value.log().len() ==> r.log()[k].payload == Error::Execution((#[trigger] value.log()[k]).payload),   //@ob C17.error_conv.errors_from_execution_errors.kth_payload_in_own_stage_variant
//@end
}

// ---- unification: a container of located errors ---------------------------------------------------------------------
impl vstd::std_specs::convert::FromSpecImpl<unification::Errors> for Errors {
    open spec fn obeys_from_spec() -> bool { false }
    open spec fn from_spec(v: unification::Errors) -> Errors { arbitrary() }
}
//@extract file=src/error/mod.rs path="impl From<unification::Errors> for Errors" kind=header
//@end
//@extract file=src/error/mod.rs path="impl From<unification::Errors> for Errors|fn from" id=Errors::from_errors_unification props=C17,C01
//@ret r
// R-FOREACH: `it.map(Into::into).collect()` is the loop that pushes `x.into()` for every `x` the iterator yields, in order;
// `$1` is the iterator expression of the source, verbatim (R-CALL: its `errs.into_iter()` is the stand-in `seq_iter(errs)`); the `.into()` stays the real conversion
//@rw R-CALL
//@old
errs.into_iter()
//@new
seq_iter(errs)
//@rw R-FOREACH
//@old
let new_errs: Vec<LocatedError> = $1.map(std::convert::Into::into).collect();
//@new
let mut new_errs: Vec<LocatedError> = Vec::new();
        let mut conv_iter = $1;
        let ghost conv_src = conv_iter@;
        loop
            invariant
                new_errs@.len() <= conv_src.len(),
                conv_iter@ == conv_src.skip(new_errs@.len() as int),
                forall|k: int| 0 <= k < new_errs@.len() ==> new_errs@[k] == conv_unification(#[trigger] conv_src[k]),
            ensures
                new_errs@.len() == conv_src.len(),
                forall|k: int| 0 <= k < new_errs@.len() ==> new_errs@[k] == conv_unification(#[trigger] conv_src[k]),
            decreases conv_iter@.len(),
        {
            match conv_iter.next() {
                Some(x) => { new_errs.push(x.into()); }
                None => { break; }
            }
        }
//@spec
        ensures
            r.log().len() == value.log().len(),                                                              //@ob C17.error_conv.errors_from_unification_errors.none_dropped_none_duplicated
            forall|k: int| 0 <= k < value.log().len() ==> r.log()[k].location == (#[trigger] value.log()[k]).location,   //@ob C17.error_conv.errors_from_unification_errors.kth_keeps_location_and_order
            forall|k: int| 0 <= k < value.log().len() ==> r.log()[k].payload == Error::Unification((#[trigger] value.log()[k]).payload),   //@ob C17.error_conv.errors_from_unification_errors.kth_payload_in_own_stage_variant
//@end
}
} // verus!
fn main() {}
