#!/usr/bin/env python3
"""Mutation test of unit error_conv: property-breaking edits of src/error/mod.rs must be `failed`, harmless refactors `ok`.
usage: python3 units/error_conv/mutations.py [--cargo]   (creates and removes the scratch worktree /tmp/wt_errorconv;
--cargo additionally checks that every edited source compiles: `cargo check --offline`, target dir /tmp/wt_errorconv_target)"""
import subprocess, sys, os
WT = '/tmp/wt_errorconv'
F = 'src/error/mod.rs'
CARGO = '--cargo' in sys.argv
def sh(c): return subprocess.run(c, shell=True, capture_output=True, text=True)
LOC = lambda m: f'fn from(value: {m}::LocatedError) -> Self {{\n        let instruction_pointer = value.location;'
BREAK = [
 (F, LOC('execution'), LOC('execution').replace('= value.location;', '= 0;'), 'execution located error relocated to offset 0'),
 (F, LOC('disassembly'), LOC('disassembly').replace('= value.location;', '= value.location / 2;'), 'disassembly located error relocated to half its offset'),
 (F, LOC('unification') + '\n        let payload = Error::from(value.payload);', LOC('unification') + '\n        let payload = Error::Other(String::new());', 'unification payload replaced by Error::Other'),
 (F, 'container::Located {\n            location: instruction_pointer,', 'container::Located {\n            location: 0,', 'Error::locate ignores the offset'),
 (F, 'errs.into_iter().map', 'errs.into_iter().take(1).map', 'execution errors: only the first converted'),
 (F, 'errs.into_iter().map', 'errs.into_iter().skip(1).map', 'execution errors: the first dropped'),
 (F, 'let errs: Vec<unification::LocatedError> = value.into();\n        let new_errs: Vec<LocatedError> = errs.into_iter().map', 'let errs: Vec<unification::LocatedError> = value.into();\n        let new_errs: Vec<LocatedError> = errs.into_iter().rev().map', 'unification errors: order reversed'),
 (F, 'let errs: Vec<execution::LocatedError> = value.into();', 'let mut errs: Vec<execution::LocatedError> = value.into(); errs.pop();', 'execution errors: the last dropped'),
 (F, 'fn from(value: unification::LocatedError) -> Self {\n        let re_wrapped: LocatedError = value.into();\n        re_wrapped.into()', 'fn from(value: unification::LocatedError) -> Self {\n        let _re_wrapped: LocatedError = value.into();\n        Errors::default()', 'one unification error becomes an empty container'),
 (F, 'fn from(value: execution::LocatedError) -> Self {\n        let re_wrapped: LocatedError = value.into();\n        re_wrapped.into()', 'fn from(value: execution::LocatedError) -> Self {\n        let re_wrapped: LocatedError = value.into();\n        let mut es = Errors::new(); es.add(LocatedError { location: re_wrapped.location, payload: re_wrapped.payload.clone() }); es.add(re_wrapped); es', 'one execution error listed twice'),
 (F, '        new_errs.into()\n', '        let _ = new_errs; Errors::new()\n', 'execution errors: converted errors thrown away'),
]
KEEP = [
 (F, 'let instruction_pointer = value.location;\n        let payload = Error::from(value.payload);\n        Self {\n            location: instruction_pointer,\n            payload,\n        }', 'Self { location: value.location, payload: Error::from(value.payload) }', 'inlined lets (disassembly)'),
 (F, LOC('execution') + '\n        let payload = Error::from(value.payload);', LOC('execution') + '\n        let payload: Error = value.payload.into();', 'payload through .into() (execution)'),
 (F, 'let re_wrapped: LocatedError = value.into();\n        re_wrapped.into()', 'let located = LocatedError::from(value);\n        Self::from(located)', 'From::from instead of .into(), renamed local'),
 (F, '        new_errs.into()\n', '        let converted = Self::from(new_errs);\n        converted\n', 'let-bound result'),
]
def run(edits, expect):
    bad = 0
    for f, a, b, what in edits:
        sh(f'git -C {WT} checkout -- .')
        p = os.path.join(WT, f); s = open(p).read()
        if a not in s: print('ANCHOR LOST', what); bad += 1; continue
        open(p, 'w').write(s.replace(a, b, 1))
        if CARGO and sh(f'cd {WT} && CARGO_TARGET_DIR=/tmp/wt_errorconv_target cargo check --offline -q 2>&1 | grep -c "^error"').stdout.strip() not in ('0', ''):
            print('DOES NOT COMPILE', what); bad += 1; continue
        r = sh(f'cd /verif && VX_REPO={WT} python3 vx/vx.py unit error_conv --raw')
        st = r.stdout.split('status=')[1].split()[0] if 'status=' in r.stdout else '?'
        labs = [l.strip()[:170] for l in r.stdout.splitlines() if 'FAIL' in l]
        if st not in ('ok', 'failed'): labs = [r.stdout.strip()[:300]]
        print(f'{"OK " if st == expect else "BAD"} {what}: status={st}', *labs[:3], sep='\n      ' if labs else ' ')
        bad += st != expect
    return bad
sh(f'git -C /repo worktree remove --force {WT}'); sh(f'git -C /repo worktree add --detach {WT} HEAD')
n = run(BREAK, 'failed') + run(KEEP, 'ok')
sh(f'git -C /repo worktree remove --force {WT}')
print('mutations: unexpected =', n); sys.exit(1 if n else 0)
