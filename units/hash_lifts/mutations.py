#!/usr/bin/env python3
"""Mutation / refactor self-test of unit hash_lifts on the scratch worktree /tmp/wt_hl (never /repo).
Usage: git -C /repo worktree add --detach /tmp/wt_hl HEAD; python3 units/hash_lifts/mutations.py [mut|ref|all] [Mnn|Rnn ...];
       git -C /repo worktree remove --force /tmp/wt_hl
M* = property-breaking edits (must give status=failed on the expected labelled obligation),
R* = behaviour-preserving refactors (must stay ok; undecided tolerated, failed never)."""
import subprocess, sys, re, time
WT = '/tmp/wt_hl'
PX, RH, CO = 'src/tc/lift/proxy_slots.rs', 'src/tc/lift/recognise_hashed_slots.rs', 'src/constant.rs'


def edit(file, old, new, count=1, scope=None):
    p = f'{WT}/{file}'
    s = open(p).read()
    if scope:   # whole-word rename between two markers
        a, b = s.index(scope[0]), s.index(scope[1])
        seg = re.sub(r'(?<![A-Za-z0-9_])' + re.escape(old) + r'(?![A-Za-z0-9_])', new, s[a:b])
        open(p, 'w').write(s[:a] + seg + s[b:])
        return
    assert s.count(old) >= 1, (file, old)
    open(p, 'w').write(s.replace(old, new, count))


MUT = [
 ('M01 a partly constant concat is hashed (len check -> is_empty)', [(PX, 'if words.len() != values.len() {', 'if words.is_empty() {')], 'C05.hl.proxy.partly_constant_input_is_not_hashed'),
 ('M02 ABI guard loses its length test (words[1] out of bounds)', [(PX, 'if words.len() >= 3 && words[0] == KnownWord::from(SOLIDITY_STRING_POINTER) {', 'if words.first() == Some(&KnownWord::from(SOLIDITY_STRING_POINTER)) {')], 'C01.hl.proxy.indices_in_bounds'),
 ('M03 string data taken from words[1..]', [(PX, '&words[2..]', '&words[1..]')], 'C05.hl.proxy.only_documented_strings'),
 ('M04 is_likely_string upper bound < 0x7f -> <= 0xff', [(PX, 'byte < &0x7f', 'byte <= &0xff')], 'C05.hl.is_likely_string.printable_ascii_only'),
 ('M05 msb check dropped', [(PX, '.all(|byte| byte > &0x1f && byte < &0x7f) && msb_non_zero', '.all(|byte| byte > &0x1f && byte < &0x7f)')], 'C05.hl.is_likely_string.as_documented'),
 ('M06 NULs stripped from the front instead of the back', [(PX, '            .rev()\n', ''), (PX, '        no_trailing_nuls.reverse();\n', '')], 'C05.hl.strip.exactly_trailing_nuls_removed'),
 ('M07 has_correct_number_of_bytes compares with len + 1', [(PX, 'KnownWord::from(stripped.len()) == expected_len', 'KnownWord::from(stripped.len() + 1) == expected_len')], 'C05.hl.has_correct_number_of_bytes.as_documented'),
 ('M08 KnownData arm hashes without the string test', [(PX, 'if ProxySlots::is_likely_string(&[value]) {', 'if true {')], 'C05.hl.proxy.only_documented_strings'),
 ('M09 strip drops trailing spaces instead of NULs', [(PX, 'byte == &0x0', 'byte == &0x20')], 'C05.hl.strip.exactly_trailing_nuls_removed'),
 ('M10 hash over a sub-list of the words', [(PX, 'ProxySlots::sha3_known_words(words.as_slice())', 'ProxySlots::sha3_known_words(&words[1..])')], 'C05.hl.proxy.hashes_exactly_the_hashed_words'),
 ('M11 a non-constant operand is hashed as word 0', [(PX, '_ => Vec::new(),', '_ => vec![KnownWord::from(0usize)],')], 'C05.hl.proxy.hashes_exactly_the_hashed_words'),
 ('M12 ABI string accepted when EITHER test passes (|| -> &&)', [(PX, '|| !ProxySlots::is_likely_string(string_data)', '&& !ProxySlots::is_likely_string(string_data)')], 'C05.hl.proxy.only_documented_strings'),
 ('M13 unpick_proxy_slots adds the hash to the hash operand itself', [(PX, '(new_left, right.clone())', '(new_left, left.clone())')], 'C05.hl.proxy.unpick.sum_of_the_hash_and_the_other_operand'),
 ('M14 unpick_proxy_slots returns a non-constant sum', [(PX, 'if matches!(constant_folded, RSVD::KnownData { .. }) {', 'if true {')], 'C05.hl.proxy.unpick.key_becomes_a_constant'),
 ('M15 ProxySlots::run hands the unguarded recogniser to the traversal', [(PX, 'Ok(value.transform_data(recognise_proxy_slots))', 'Ok(value.transform_data(unpick_proxy_slots))')], 'C05.hl.proxy_run.passes_the_guard'),
 ('M16 sha3_known_words skips words (hashes only non-zero-msb words)', [(PX, 'hasher.update(word.bytes_be());', 'if word.bytes_be()[0] != 0 { hasher.update(word.bytes_be()); }')], 'C05.hl.sha3_known_words.hash_of_all_words_in_order'),
 ('M17 recogniser rewrites constants that are not in the table', [(RH, 'if let Some(slot_index) = hashes.get_by_left(&known_value.value_le()) {', 'if let Some(slot_index) = Some(&7usize) {')], 'C05.hl.recognise.only_table_hashes_are_rewritten'),
 ('M18 recogniser rewrites to n + 1', [(RH, 'KnownWord::from(*slot_index),', 'KnownWord::from(*slot_index + 1),')], 'C05.hl.recognise.rewritten_to_the_preimage'),
 ('M19 table pairs keccak(n) with n + 1', [(RH, 'data.insert(key, slot_ix);', 'data.insert(key, slot_ix + 1);')], 'C05.hl.recognise.table_holds_only_hashes_of_small_slots'),
 ('M20 new() builds twice the documented count', [(RH, 'Self::make_hashes(SLOT_COUNT)', 'Self::make_hashes(SLOT_COUNT * 2)')], 'C05.hl.recognise.table_holds_only_hashes_of_small_slots'),
 ('M21 StorageSlotHashes::run hands another closure to the traversal', [(RH, 'Ok(value.transform_data(lift_hashes))', 'Ok(value.transform_data(|d: &RSVD| Some(d.clone())))')], 'C05.hl.recognise_run.passes_the_recogniser'),
 ('M22 string pointer constant changed to 0x40', [(CO, 'pub const SOLIDITY_STRING_POINTER: usize = 0x20;', 'pub const SOLIDITY_STRING_POINTER: usize = 0x40;')], 'C05.hl.proxy.only_documented_strings'),
 ('M23 lower bound > 0x1f -> >= 0x00', [(PX, 'byte > &0x1f', 'byte >= &0x00')], 'C05.hl.is_likely_string.printable_ascii_only'),
 ('M24 recogniser answers Some(unchanged) on a poisoned lock', [(RH, '                _ => None,\n            }\n        };', '                _ => Some(input_value.clone()),\n            }\n        };')], 'C05.hl.recognise.only_table_hashes_are_rewritten'),
 ('M25 length word read from words[0]', [(PX, 'let length = words[1];', 'let length = words[0];')], 'C05.hl.proxy.only_documented_strings'),
 ('M26 table hashes one slot too many (0..count + 1)', [(RH, 'for slot_ix in 0..count {', 'for slot_ix in 0..count + 1 {')], 'C05.hl.recognise.table_holds_only_hashes_of_small_slots'),
]

REF = [
 ('R01 the two ABI tests in the other order', [(PX, 'if !ProxySlots::has_correct_number_of_bytes(string_data, length)\n                            || !ProxySlots::is_likely_string(string_data)', 'if !ProxySlots::is_likely_string(string_data)\n                            || !ProxySlots::has_correct_number_of_bytes(string_data, length)')]),
 ('R02 length comparison operands swapped', [(PX, 'if words.len() != values.len() {', 'if values.len() != words.len() {')]),
 ('R03 msb test first', [(PX, 'stripped.iter().all(|byte| byte > &0x1f && byte < &0x7f) && msb_non_zero', 'msb_non_zero && stripped.iter().all(|byte| byte > &0x1f && byte < &0x7f)')]),
 ('R04 expected_len on the left of ==', [(PX, 'KnownWord::from(stripped.len()) == expected_len', 'expected_len == KnownWord::from(stripped.len())')]),
 ('R05 NUL test by value', [(PX, 'byte == &0x0', '*byte == 0')]),
 ('R06 guard binding renamed in the recogniser', [(RH, 'Ok(hashes) => {\n                    if let Some(slot_index) = hashes.get_by_left', 'Ok(table) => {\n                    if let Some(slot_index) = table.get_by_left')]),
 ('R07 make_hashes names the preimage bytes', [(RH, 'hasher.update(U256::from(slot_ix as u64).to_be_bytes());', 'let preimage = U256::from(slot_ix as u64).to_be_bytes();\n            hasher.update(preimage);')]),
 ('R08 KnownData arm with an early return', [(PX, 'if ProxySlots::is_likely_string(&[value]) {\n                        ProxySlots::sha3_known_words(&[value])\n                    } else {\n                        return None;\n                    }', 'if !ProxySlots::is_likely_string(&[value]) {\n                        return None;\n                    }\n                    ProxySlots::sha3_known_words(&[value])')]),
 ('R09 len >= 3 written as len > 2', [(PX, 'if words.len() >= 3 && words[0]', 'if words.len() > 2 && words[0]')]),
 ('R10 printable test as 0x20 <= b <= 0x7e', [(PX, 'byte > &0x1f && byte < &0x7f', 'byte >= &0x20 && byte <= &0x7e')]),
 ('R11 slot key bound before the match result is wrapped', [(PX, 'Some(RSVD::new_known(slot_key))', 'let payload = RSVD::new_known(slot_key);\n            Some(payload)')]),
 ('R12 recogniser: early return instead of if/else', [(RH, '                        Some(RSVD::Sha3 { data })\n                    } else {\n                        None\n                    }', '                        return Some(RSVD::Sha3 { data });\n                    }\n                    None')]),
 ('R13 unpick_proxy_slots: constant test as a match', [(PX, 'if matches!(constant_folded, RSVD::KnownData { .. }) {\n                        Some(constant_folded)\n                    } else {\n                        None\n                    }', 'match constant_folded {\n                        RSVD::KnownData { .. } => Some(constant_folded),\n                        _ => None,\n                    }')]),
 ('R14 local `words` renamed (rewrite anchor lost: undecided expected)', [(PX, 'words', 'constants', 1, ('fn unpick_sha3_data', 'fn unpick_proxy_slots'))]),
]


def run():
    t0 = time.time()
    p = subprocess.run(['python3', 'vx/vx.py', 'unit', 'hash_lifts', '--raw'], cwd='/verif', capture_output=True, text=True,
                       env={**__import__('os').environ, 'VX_REPO': WT})
    out = p.stdout + p.stderr
    m = re.search(r'status=(\w+)', out)
    labels = re.findall(r"labels=\[([^\]]*)\]", out)
    flat = sorted({x.strip().strip("'") for l in labels for x in l.split(',') if x.strip()})
    kinds = sorted(set(re.findall(r'FAIL \S+ \[([^\]]+)\]', out)))
    reason = ''
    if m and m.group(1) == 'undecided':
        reason = out.split('\n')[0][-160:]
    return (m.group(1) if m else '?'), flat, kinds, time.time() - t0, reason


def reset():
    subprocess.run(['git', '-C', WT, 'checkout', '-q', '.'], check=True)


def main():
    what = sys.argv[1] if len(sys.argv) > 1 else 'all'
    only = set(sys.argv[2:])
    bad = 0
    reset()
    if what in ('mut', 'all'):
        for name, edits, expect in MUT:
            if only and name.split()[0] not in only:
                continue
            for e in edits:
                edit(*e)
            st, labs, kinds, dt, reason = run()
            reset()
            ok = st == 'failed' and expect in labs
            bad += not ok
            print(f"{'CAUGHT ' if ok else 'MISSED '} {name}: status={st} expected={expect} got={labs} kinds={kinds} {dt:.1f}s {reason}")
    if what in ('ref', 'all'):
        for name, edits in REF:
            if only and name.split()[0] not in only:
                continue
            for e in edits:
                edit(*e)
            st, labs, kinds, dt, reason = run()
            reset()
            ok = st in ('ok', 'undecided')
            bad += not ok
            print(f"{'QUIET  ' if st == 'ok' else ('UNDECID' if st == 'undecided' else 'ALARM  ')} {name}: status={st} got={labs} kinds={kinds} {dt:.1f}s {reason}")
    sys.exit(1 if bad else 0)


if __name__ == '__main__':
    main()
