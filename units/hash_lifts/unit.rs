//@unit props=C05,C01
// Unit hash_lifts — properties C05 "no phantom slots" (slice: the two hash-recognition lifts: which words are
// hashed into a slot index, and which constants are rewritten into the hash of their preimage) and C01 (slice:
// panic-freedom of these functions for ANY well-formed value tree: indices, slices, `expect`).
//
//   src/tc/lift/proxy_slots.rs            ProxySlots::{strip_trailing_nuls, is_likely_string, has_correct_number_of_bytes,
//                                         sha3_known_words}, unpick_sha3_data (nested in ProxySlots::run), ProxySlots::run
//   src/tc/lift/recognise_hashed_slots.rs StorageSlotHashes::{make_hashes, new, new_with_hashes}, the closure `lift_hashes`
//                                         inside StorageSlotHashes::run, and that `run` body
//
// Everything marked A-... is an ASSUMPTION. Keccak-256 is an uninterpreted function of the byte sequence it absorbs.
// The "documented recognition" (`documented_string`, `likely_string`, `correct_number_of_bytes`, `printable`, `is_nul`)
// is written from the DOC COMMENTS and block comments of proxy_slots.rs, not from the bodies (quoted next to each).
use vstd::prelude::*;
use std::sync::Arc;
//@include common/value_tree_items.rs
#[allow(dead_code, unused)]
mod hl_ext {
    use super::vt_ext::KnownWord;
    // A-ETHNUM: stand-in for ethnum::U256 (external crate), opaque.
    #[derive(Clone, Copy, PartialEq, Eq)]
    pub struct U256(pub [u128; 2]);
    impl U256 {
        pub fn from_be_bytes(_b: [u8; 32]) -> U256 { unimplemented!() }
        pub fn to_be_bytes(self) -> [u8; 32] { unimplemented!() }
    }
    impl From<u64> for U256 { fn from(_v: u64) -> U256 { unimplemented!() } }
    // A-CALLEE: the `KnownWord` methods the lifts use (src/vm/value/known.rs; `from_le`'s `impl Into<U256>` argument
    // monomorphised to the one type the code under contract passes).
    impl KnownWord {
        pub fn bytes_be(&self) -> [u8; 32] { unimplemented!() }
        pub fn from_le(_v: U256) -> KnownWord { unimplemented!() }
        pub fn value_le(&self) -> U256 { unimplemented!() }
        // robustness shims (NO contract beyond determinism): other readings of the word an edit might look the table up with
        pub fn value_be(&self) -> U256 { unimplemented!() }
        pub fn value_le_signed(&self) -> U256 { unimplemented!() }
    }
    impl From<usize> for KnownWord { fn from(_v: usize) -> KnownWord { unimplemented!() } }
    // A-EXT: sha3::Keccak256 through the `Digest` interface (`new`, `update`, `finalize`), the GenericArray it returns
    // (`to_vec`), and the `as_slice().try_into()` conversion of that vector into `[u8; 32]` (std TryFrom<&[u8]> for arrays;
    // the orphan rule forbids giving vstd's TryFrom spec for foreign types, so the vector and slice are stand-in types
    // that carry the calls VERBATIM).
    pub struct Keccak256(pub Vec<u8>);
    pub struct VxDigestOutput(pub Vec<u8>);
    pub struct VxHashVec(pub Vec<u8>);
    pub struct VxHashSlice(pub Vec<u8>);
    #[derive(Debug)]
    pub struct VxSliceError(pub u8);
    impl Keccak256 {
        pub fn new() -> Self { unimplemented!() }
        pub fn update(&mut self, _data: [u8; 32]) { unimplemented!() }
        pub fn finalize(self) -> VxDigestOutput { unimplemented!() }
    }
    impl VxDigestOutput { pub fn to_vec(&self) -> VxHashVec { unimplemented!() } }
    impl VxHashVec { pub fn as_slice(&self) -> VxHashSlice { unimplemented!() } }
    impl VxHashSlice { pub fn try_into(self) -> Result<[u8; 32], VxSliceError> { unimplemented!() } }
    // A-EXT: interface stand-ins. The unifier state is not touched; the error container only appears in `run`'s return type.
    pub struct TypeCheckerState(pub u8);
    pub struct Errors(pub u8);
}
use hl_ext::{U256, Keccak256, TypeCheckerState};
#[allow(dead_code, unused)]
mod error { pub mod unification { pub type Result<T> = std::result::Result<T, crate::hl_ext::Errors>; } }

verus! {

#[verifier::external_type_specification]
#[verifier::external_body]
pub struct ExU256(U256);
#[verifier::external_type_specification]
#[verifier::external_body]
pub struct ExKeccak256(Keccak256);
#[verifier::external_type_specification]
#[verifier::external_body]
pub struct ExVxDigestOutput(hl_ext::VxDigestOutput);
#[verifier::external_type_specification]
#[verifier::external_body]
pub struct ExVxHashVec(hl_ext::VxHashVec);
#[verifier::external_type_specification]
#[verifier::external_body]
pub struct ExVxHashSlice(hl_ext::VxHashSlice);
#[verifier::external_type_specification]
#[verifier::external_body]
pub struct ExVxSliceError(hl_ext::VxSliceError);
#[verifier::external_type_specification]
#[verifier::external_body]
pub struct ExTypeCheckerState(TypeCheckerState);
#[verifier::external_type_specification]
#[verifier::external_body]
pub struct ExErrors(hl_ext::Errors);

//@extract file=src/constant.rs path="const SOLIDITY_STRING_POINTER" kind=type
//@end

// =====================================================================================================
//                                  words, bytes, Keccak (ASSUMPTIONS)
// =====================================================================================================

/// A-CALLEE: the 32 bytes of a word in big-endian (network) order — `KnownWord::bytes_be` = `self.value.to_be_bytes()`
/// (that `value_be` is the byte-swapped word is proved in unit known_word). Uninterpreted.
pub uninterp spec fn kw_bytes(w: KnownWord) -> Seq<u8>;
pub broadcast axiom fn kw_bytes_len(w: KnownWord)
    ensures #[trigger] kw_bytes(w).len() == 32;
pub assume_specification[ KnownWord::bytes_be ](w: &KnownWord) -> (r: [u8; 32]) ensures r@ == kw_bytes(*w);
/// A-CALLEE: `KnownWord::value_le` / `KnownWord::from_le` read / wrap the one field of the struct; `From<usize>` is the
/// word whose number is the argument.
pub uninterp spec fn kw_value(w: KnownWord) -> U256;
pub uninterp spec fn kw_of_u256(v: U256) -> KnownWord;
pub uninterp spec fn kw_of_usize(v: usize) -> KnownWord;
pub assume_specification[ KnownWord::value_le ](w: &KnownWord) -> (r: U256) ensures r == kw_value(*w);
pub uninterp spec fn kw_value_be(w: KnownWord) -> U256;
pub assume_specification[ KnownWord::value_be ](w: &KnownWord) -> (r: U256) ensures r == kw_value_be(*w);
pub assume_specification[ KnownWord::value_le_signed ](w: &KnownWord) -> (r: U256);
pub assume_specification[ KnownWord::from_le ](v: U256) -> (r: KnownWord) ensures r == kw_of_u256(v);
impl vstd::std_specs::convert::FromSpecImpl<usize> for KnownWord {
    open spec fn obeys_from_spec() -> bool { true }
    open spec fn from_spec(v: usize) -> KnownWord { kw_of_usize(v) }
}
pub assume_specification[ <KnownWord as core::convert::From<usize>>::from ](v: usize) -> (r: KnownWord);

/// A-ETHNUM: `U256::from_be_bytes`, `to_be_bytes`, `From<u64>`: uninterpreted (determinism only).
pub uninterp spec fn u256_of_be(b: Seq<u8>) -> U256;
pub uninterp spec fn u256_be_bytes(v: U256) -> Seq<u8>;
pub uninterp spec fn u256_of_nat(n: nat) -> U256;
pub assume_specification[ U256::from_be_bytes ](b: [u8; 32]) -> (r: U256) ensures r == u256_of_be(b@);
pub assume_specification[ U256::to_be_bytes ](v: U256) -> (r: [u8; 32]) ensures r@ == u256_be_bytes(v);
impl vstd::std_specs::convert::FromSpecImpl<u64> for U256 {
    open spec fn obeys_from_spec() -> bool { true }
    open spec fn from_spec(v: u64) -> U256 { u256_of_nat(v as nat) }
}
pub assume_specification[ <U256 as core::convert::From<u64>>::from ](v: u64) -> (r: U256);

/// A-EXT: Keccak-256 as a function from the absorbed bytes to the 32 digest bytes. Uninterpreted: NOTHING about the
/// hash is assumed beyond being a function with a 32-byte result.
pub uninterp spec fn keccak256(bytes: Seq<u8>) -> Seq<u8>;
pub uninterp spec fn absorbed(h: Keccak256) -> Seq<u8>;
pub uninterp spec fn digest_bytes(o: hl_ext::VxDigestOutput) -> Seq<u8>;
pub uninterp spec fn hash_vec(o: hl_ext::VxHashVec) -> Seq<u8>;
pub uninterp spec fn hash_slice(o: hl_ext::VxHashSlice) -> Seq<u8>;
pub assume_specification[ Keccak256::new ]() -> (r: Keccak256) ensures absorbed(r) == Seq::<u8>::empty();
pub assume_specification[ Keccak256::update ](h: &mut Keccak256, data: [u8; 32]) ensures absorbed(*final(h)) == absorbed(*old(h)) + data@;
pub assume_specification[ Keccak256::finalize ](h: Keccak256) -> (r: hl_ext::VxDigestOutput)
    ensures digest_bytes(r) == keccak256(absorbed(h)), digest_bytes(r).len() == 32;
pub assume_specification[ hl_ext::VxDigestOutput::to_vec ](o: &hl_ext::VxDigestOutput) -> (r: hl_ext::VxHashVec) ensures hash_vec(r) == digest_bytes(*o);
pub assume_specification[ hl_ext::VxHashVec::as_slice ](o: &hl_ext::VxHashVec) -> (r: hl_ext::VxHashSlice) ensures hash_slice(r) == hash_vec(*o);
// A-STD: `<[u8; 32]>::try_from(&[u8])` succeeds exactly on a slice of 32 bytes, and then copies it
pub assume_specification[ hl_ext::VxHashSlice::try_into ](o: hl_ext::VxHashSlice) -> (r: Result<[u8; 32], hl_ext::VxSliceError>)
    ensures hash_slice(o).len() == 32 ==> (r matches Ok(a) && a@ == hash_slice(o)), hash_slice(o).len() != 32 ==> r is Err;

/// all bytes of the words, in order, each word big-endian
pub open spec fn words_bytes(ws: Seq<KnownWord>) -> Seq<u8>
    decreases ws.len(),
{
    if ws.len() == 0 { Seq::empty() } else { words_bytes(ws.drop_last()) + kw_bytes(ws.last()) }
}

/// the slot key the lift computes: "the keccak256 hash of the provided `words` in order, using big-endian byte
/// encoding" (doc of sha3_known_words), read back as a big-endian number
pub open spec fn keccak_of(ws: Seq<KnownWord>) -> KnownWord {
    kw_of_u256(u256_of_be(keccak256(words_bytes(ws))))
}

// =====================================================================================================
//                       the documented recognition (from the doc comments of proxy_slots.rs)
// =====================================================================================================

/// "Strips any trailing `NUL` bytes in the byte string" (doc of strip_trailing_nuls)
pub open spec fn is_nul(b: u8) -> bool { b == 0 }
pub open spec fn strip_nuls(s: Seq<u8>) -> Seq<u8>
    decreases s.len(),
{
    if s.len() > 0 && is_nul(s.last()) { strip_nuls(s.drop_last()) } else { s }
}
/// "the ASCII printable range": the 95 characters 0x20..=0x7e ("The chances of all bytes ... being in the printable ascii
/// character range is (95/256) ^ n"). NOTE: the same doc comment spells the range as `0x1f <= c < 0x7f`, which has 96
/// members and includes the control character 0x1f; the 95 and "printable" fix the meaning. See the unit's notes.
pub open spec fn printable(b: u8) -> bool { 0x20 <= b && b <= 0x7e }
/// doc of is_likely_string: "it collects all bytes in big-endian byte ordering, removes any trailing `NUL` bytes, and
/// then checks that all remaining bytes fall into the ASCII printable range"; "The string must meet the below likelihood
/// criteria as well as have its MSB be non-zero."
pub open spec fn likely_string(ws: Seq<KnownWord>) -> bool {
    &&& ws.len() > 0
    &&& !is_nul(words_bytes(ws)[0])
    &&& forall|i: int| 0 <= i < strip_nuls(words_bytes(ws)).len() ==> printable(#[trigger] strip_nuls(words_bytes(ws))[i])
}
/// doc of has_correct_number_of_bytes: "the byte length of the byte string described by `words` is `expected_len`. It does
/// this by dropping any trailing `NUL` bytes in the string and then counting the number of bytes."
pub open spec fn correct_number_of_bytes(ws: Seq<KnownWord>, expected_len: KnownWord) -> bool {
    kw_of_usize(strip_nuls(words_bytes(ws)).len() as usize) == expected_len
}
/// block comments of unpick_sha3_data: "If we can surmise it to be a non-packed encoding by looking for the string pointer
/// in the first index, then we can treat the second index as the length" (SOLIDITY_STRING_POINTER: "The value that
/// solidity uses to type tag `string` in ABI encoding" = 0x20): the ABI shape `0x20, len, bytes…`
pub open spec fn abi_string_shape(w: Seq<KnownWord>) -> bool { w.len() >= 3 && w[0] == kw_of_usize(0x20) }
/// … "If the length doesn't match, or it doesn't look like a string, we're wrong about the encoding and bail"; "Even if it
/// does not match an encoding, we expect it to look like a string"
pub open spec fn documented_string(w: Seq<KnownWord>) -> bool {
    if abi_string_shape(w) { correct_number_of_bytes(w.skip(2), w[1]) && likely_string(w.skip(2)) } else { likely_string(w) }
}

// ---- lemmas about the byte views ----
pub proof fn lemma_words_bytes_len(ws: Seq<KnownWord>)
    ensures words_bytes(ws).len() == 32 * ws.len(),
    decreases ws.len(),
{
    broadcast use kw_bytes_len;
    if ws.len() > 0 { lemma_words_bytes_len(ws.drop_last()); }
}
/// the first byte of the byte string is the first byte of the first word
pub proof fn lemma_words_bytes_first(ws: Seq<KnownWord>)
    requires ws.len() > 0,
    ensures words_bytes(ws).len() >= 32, words_bytes(ws)[0] == kw_bytes(ws[0])[0],
    decreases ws.len(),
{
    broadcast use kw_bytes_len;
    lemma_words_bytes_len(ws);
    if ws.len() == 1 {
        assert(words_bytes(ws.drop_last()) =~= Seq::<u8>::empty());
        assert(words_bytes(ws) =~= kw_bytes(ws[0]));
    } else {
        lemma_words_bytes_first(ws.drop_last());
        assert(ws.drop_last()[0] == ws[0]);
    }
}
pub proof fn lemma_words_bytes_step(ws: Seq<KnownWord>, n: int)
    requires 0 <= n < ws.len(),
    ensures words_bytes(ws.take(n + 1)) == words_bytes(ws.take(n)) + kw_bytes(ws[n]),
{
    assert(ws.take(n + 1).drop_last() =~= ws.take(n));
}
/// dropping `k` bytes from the back, all of them NUL, up to a byte that is not: that is `strip_nuls`
pub broadcast proof fn lemma_strip(s: Seq<u8>, k: int)
    requires
        0 <= k <= s.len(),
        forall|i: int| 0 <= i < k ==> is_nul(#[trigger] s.reverse()[i]),
        k < s.len() ==> !is_nul(s.reverse()[k]),
    ensures #[trigger] s.reverse().skip(k).reverse() == strip_nuls(s),
    decreases k,
{
    if k == 0 {
        assert(s.reverse().skip(0).reverse() =~= s);
        if s.len() > 0 { assert(s.reverse()[0] == s.last()); }
    } else {
        assert(s.reverse()[0] == s.last());
        let t = s.drop_last();
        assert forall|i: int| 0 <= i < k - 1 implies is_nul(#[trigger] t.reverse()[i]) by { assert(t.reverse()[i] == s.reverse()[i + 1]); }
        if k - 1 < t.len() { assert(t.reverse()[k - 1] == s.reverse()[k]); }
        lemma_strip(t, k - 1);
        assert(s.reverse().skip(k).reverse() =~= t.reverse().skip(k - 1).reverse());
    }
}
/// a one-element sequence is determined by its element (extensionality, packaged for the `&[value]` call sites)
pub broadcast proof fn lemma_single_likely(s: Seq<KnownWord>)
    requires s.len() == 1,
    ensures #[trigger] likely_string(s) == likely_string(seq![s[0]]),
{
    assert(s =~= seq![s[0]]);
}
pub broadcast proof fn lemma_single_keccak(s: Seq<KnownWord>)
    requires s.len() == 1,
    ensures #[trigger] keccak_of(s) == keccak_of(seq![s[0]]),
{
    assert(s =~= seq![s[0]]);
}

// =====================================================================================================
//                            iterator pipeline stand-ins (A-STD): an iterator = the sequence it yields
// =====================================================================================================
#[verifier::external_body]
#[verifier::reject_recursive_types(T)]
pub struct VxIter<T> { _v: Vec<T> }
/// how many leading items `skip_while` drops / the position at which `all` met a `false`
pub uninterp spec fn vx_skip_count<T, F>(s: Seq<T>, f: F) -> int;
pub uninterp spec fn vx_all_witness<T, F>(s: Seq<T>, f: F) -> int;
impl<T> VxIter<T> {
    pub uninterp spec fn seq(&self) -> Seq<T>;
    // A-STD: `Iterator::rev` on a double-ended iterator: the items back to front
    #[verifier::external_body]
    pub fn rev(self) -> (r: Self) ensures r.seq() == self.seq().reverse() { unimplemented!() }
    // A-STD: `Iterator::skip_while(p)`: drops the longest prefix on which `p` answered true, yields the rest in order
    #[verifier::external_body]
    pub fn skip_while<F: Fn(&T) -> bool>(self, f: F) -> (r: Self)
        requires forall|x: &T| #[trigger] f.requires((x,)),
        ensures ({
            let k = vx_skip_count(self.seq(), f);
            &&& 0 <= k <= self.seq().len()
            &&& r.seq() == self.seq().skip(k)
            &&& forall|i: int| 0 <= i < k ==> f.ensures((&#[trigger] self.seq()[i],), true)
            &&& k < self.seq().len() ==> f.ensures((&self.seq()[k],), false)
        }),
    { unimplemented!() }
    // A-STD: `Iterator::all(p)`: true iff `p` answered true on every item (it stops at the first false)
    #[verifier::external_body]
    pub fn all<F: Fn(T) -> bool>(self, f: F) -> (r: bool)
        requires forall|x: T| #[trigger] f.requires((x,)),
        ensures
            r ==> forall|i: int| 0 <= i < self.seq().len() ==> f.ensures((#[trigger] self.seq()[i],), true),
            !r ==> 0 <= vx_all_witness(self.seq(), f) < self.seq().len() && f.ensures((self.seq()[vx_all_witness(self.seq(), f)],), false),
    { unimplemented!() }
    // A-STD: itertools `collect_vec`: the items in order
    #[verifier::external_body]
    pub fn collect_vec(self) -> (r: Vec<T>) ensures r@ == self.seq() { unimplemented!() }
}
// A-STD: `slice::iter` yields a reference to every element, in index order
#[verifier::external_body]
pub fn vx_iter<'a, T>(v: &'a Vec<T>) -> (r: VxIter<&'a T>)
    ensures r.seq().len() == v@.len(), forall|i: int| #![trigger r.seq()[i]] #![trigger v@[i]] 0 <= i < v@.len() ==> *r.seq()[i] == v@[i],
{ unimplemented!() }
// A-STD: `Vec::into_iter` yields the elements in order
#[verifier::external_body]
pub fn vx_from_vec<T>(v: Vec<T>) -> (r: VxIter<T>) ensures r.seq() == v@ { unimplemented!() }
// A-STD: `<[T]>::reverse` (through `Vec`'s DerefMut) reverses in place
pub assume_specification<T>[ <[T]>::reverse ](s: &mut [T]) ensures final(s)@ == old(s)@.reverse();
// A-STD: appending the items of an array to a vector (`flat_map` over `[u8; 32]` items, desugared by R-FOREACH)
#[verifier::external_body]
fn vx_extend_array(v: &mut Vec<u8>, a: [u8; 32])
    ensures final(v)@ == old(v)@ + a@,
{ v.extend(a) }

// =====================================================================================================
//                                   src/tc/lift/proxy_slots.rs — helpers
// =====================================================================================================
//@extract file=src/tc/lift/proxy_slots.rs path="struct ProxySlots" kind=type
//@end
//@extract file=src/tc/lift/proxy_slots.rs path="impl ProxySlots" kind=header
//@end

// R-FOREACH: `for word in words {` over a slice -> index loop (`let word = &words[i];`), body untouched.
//@extract file=src/tc/lift/proxy_slots.rs path="impl ProxySlots|fn sha3_known_words"
//@ret r
//@rw R-FOREACH
//@old
for $1 in words {
//@new
let mut vx_i: usize = 0;
        while vx_i < words.len() { let $1 = &words[vx_i]; vx_i += 1;
//@spec
        ensures
            r == keccak_of(words@),                                                               //@ob C05.hl.sha3_known_words.hash_of_all_words_in_order
//@loop 1 kind=while
            invariant
                vx_i <= words.len(),
                absorbed(hasher) == words_bytes(words@.take(vx_i as int)),                        //@ob C05.hl.sha3_known_words.hash_of_all_words_in_order
            decreases words.len() - vx_i,
//@proof loopstart #1
            proof { lemma_words_bytes_step(words@, vx_i as int); }
//@proof afterloop #1
        proof { assert(words@.take(vx_i as int) =~= words@); }
//@end

// Rewrites of strip_trailing_nuls:
//   1. R-FOREACH `words.iter().flat_map(F).collect_vec()` -> index loop appending `F(&words[i])` (F carried over by `$1`)
//   2. R-CALL    `all_bytes.into_iter()` -> A-STD stand-in `vx_from_vec(all_bytes)`; `.rev()`, `.skip_while(..)`, `.collect_vec()`
//                stay VERBATIM as methods of the stand-in iterator (assumed Seq meanings above)
//   3. R-SIG     the `skip_while` closure gets its parameter type and a postcondition written from the doc ("NUL bytes");
//                its BODY (`byte == &0x0`) is carried over verbatim and verified against that postcondition
//@extract file=src/tc/lift/proxy_slots.rs path="impl ProxySlots|fn strip_trailing_nuls"
//@ret r
//@rw R-FOREACH
//@old
let all_bytes: Vec<u8> = words.iter().flat_map($1).collect_vec();
//@new
let mut all_bytes: Vec<u8> = Vec::new();
        let mut vx_i: usize = 0;
        while vx_i < words.len()
            invariant
                vx_i <= words.len(),
                all_bytes@ == words_bytes(words@.take(vx_i as int)),                              //@ob C05.hl.strip.all_bytes_big_endian_in_order
            decreases words.len() - vx_i,
        {
            let vx_part: [u8; 32] = ($1)(&words[vx_i]);
            proof { lemma_words_bytes_step(words@, vx_i as int); }
            vx_i += 1;
            vx_extend_array(&mut all_bytes, vx_part);
        }
        proof { assert(words@.take(vx_i as int) =~= words@); }
//@rw R-CALL
//@old
all_bytes.into_iter()
//@new
vx_from_vec(all_bytes)
//@rw R-SIG
//@old
.skip_while(|byte| $1)
//@new
.skip_while(|byte: &u8| -> (vx_b: bool)
                ensures vx_b == is_nul(*byte)                                                     //@ob C05.hl.strip.exactly_trailing_nuls_removed
                { $1 })
//@spec
        ensures
            r@ == strip_nuls(words_bytes(words@)),                                                //@ob C05.hl.strip.exactly_trailing_nuls_removed
//@proof entry
        broadcast use lemma_strip;
//@end

// Rewrites of is_likely_string: R-CALL `stripped.iter()` -> `vx_iter(&stripped)`; R-SIG the `all` closure gets its
// parameter type and a postcondition written from the doc ("ASCII printable range"), its body is carried over verbatim.
//@extract file=src/tc/lift/proxy_slots.rs path="impl ProxySlots|fn is_likely_string"
//@ret r
//@rw R-CALL
//@old
stripped.iter()
//@new
vx_iter(&stripped)
//@rw R-SIG
//@old
.all(|byte| $1)
//@new
.all(|byte: &u8| -> (vx_b: bool)
                ensures vx_b == printable(*byte)                                                  //@ob C05.hl.is_likely_string.printable_ascii_only
                { $1 })
//@spec
        ensures
            r == likely_string(words@),                                                           //@ob C05.hl.is_likely_string.as_documented
//@proof entry
        proof { if words@.len() > 0 { lemma_words_bytes_first(words@); } }
//@end

//@extract file=src/tc/lift/proxy_slots.rs path="impl ProxySlots|fn has_correct_number_of_bytes"
//@ret r
//@spec
        ensures
            r == correct_number_of_bytes(words@, expected_len),                                   //@ob C05.hl.has_correct_number_of_bytes.as_documented
//@end
}

// =====================================================================================================
//                                   src/tc/lift/proxy_slots.rs — the lift
// =====================================================================================================
// A-EXT: the `Lift` interface of src/tc/lift/mod.rs (supertraits Any + Debug + Downcast dropped; a declaration
// without executable content).
trait Lift {
    fn run(&mut self, value: RuntimeBoxedVal, state: &TypeCheckerState) -> crate::error::unification::Result<RuntimeBoxedVal>;
}

// ---------------- A-CALLEE: the traversal combinator and the folder ----------------
// `v.transform_data(f)` returns an uninterpreted value `txf(v, f)` that depends on WHICH function `f` is passed
// (determinism only). `constant_fold` on a node / on a payload: uninterpreted (determinism only, as in unit arith_sites;
// what the folder computes is under contract in units fold_arms / transform).
pub uninterp spec fn txf<F>(v: RSV, f: F) -> RSV;
/// … and, for a CLOSURE (which no contract can name): `out` is the result of traversing `v` with some function whose
/// question/answer behaviour is the relation `answers` (uninterpreted; determinism is not even assumed)
pub uninterp spec fn traversed(v: RSV, out: RSV, answers: spec_fn(RSVD, Option<RSVD>) -> bool) -> bool;
pub open spec fn answers_of<F: Fn(&RSVD) -> Option<RSVD>>(f: F) -> spec_fn(RSVD, Option<RSVD>) -> bool {
    |d: RSVD, o: Option<RSVD>| f.ensures((&d,), o)
}
pub uninterp spec fn cfold(v: RSV) -> RSV;
pub uninterp spec fn cfold_data(d: RSVD) -> RSVD;
impl RSVD {
    #[verifier::external_body]
    pub fn constant_fold(&self) -> (r: Self) ensures r == cfold_data(*self) { unimplemented!() }
}
impl RSV {
    #[verifier::external_body]
    pub fn transform_data<F: Fn(&RSVD) -> Option<RSVD>>(&self, transform: F) -> (r: RuntimeBoxedVal)
        ensures *r == txf(*self, transform), traversed(*self, *r, answers_of(transform)),
    { unimplemented!() }
    #[verifier::external_body]
    pub fn constant_fold(&self) -> (r: RuntimeBoxedVal) ensures *r == cfold(*self) { unimplemented!() }
    // A-CALLEE: `RSV::new` — contract PROVED in unit value_size (C18.vs.new.no_limit_untouched, C18.vs.new.frame);
    // restated here without its no-overflow precondition `child_size() + 1` (see //@dropped).
    #[verifier::external_body]
    pub fn new(instruction_pointer: u32, data: RSVD, provenance: Provenance, value_size_limit: Option<usize>) -> (r: RuntimeBoxedVal)
        ensures
            value_size_limit is None ==> r.dt() == data,
            r.ip() == instruction_pointer && r.prov() == provenance,
    { unimplemented!() }
}

/// what one operand of a concatenation contributes to the words to be hashed: its constant if it folds to one, else nothing
pub open spec fn const_part(v: RSV) -> Seq<KnownWord> {
    match cfold(v).dt() { RSVD::KnownData { value } => seq![value], _ => Seq::empty() }
}
/// … for all operands, in order (the meaning of the `flat_map` in unpick_sha3_data)
pub open spec fn const_words(values: Seq<RuntimeBoxedVal>) -> Seq<KnownWord>
    decreases values.len(),
{
    if values.len() == 0 { Seq::empty() } else { const_words(values.drop_last()) + const_part(*values.last()) }
}
/// every operand constant-folds to a constant
pub open spec fn all_constant(values: Seq<RuntimeBoxedVal>) -> bool {
    forall|i: int| 0 <= i < values.len() ==> cfold(*#[trigger] values[i]).dt() is KnownData
}
/// the folded constants of ALL the operands, position by position
pub open spec fn folded_words(values: Seq<RuntimeBoxedVal>) -> Seq<KnownWord> {
    Seq::new(values.len(), |i: int| match cfold(*values[i]).dt() { RSVD::KnownData { value } => value, _ => arbitrary() })
}
/// EXACTLY the words that `sha3(pre)` hashes, when they are all known: the one word of a constant; ALL the operands of a
/// concatenation, each folded to a constant (never a sub-list: one operand that is not a constant and nothing is known)
pub open spec fn hashed_words(pre: RSV) -> Option<Seq<KnownWord>> {
    match pre.dt() {
        RSVD::KnownData { value } => Some(seq![value]),
        RSVD::Concat { values } => if all_constant(values@) { Some(folded_words(values@)) } else { None },
        _ => None,
    }
}
pub open spec fn the_words(pre: RSV) -> Seq<KnownWord> { match hashed_words(pre) { Some(w) => w, None => arbitrary() } }

pub proof fn lemma_const_words_step(values: Seq<RuntimeBoxedVal>, n: int)
    requires 0 <= n < values.len(),
    ensures const_words(values.take(n + 1)) == const_words(values.take(n)) + const_part(*values[n]),
{
    assert(values.take(n + 1).drop_last() =~= values.take(n));
}
/// as many words as operands <==> every operand is a constant, and then the words are the operands' constants in order
pub proof fn lemma_const_words(values: Seq<RuntimeBoxedVal>)
    ensures
        const_words(values).len() <= values.len(),
        const_words(values).len() == values.len() ==> all_constant(values) && const_words(values) == folded_words(values),
    decreases values.len(),
{
    if values.len() > 0 {
        let init = values.drop_last();
        lemma_const_words(init);
        if const_words(values).len() == values.len() {
            assert(const_words(init).len() == init.len() && const_part(*values.last()).len() == 1);
            assert forall|i: int| 0 <= i < values.len() implies cfold(*#[trigger] values[i]).dt() is KnownData by {
                if i < init.len() { assert(init[i] == values[i]); }
            }
            assert forall|i: int| 0 <= i < values.len() implies const_words(values)[i] == folded_words(values)[i] by {
                if i < init.len() { assert(init[i] == values[i]); assert(folded_words(init)[i] == folded_words(values)[i]); }
            }
            assert(const_words(values) =~= folded_words(values));
        }
    } else {
        assert(const_words(values) =~= folded_words(values));
    }
}

// Rewrite of unpick_sha3_data: R-FOREACH `values.iter().cloned().flat_map(|value| BODY).collect_vec()` -> index loop that
// runs BODY (carried over verbatim by `$1`: the fold, the match on the folded payload, `vec![*value]` / `Vec::new()`) on a clone
// of every operand in order and appends what it yields.
//@extract file=src/tc/lift/proxy_slots.rs path="impl Lift for ProxySlots|fn run|fn unpick_sha3_data"
//@ret r
//@rw R-FOREACH
//@old
let words = values
                        .iter()
                        .cloned()
                        .flat_map(|value| $1)
                        .collect_vec();
//@new
let mut words: Vec<KnownWord> = Vec::new();
                    let mut vx_i: usize = 0;
                    while vx_i < values.len()
                        invariant
                            vx_i <= values.len(),
                            words@ == const_words(values@.take(vx_i as int)),                     //@ob C05.hl.proxy.hashes_exactly_the_hashed_words
                        decreases values.len() - vx_i,
                    {
                        let value = values[vx_i].clone();
                        let ghost vx_v = values@[vx_i as int];
                        proof { lemma_const_words_step(values@, vx_i as int); }
                        vx_i += 1;
                        let mut vx_part: Vec<KnownWord> = $1;
                        proof { assert(vx_part@ =~= const_part(*vx_v)); }                 //@ob C05.hl.proxy.hashes_exactly_the_hashed_words
                        words.append(&mut vx_part);
                    }
                    proof {
                        assert(values@.take(vx_i as int) =~= values@);
                        lemma_const_words(values@);
                    }
//@spec
    ensures
        r is Some ==> *data is Sha3,                                                              //@ob C05.hl.proxy.only_a_hash_is_unpicked
        // … of words that are ALL known (a partly constant concatenation is not hashed)
        r is Some ==> (*data matches RSVD::Sha3 { data: pre } && hashed_words(*pre) is Some),    //@ob C05.hl.proxy.partly_constant_input_is_not_hashed
        // … the result is the constant keccak(EXACTLY the words hashed)
        r matches Some(d2) ==> (*data matches RSVD::Sha3 { data: pre } && d2 == (RSVD::KnownData { value: keccak_of(the_words(*pre)) })),   //@ob C05.hl.proxy.hashes_exactly_the_hashed_words
        // … and only when the words pass the string test the code documents
        r is Some ==> (*data matches RSVD::Sha3 { data: pre } && documented_string(the_words(*pre))),   //@ob C05.hl.proxy.only_documented_strings
//@proof entry
    broadcast use lemma_single_likely, lemma_single_keccak;
//@proof before "let length ="
                        assert(1 < words@.len() && 2 <= words@.len());                            //@ob C01.hl.proxy.indices_in_bounds
//@end

/// `n` is the unpicked form of the hash node `h`: the constant keccak(EXACTLY the documented words `h` hashes), at `h`'s location
pub open spec fn unpicked_hash(h: RSV, n: RSV) -> bool {
    h.dt() matches RSVD::Sha3 { data: pre } && hashed_words(*pre) is Some && documented_string(the_words(*pre))
        && n.dt() == (RSVD::KnownData { value: keccak_of(the_words(*pre)) }) && n.ip() == h.ip() && n.prov() == h.prov()
}

// `unpick_proxy_slots`: "hash, or hash + constant folded to a constant" — the constant addition the tool documents.
//@extract file=src/tc/lift/proxy_slots.rs path="impl Lift for ProxySlots|fn run|fn unpick_proxy_slots"
//@ret r
//@spec
    ensures
        // a key is only ever replaced by a CONSTANT
        r matches Some(d2) ==> d2 is KnownData,                                                   //@ob C05.hl.proxy.unpick.key_becomes_a_constant
        // … and only a hash of documented words, or a sum with such a hash on one side
        r is Some ==> (*data is Sha3 || (*data matches RSVD::Add { left, right } && (left.dt() is Sha3 || right.dt() is Sha3))),   //@ob C05.hl.proxy.unpick.only_hash_or_hash_plus_offset
        // … the sum is the FOLDED sum of the unpicked hash (same location, same provenance) and the untouched other operand, in place
        r matches Some(d2) ==> (*data matches RSVD::Add { left, right } ==> exists|n: RuntimeBoxedVal|
            #![trigger cfold_data(RSVD::Add { left: n, right: right })] #![trigger cfold_data(RSVD::Add { left: left, right: n })]
            (unpicked_hash(*left, *n) && d2 == cfold_data(RSVD::Add { left: n, right: right }))
            || (unpicked_hash(*right, *n) && d2 == cfold_data(RSVD::Add { left: left, right: n }))),   //@ob C05.hl.proxy.unpick.sum_of_the_hash_and_the_other_operand
//@end

// A-CALLEE: `recognise_proxy_slots` (the guard: rewrites keys only inside storage loads and writes) is under contract in
// unit guards (C05.guard.recognise_proxy_slots.*); here it is only the function item that `run` must hand to the traversal.
#[verifier::external_body]
fn recognise_proxy_slots(data: &RSVD) -> Option<RSVD> { unimplemented!() }

//@extract file=src/tc/lift/proxy_slots.rs path="impl Lift for ProxySlots" kind=header
//@end
//@extract file=src/tc/lift/proxy_slots.rs path="impl Lift for ProxySlots|fn run"
//@ret r
//@hoist unpick_sha3_data unpick_proxy_slots recognise_proxy_slots
//@spec
        ensures
            r matches Ok(x) && *x == txf(*value, recognise_proxy_slots),                          //@ob C05.hl.proxy_run.passes_the_guard
//@end
}

// =====================================================================================================
//                                src/tc/lift/recognise_hashed_slots.rs
// =====================================================================================================
// A-STD: `std::sync::RwLock<T>`: `new(v)` protects `v`; `read()` hands out (a guard that dereferences to) the protected
// value, or a poison error. The protected value is a CONSTANT here: nothing in the crate takes the write lock of this
// table (`hashes.read()` in `run` is its only use), so `val()` is a function of the lock. The guard is modelled as a plain
// reference (Verus has no user `Deref`), which lets `hashes.get_by_left(..)` stay verbatim.
#[verifier::external_body]
#[verifier::reject_recursive_types(T)]
pub struct RwLock<T> { _v: Vec<T> }
pub struct VxPoisonError { _p: u8 }
impl<T> RwLock<T> {
    pub uninterp spec fn val(&self) -> T;
    #[verifier::external_body]
    pub fn new(v: T) -> (r: Self) ensures r.val() == v { unimplemented!() }
    #[verifier::external_body]
    pub fn read(&self) -> (r: Result<&T, VxPoisonError>) ensures r matches Ok(g) ==> *g == self.val() { unimplemented!() }
}
// A-EXT: `bimap::BiMap<L, R>` (a bijection kept as two hash maps), viewed from the left: `left(l)` is the right value
// paired with `l`, if any. `insert(l, r)` pairs `l` with `r` and REMOVES every pair that had `l` on the left or `r` on the
// right (bimap's documented overwrite semantics; its `Overwritten` return value is ignored by the code, `()` here).
#[verifier::external_body]
#[verifier::reject_recursive_types(L)]
#[verifier::reject_recursive_types(R)]
pub struct BiMap<L, R> { _l: Vec<L>, _r: Vec<R> }
impl<L, R> BiMap<L, R> {
    pub uninterp spec fn left(&self, l: L) -> Option<R>;
    #[verifier::external_body]
    pub fn new() -> (r: Self) ensures forall|l: L| #[trigger] r.left(l) is None { unimplemented!() }
    #[verifier::external_body]
    pub fn insert(&mut self, left: L, right: R)
        ensures
            final(self).left(left) == Some(right),
            forall|l: L| l != left ==> (#[trigger] final(self).left(l) == old(self).left(l) || final(self).left(l) is None),
    { unimplemented!() }
    #[verifier::external_body]
    pub fn get_by_left(&self, left: &L) -> (r: Option<&R>)
        ensures match self.left(*left) { Some(v) => (r matches Some(p) && *p == v), None => r is None },
    { unimplemented!() }
}

/// the documented table: "the sha3 hash of one of the first [`SLOT_COUNT`] integers", "assuming big-endian (network) byte
/// ordering" (docs of StorageSlotHashes / make_hashes): every pair of the table is (keccak(n as a 32-byte big-endian
/// integer) read back as a big-endian number, n) with n below the count
pub open spec fn slot_hash(n: usize) -> U256 { u256_of_be(keccak256(u256_be_bytes(u256_of_nat(n as nat)))) }
pub open spec fn table_ok(t: BiMap<U256, usize>, count: usize) -> bool {
    forall|k: U256| (#[trigger] t.left(k)) matches Some(n) ==> n < count && k == slot_hash(n)
}
/// what the recogniser may do to a node `d`: nothing, or — when `d` is a CONSTANT that the table pairs with `n` — replace it
/// by `sha3(n)` ("C becomes sha3(preimage(C))", doc of StorageSlotHashes)
pub open spec fn table_rewrite(t: BiMap<U256, usize>, d: RSVD, o: Option<RSVD>) -> bool {
    o matches Some(d2) ==> (d matches RSVD::KnownData { value: c } && (t.left(kw_value(c)) matches Some(n)
        && (d2 matches RSVD::Sha3 { data: pre } && pre.dt() == (RSVD::KnownData { value: kw_of_usize(n) }))))
}

//@extract file=src/tc/lift/recognise_hashed_slots.rs path="const SLOT_COUNT" kind=type
//@end
//@extract file=src/tc/lift/recognise_hashed_slots.rs path="struct StorageSlotHashes" kind=type
//@end
// spec views of the (private) field: the shared lock, and the table it protects
impl StorageSlotHashes {
    pub closed spec fn lock(&self) -> Arc<RwLock<BiMap<U256, usize>>> { self.hashes }
    pub closed spec fn table(&self) -> BiMap<U256, usize> { self.hashes.val() }
}
//@extract file=src/tc/lift/recognise_hashed_slots.rs path="impl StorageSlotHashes" kind=header
//@end
//@extract file=src/tc/lift/recognise_hashed_slots.rs path="impl StorageSlotHashes|fn make_hashes"
//@ret r
//@spec
        ensures
            table_ok(r, count),                                                                   //@ob C05.hl.recognise.table_holds_only_hashes_of_small_slots
//@loop 1 kind=for
            invariant
                table_ok(data, count),                                                            //@ob C05.hl.recognise.table_holds_only_hashes_of_small_slots
//@end
//@extract file=src/tc/lift/recognise_hashed_slots.rs path="impl StorageSlotHashes|fn new_with_hashes"
//@ret r
//@rw R-IMPL-INTO
//@old
hashes: impl Into<Arc<RwLock<BiMap<U256, usize>>>>
//@new
hashes: Arc<RwLock<BiMap<U256, usize>>>
//@rw R-IMPL-INTO
//@old
hashes: hashes.into(),
//@new
hashes: hashes,
//@spec
        ensures
            r.lock() == hashes && r.table() == hashes.val(),
//@end
//@extract file=src/tc/lift/recognise_hashed_slots.rs path="impl StorageSlotHashes|fn new"
//@ret r
//@spec
        ensures
            table_ok(r.table(), 10000),                                                           //@ob C05.hl.recognise.table_holds_only_hashes_of_small_slots
//@end
}

// A-CALLEE: `RSV::new_known_value` = `RSV::new(ip, KnownData { value }, provenance, limit)` (src/vm/value/mod.rs; `RSV::new`'s
// contract is proved in unit value_size: with no size limit the payload is untouched).
impl RSV {
    #[verifier::external_body]
    pub fn new_known_value(instruction_pointer: u32, value_data: KnownWord, provenance: Provenance, value_size_limit: Option<usize>) -> (r: RuntimeBoxedVal)
        ensures
            value_size_limit is None ==> r.dt() == (RSVD::KnownData { value: value_data }),
            r.ip() == instruction_pointer && r.prov() == provenance,
    { unimplemented!() }
}

// Rewrite of StorageSlotHashes::run: R-SIG — the closure `lift_hashes` gets its return type and its contract (a closure has
// no signature to splice one into); its BODY is untouched.
//@extract file=src/tc/lift/recognise_hashed_slots.rs path="impl Lift for StorageSlotHashes" kind=header
//@end
//@extract file=src/tc/lift/recognise_hashed_slots.rs path="impl Lift for StorageSlotHashes|fn run"
//@ret r
//@rw R-SIG
//@old
let lift_hashes = |input_value: &RSVD| {
//@new
let lift_hashes = |input_value: &RSVD| -> (vx_o: Option<RSVD>)
            ensures
                // only a CONSTANT that is a key of the table is rewritten …
                vx_o is Some ==> (*input_value matches RSVD::KnownData { value: c } && hashes.val().left(kw_value(c)) is Some),   //@ob C05.hl.recognise.only_table_hashes_are_rewritten
                // … and it is rewritten to sha3(the slot number the table pairs with it)
                table_rewrite(hashes.val(), *input_value, vx_o),                                  //@ob C05.hl.recognise.rewritten_to_the_preimage
        {
//@spec
        ensures
            // the result is the traversal of the input by a function all of whose answers are table rewrites (nothing else is touched)
            r matches Ok(x) && exists|answers: spec_fn(RSVD, Option<RSVD>) -> bool| #[trigger] traversed(*value, *x, answers)
                && forall|d: RSVD, o: Option<RSVD>| #[trigger] answers(d, o) ==> table_rewrite(old(self).table(), d, o),   //@ob C05.hl.recognise_run.passes_the_recogniser
            final(self).table() == old(self).table(),
//@end
}

// ---- A-CALLEE: the field-level reading of `KnownWord` (src/vm/value/known.rs), used ONLY by the client lemma below ----
// `from_le(value_le(w)) == w` (one-field struct; C06.kw.from_le.exact / C06.kw.value_le.exact in unit known_word),
// `bytes_be()` = `self.value.to_be_bytes()`, `From<usize>` = the word whose number is the argument.
pub broadcast axiom fn kw_field_roundtrip(w: KnownWord)
    ensures #[trigger] kw_of_u256(kw_value(w)) == w;
pub broadcast axiom fn kw_bytes_are_value_be_bytes(w: KnownWord)
    ensures #[trigger] kw_bytes(w) == u256_be_bytes(kw_value(w));
pub broadcast axiom fn kw_of_usize_value(n: usize)
    ensures #[trigger] kw_value(kw_of_usize(n)) == u256_of_nat(n as nat);

/// CLIENT LEMMA (C05: "hash-preimage recognition the tool itself documents"): with the table `new()` builds, a rewrite by
/// the recogniser replaces a constant C by sha3(n) ONLY IF C == keccak(n as a word) for an n below the documented count —
/// in the very vocabulary of the proxy lift (`keccak_of`): the rewritten tree denotes the same number.
pub proof fn lemma_table_rewrite_is_the_preimage(t: BiMap<U256, usize>, count: usize, d: RSVD, d2: RSVD)
    requires
        table_ok(t, count),
        table_rewrite(t, d, Some(d2)),
    ensures
        d matches RSVD::KnownData { value: c } && exists|n: usize| n < count && c == #[trigger] keccak_of(seq![kw_of_usize(n)])
            && (d2 matches RSVD::Sha3 { data: pre } && pre.dt() == (RSVD::KnownData { value: kw_of_usize(n) })),   //@ob C05.hl.recognise.only_hashes_of_small_slots_are_rewritten
{
    broadcast use kw_field_roundtrip, kw_bytes_are_value_be_bytes, kw_of_usize_value;
    let c = match d { RSVD::KnownData { value } => value, _ => arbitrary() };
    let n = match t.left(kw_value(c)) { Some(n) => n, None => arbitrary() };
    let ws = seq![kw_of_usize(n)];
    assert(words_bytes(ws.drop_last()) =~= Seq::<u8>::empty());
    assert(words_bytes(ws) =~= kw_bytes(kw_of_usize(n)));
    assert(kw_value(c) == slot_hash(n));
    assert(c == keccak_of(ws));
}

//@dropped Keccak-256 itself (sha3 crate): uninterpreted function `keccak256` of the absorbed byte sequence with a 32-byte result; the Digest call protocol (new / update appends / finalize / to_vec / as_slice().try_into()) is ASSUMED through verbatim-named stand-in types; nothing about collisions or preimages is assumed or proved
//@dropped KnownWord::{bytes_be, value_le, from_le, From<usize>} and ethnum U256::{from_be_bytes, to_be_bytes, From<u64>}: assumed callees, uninterpreted (determinism only) in every extracted function; the field-level reading (from_le(value_le(w)) == w, bytes_be = to_be_bytes of the value, From<usize> = that number) is assumed ONLY in the client lemma lemma_table_rewrite_is_the_preimage that translates the table's vocabulary into keccak_of(..)
//@dropped iterator adapters: `rev`, `skip_while`, `all`, `collect_vec`, `slice::iter`, `Vec::into_iter`, `<[T]>::reverse` are ASSUMED with their Seq meaning (stand-in VxIter; the chains of strip_trailing_nuls / is_likely_string stay verbatim after the entry call); the two `flat_map(..).collect_vec()` chains (strip_trailing_nuls over `KnownWord::bytes_be`, unpick_sha3_data over the folding closure) are DESUGARED (R-FOREACH) into index loops that run the mapped function / the closure body verbatim — that the loop means what `iter().cloned().flat_map(..)` means is the rewrite's claim, not a proof
//@dropped SymbolicValue::transform_data (the traversal that asks the recognisers about every node) and constant_fold: assumed callees, uninterpreted; that `run` hands the guard / the recogniser closure to the traversal is proved, what the traversal then does with the answers is not (unit transform has SymbolicValueData::transform under contract)
//@dropped recognise_proxy_slots: a declared stand-in here (the guard "only inside storage loads and writes" is under contract in unit guards: C05.guard.recognise_proxy_slots.*); RSV::new / new_known_value: assumed callees (contract proved in unit value_size), their no-overflow precondition `child_size() + 1` is not carried to the call sites
//@dropped std::sync::RwLock: modelled as an immutable cell (nothing in the crate takes the write lock of the table); a poisoned lock makes the recogniser answer None (that branch is under contract: it rewrites nothing); bimap::BiMap: assumed from its documented overwrite semantics, viewed from the left only; StorageSlotHashes::new_with_hashes is PUBLIC: a caller may install any table — run's contract is therefore stated relative to the table the pass holds (`table_rewrite`), and only `new()` (the one constructor the crate uses, src/tc/lift/mod.rs) is proved to establish `table_ok(.., 10000)`
//@dropped completeness (C06 direction) is NOT claimed: that every documented string IS unpicked, that every n < SLOT_COUNT IS in the table (needs keccak to be collision-free on 0..10000: BiMap::insert would overwrite), that is_likely_string accepts real-world strings
//@dropped ProxySlots::new / Default (Box::new(Self)), the tests of both files; the location data of the node the recogniser creates (it carries the instruction pointer and provenance of the ROOT value handed to `run`, not of the constant it replaces — the closure is not shown the node): noted, no property claims otherwise

} // verus!
fn main() {}
