//@unit props=C03,C01
// Unit limits — the primitives that enforce C03's bounds: the per-opcode visit counter
// (VisitedOpcodes), the fork budget per jump target (JumpTargets::fork_to) and gas accounting
// (VMThread::consume_gas / fork).  C17: errors are located at the instruction pointer passed in.
use vstd::prelude::*;
use std::collections::HashMap;
verus! {

// A-CALLEE: KnownWord is an opaque payload of one error variant here.
#[derive(Clone, Copy)]
pub struct KnownWord { _v: u8 }

// A-DERIVE: derived Clone on the error types is structural
#[derive(Clone)]
//@extract file=src/error/execution.rs path="enum Error" kind=type
//@end
#[derive(Clone)]
//@extract file=src/error/container.rs path="struct Located" kind=type
//@end
pub type LocatedError = Located<Error>;
// module paths the extracted code uses (`execution::Result`, `container::Located`)
pub mod execution { pub use super::Error; pub type LocatedError = super::LocatedError; pub type Result<T> = core::result::Result<T, super::LocatedError>; }
pub mod container { pub use super::Located; pub use super::Locatable; }
use container::Locatable as _;

//@extract file=src/error/container.rs path="trait Locatable" kind=type
//@rw R-SIG
//@old
fn locate(self, instruction_pointer: u32) -> Self::Located;
//@new
spec fn locate_spec(self, instruction_pointer: u32) -> Self::Located;
fn locate(self, instruction_pointer: u32) -> (r: Self::Located)
    ensures r == self.locate_spec(instruction_pointer);
//@end

//@extract file=src/error/execution.rs path="impl container::Locatable for Error" kind=header
//@end
    type Located = LocatedError;
    // C17: "located at a byte offset": the location attached is exactly the pointer handed in
    open spec fn locate_spec(self, instruction_pointer: u32) -> LocatedError {
        Located { location: instruction_pointer, payload: self }
    }
//@extract file=src/error/execution.rs path="impl container::Locatable for Error|fn locate" props=C17,C01
//@ret r
//@spec
        ensures r.location == instruction_pointer, r.payload == self,     //@ob C17.limits.locate.location_is_the_pointer
//@end
}

//@extract file=src/vm/data.rs path="struct VisitedOpcodes" kind=type
//@end

impl VisitedOpcodes {
    /// how often `ip` has been counted
    pub closed spec fn count(&self, ip: u32) -> nat { if self.data@.contains_key(ip) { self.data@[ip] as nat } else { 0 } }
    pub closed spec fn max(&self) -> nat { self.maximum_iterations_per_opcode as nat }
    pub closed spec fn len(&self) -> u32 { self.instructions_len }
    /// the bound C03 states: nothing is counted beyond the configured limit
    pub open spec fn within_limit(&self) -> bool { forall|ip: u32| #[trigger] self.count(ip) <= self.max() }
}

pub open spec fn is_oob(r: LocatedError, ip: u32, len: u32) -> bool {
    r.location == ip && r.payload == (Error::InstructionPointerOutOfBounds { requested: ip as usize, available: len as usize })
}

//@extract file=src/vm/data.rs path="impl VisitedOpcodes" kind=header
//@end
//@extract file=src/vm/data.rs path="impl VisitedOpcodes|fn new"
//@ret r
//@rw R-CALL
//@old
HashMap::default()
//@new
HashMap::new()
//@spec
        ensures
            forall|ip: u32| r.count(ip) == 0,                                     //@ob C03.limits.new.all_zero
            r.max() == maximum_iterations_per_opcode, r.len() == instructions_len,
//@end

//@extract file=src/vm/data.rs path="impl VisitedOpcodes|fn mark_visited"
//@ret r
//@rw R-ENTRY
//@old
self.data
    .entry(instruction_pointer)
    .and_modify(|count| *count = $1)
    .or_insert($2);
//@new
match self.data.get(&instruction_pointer) {
    Some(count) => { let count = *count; self.data.insert(instruction_pointer, $1); }
    None => { self.data.insert(instruction_pointer, $2); }
}
//@spec
        ensures
            final(self).max() == old(self).max(), final(self).len() == old(self).len(),
            instruction_pointer < old(self).len() ==> r is Ok
                && final(self).count(instruction_pointer) == (if old(self).count(instruction_pointer) == usize::MAX { usize::MAX as nat } else { old(self).count(instruction_pointer) + 1 }),   //@ob C03.limits.mark_visited.increments_exactly_one
            forall|o: u32| o != instruction_pointer ==> final(self).count(o) == old(self).count(o),       //@ob C03.limits.mark_visited.frame
            instruction_pointer >= old(self).len() ==> r is Err && is_oob(r->Err_0, instruction_pointer, old(self).len())
                && forall|o: u32| final(self).count(o) == old(self).count(o),                                //@ob C03.limits.mark_visited.out_of_bounds_unchanged
//@proof entry
        broadcast use vstd::std_specs::hash::group_hash_axioms;
//@end

//@extract file=src/vm/data.rs path="impl VisitedOpcodes|fn unmark_visited"
//@ret r
//@rw R-ENTRY
//@old
self.data
    .entry(instruction_pointer)
    .and_modify(|count| *count = $1)
    .or_insert($2);
//@new
match self.data.get(&instruction_pointer) {
    Some(count) => { let count = *count; self.data.insert(instruction_pointer, $1); }
    None => { self.data.insert(instruction_pointer, $2); }
}
//@spec
        ensures
            final(self).max() == old(self).max(), final(self).len() == old(self).len(),
            instruction_pointer < old(self).len() ==> r is Ok
                && final(self).count(instruction_pointer) == (if old(self).count(instruction_pointer) == 0 { 0 } else { (old(self).count(instruction_pointer) - 1) as nat }),   //@ob C03.limits.unmark_visited.decrements_exactly_one
            forall|o: u32| o != instruction_pointer ==> final(self).count(o) == old(self).count(o),       //@ob C03.limits.unmark_visited.frame
//@proof entry
        broadcast use vstd::std_specs::hash::group_hash_axioms;
//@end

//@extract file=src/vm/data.rs path="impl VisitedOpcodes|fn visit_count"
//@ret r
//@spec
        ensures
            instruction_pointer < self.len() ==> r is Ok && r->Ok_0 as nat == self.count(instruction_pointer),   //@ob C03.limits.visit_count.exact
            instruction_pointer >= self.len() ==> r is Err,
//@proof entry
        broadcast use vstd::std_specs::hash::group_hash_axioms;
//@end

//@extract file=src/vm/data.rs path="impl VisitedOpcodes|fn at_visit_limit"
//@ret r
//@spec
        ensures
            instruction_pointer < self.len() ==> r is Ok && r->Ok_0 == (self.count(instruction_pointer) >= self.max()),   //@ob C03.limits.at_visit_limit.exact_comparison
            instruction_pointer >= self.len() ==> r is Err && is_oob(r->Err_0, instruction_pointer, self.len()),
//@proof entry
        broadcast use vstd::std_specs::hash::group_hash_axioms;
//@end
}

// ---------------- JumpTargets ----------------
// A-CALLEE: ExecutionThread / DynOpcode are opaque; `instruction(i)` is Some exactly inside the code;
// the two downcast tests are R-CALL stand-ins for `as_ref().as_any().downcast_ref::<T>().is_none()`.
#[verifier::external_body]
pub struct ExecutionThread { _p: u8 }
#[verifier::external_body]
pub struct DynOpcode { _p: u8 }
pub uninterp spec fn et_len(t: &ExecutionThread) -> nat;
pub uninterp spec fn et_instr(t: &ExecutionThread, i: u32) -> DynOpcode;
pub uninterp spec fn op_is_jumpi(o: &DynOpcode) -> bool;
pub uninterp spec fn op_is_jumpdest(o: &DynOpcode) -> bool;
impl ExecutionThread {
    #[verifier::external_body]
    pub fn len(&self) -> (r: usize) ensures r as nat == et_len(self) { unimplemented!() }
    #[verifier::external_body]
    pub fn instruction(&self, i: u32) -> (r: Option<DynOpcode>)
        ensures r.is_some() == ((i as nat) < et_len(self)), r.is_some() ==> r.unwrap() == et_instr(self, i)
    { unimplemented!() }
}
#[verifier::external_body]
pub fn not_jumpi(o: &DynOpcode) -> (r: bool) ensures r == !op_is_jumpi(o) { unimplemented!() }
#[verifier::external_body]
pub fn not_jumpdest(o: &DynOpcode) -> (r: bool) ensures r == !op_is_jumpdest(o) { unimplemented!() }

// A-STD: `u32::try_from(n).expect(..)` is defined exactly for n <= u32::MAX (the panic is the precondition)
#[verifier::external_body]
pub fn vx_usize_as_u32(n: usize) -> (r: u32)
    requires n <= u32::MAX,
    ensures r == n,
{ unimplemented!() }

//@extract file=src/vm/data.rs path="struct JumpTargets" kind=type
//@end
impl JumpTargets {
    /// forks taken to jump target `t` so far
    pub closed spec fn forks(&self, t: u32) -> nat { self.tracker.count(t) }
    pub closed spec fn fork_limit(&self) -> nat { self.tracker.max() }
    pub closed spec fn wf(&self) -> bool { self.tracker.len() as nat == et_len(&self.instructions) }
    pub closed spec fn code(&self) -> &ExecutionThread { &self.instructions }
    pub open spec fn within_limit(&self) -> bool { forall|t: u32| #[trigger] self.forks(t) <= self.fork_limit() }
}

//@extract file=src/vm/data.rs path="impl JumpTargets" kind=header
//@end
//@extract file=src/vm/data.rs path="impl JumpTargets|fn new" props=C03,C01 id=JumpTargets::new
//@ret r
// R-CALL: `u32::try_from(len).expect(..)` -> a stand-in whose PRECONDITION is the panic condition (len <= u32::MAX: the premise
// `VM::new` carries as well; one instruction per code byte, so code of at most u32::MAX bytes)
//@rw R-CALL
//@old
u32::try_from(instructions_len).expect("Invalid instruction length provided")
//@new
vx_usize_as_u32(instructions_len)
//@spec
        requires et_len(&instructions) <= u32::MAX,
        ensures
            r.fork_limit() == maximum_forks_per_jump_target,                      //@ob C03.limits.jump_targets_new.budget_is_the_given_limit
            forall|t: u32| r.forks(t) == 0,                                       //@ob C03.limits.jump_targets_new.no_fork_granted_yet
            r.wf(), r.within_limit(),                                             //@ob C03.limits.jump_targets_new.bound_holds_initially
            *r.code() == instructions,
//@end

//@extract file=src/vm/data.rs path="impl JumpTargets|fn fork_to"
//@ret r
//@rw R-CALL
//@old
concrete_current_inst
    .as_ref()
    .as_any()
    .downcast_ref::<JumpI>()
    .is_none()
//@new
not_jumpi(&concrete_current_inst)
//@rw R-CALL
//@old
concrete_target_inst
    .as_ref()
    .as_any()
    .downcast_ref::<JumpDest>()
    .is_none()
//@new
not_jumpdest(&concrete_target_inst)
//@spec
        requires old(self).wf(),
        ensures
            final(self).wf(), final(self).fork_limit() == old(self).fork_limit(), final(self).code() == old(self).code(),
            // a fork is granted exactly while the target's budget is not used up, and is then counted once
            r is Ok && r->Ok_0 ==> old(self).forks(target_instruction) < old(self).fork_limit()
                && final(self).forks(target_instruction) == old(self).forks(target_instruction) + 1,        //@ob C03.limits.fork_to.granted_only_below_limit_and_counted
            r is Ok && !r->Ok_0 ==> old(self).forks(target_instruction) >= old(self).fork_limit()
                && final(self).forks(target_instruction) == old(self).forks(target_instruction),            //@ob C03.limits.fork_to.refused_at_limit_unchanged
            forall|o: u32| o != target_instruction ==> final(self).forks(o) == old(self).forks(o),           //@ob C03.limits.fork_to.frame
            r is Err ==> forall|o: u32| final(self).forks(o) == old(self).forks(o),                          //@ob C03.limits.fork_to.error_unchanged
            // only JUMPI -> JUMPDEST pairs inside the code are ever granted
            r is Ok ==> (current_instruction as nat) < et_len(old(self).code()) && (target_instruction as nat) < et_len(old(self).code())
                && op_is_jumpi(&et_instr(old(self).code(), current_instruction)) && op_is_jumpdest(&et_instr(old(self).code(), target_instruction)),   //@ob C08.limits.fork_to.only_jumpi_to_jumpdest
            r is Err ==> r->Err_0.location == current_instruction,                                            //@ob C17.limits.fork_to.error_located_at_current
//@end

//@extract file=src/vm/data.rs path="impl JumpTargets|fn cond_jump_count" props=C03,C17,C01 id=JumpTargets::cond_jump_count
//@ret r
//@rw R-CALL
//@old
concrete_target_inst
    .as_ref()
    .as_any()
    .downcast_ref::<JumpDest>()
    .is_none()
//@new
not_jumpdest(&concrete_target_inst)
//@spec
        requires self.wf(),
        ensures
            r is Ok ==> r->Ok_0 as nat == self.forks(instruction_pointer),                                   //@ob C03.limits.cond_jump_count.reports_the_forks_granted
            r is Ok <==> ((instruction_pointer as nat) < et_len(self.code()) && op_is_jumpdest(&et_instr(self.code(), instruction_pointer))),   //@ob C08.limits.cond_jump_count.only_for_jump_destinations
            r is Err ==> r->Err_0.location == instruction_pointer,                                            //@ob C17.limits.cond_jump_count.error_located
//@end
}

// C03: "no jump destination is forked to more often than the fork limit" — an invariant over fork_to's
// contract (the hypotheses are exactly fork_to's postconditions, so a caller can chain it over any history)
pub proof fn lemma_fork_bound_is_invariant(pre: JumpTargets, post: JumpTargets, target: u32, r: execution::Result<bool>)
    requires
        pre.within_limit(),
        post.fork_limit() == pre.fork_limit(),
        r is Ok && r->Ok_0 ==> pre.forks(target) < pre.fork_limit() && post.forks(target) == pre.forks(target) + 1,
        r is Ok && !r->Ok_0 ==> post.forks(target) == pre.forks(target),
        forall|o: u32| o != target ==> post.forks(o) == pre.forks(o),
        r is Err ==> forall|o: u32| post.forks(o) == pre.forks(o),
    ensures
        post.within_limit(),        //@ob C03.limits.lemma.fork_bound_is_invariant
{
    assert forall|t: u32| #[trigger] post.forks(t) <= post.fork_limit() by {
        if t != target { assert(post.forks(t) == pre.forks(t)); }
        assert(pre.forks(t) <= pre.fork_limit());
    }
}

// ---------------- gas ----------------
// A-CALLEE: VMState is opaque; `fork` of the state is not under contract here.
#[verifier::external_body]
pub struct VMState { _p: u8 }
pub struct VMThread {
    state: VMState,
    thread: ExecutionThread,
    gas_usage: usize,
}
impl VMThread {
    pub closed spec fn gas(&self) -> nat { self.gas_usage as nat }
}
//@extract file=src/vm/thread.rs path="impl VMThread" kind=header
//@end
//@extract file=src/vm/thread.rs path="impl VMThread|fn consume_gas"
//@spec
        requires old(self).gas() + gas <= usize::MAX,     // discharged by the caller: VM::advance stops a thread once gas_usage exceeds the limit (not under contract)
        ensures final(self).gas() == old(self).gas() + gas,      //@ob C03.limits.consume_gas.adds_exactly
//@end
//@extract file=src/vm/thread.rs path="impl VMThread|fn gas_usage"
//@ret r
//@spec
        ensures r as nat == self.gas(),                          //@ob C03.limits.gas_usage.exact
//@end
}
//@dropped VMThread::fork (clones VMState/ExecutionThread: opaque), JumpTargets::{new, cond_jump_count}, struct VMThread is declared by hand with the same three fields (its `state`/`thread` types are opaque stand-ins); the main loop of VM::execute/advance that consults these primitives is NOT under contract
} // verus!
fn main() {}
