#!/usr/bin/env python3
"""Mutation test of unit register: property-breaking edits of register_internal's match must be `failed`,
harmless refactors `ok`.  usage: python3 units/register/mutations.py  (creates/removes /tmp/wt_register)"""
import subprocess, sys, os
WT = '/tmp/wt_register'
F = 'src/tc/state/mod.rs'
def sh(c): return subprocess.run(c, shell=True, capture_output=True, text=True)
SLOAD = 'RSVD::SLoad { key, value } => TCSVD::SLoad {\n                key:   self.register_internal(key),\n                value: self.register_internal(value),\n            },'
SWRITE = 'RSVD::StorageWrite { key, value } => TCSVD::StorageWrite {\n                key:   self.register_internal(key),\n                value: self.register_internal(value),\n            },'
SLOT = 'RSVD::StorageSlot { key } => TCSVD::StorageSlot {\n                key: self.register_internal(key),\n            },'
BREAK = [
 (F, SLOAD, SLOAD.replace('self.register_internal(key)', 'self.register_internal(XX)').replace('self.register_internal(value)', 'self.register_internal(key)').replace('(XX)', '(value)'), 'SLoad key/value swapped'),
 (F, SLOT, 'RSVD::StorageSlot { key } => TCSVD::StorageSlot {\n                key: self.register_internal(value.clone()),\n            },', 'StorageSlot key registered from another value than its key'),
 (F, SLOT, 'RSVD::StorageSlot { key } => self.register_internal(key).data().clone(),', 'StorageSlot unwrapped to the key payload'),
 (F, '                key: self.register_internal(key),\n                projection,\n', '                key: self.register_internal(key),\n                projection: None,\n', 'MappingIndex projection dropped'),
 (F, '                value: self.register_internal(value),\n                offset,\n                size,\n', '                value: self.register_internal(value),\n                offset: 0,\n                size,\n', 'SubWord offset 0'),
 (F, SWRITE, SWRITE.replace('TCSVD::StorageWrite', 'TCSVD::SLoad'), 'StorageWrite registered as SLoad'),
 (F, 'RSVD::KnownData { value } => TCSVD::KnownData { value },', 'RSVD::KnownData { value } => TCSVD::KnownData { value: !value },', 'constant altered'),
 (F, 'slot:  self.register_internal(slot),\n                index: self.register_internal(index),', 'slot:  self.register_internal(index),\n                index: self.register_internal(slot),', 'DynamicArrayIndex slot/index swapped'),
 (F, 'RSVD::Shifted { offset, value } => TCSVD::Shifted {\n                offset,', 'RSVD::Shifted { offset, value } => TCSVD::Shifted {\n                offset: offset + 1,', 'Shifted offset + 1'),
 (F, 'RSVD::UnwrittenStorageValue { key } => TCSVD::UnwrittenStorageValue {', 'RSVD::UnwrittenStorageValue { key } => TCSVD::StorageSlot {', 'UnwrittenStorageValue registered as StorageSlot'),
 (F, 'RSVD::Subtract { left, right } => TCSVD::Subtract {\n                left:  self.register_internal(left),\n                right: self.register_internal(right),', 'RSVD::Subtract { left, right } => TCSVD::Subtract {\n                left:  self.register_internal(right),\n                right: self.register_internal(left),', 'Subtract operands swapped (generic clause)'),
]
KEEP = [
 (F, SLOT + '\n', '', None),  # placeholder, replaced below
 (F, SLOAD, 'RSVD::SLoad { key, value } => {\n                let k = self.register_internal(key);\n                let v = self.register_internal(value);\n                TCSVD::SLoad { key: k, value: v }\n            }', 'SLoad children let-bound'),
 (F, SLOAD, 'RSVD::SLoad { key, value } => TCSVD::SLoad {\n                value: self.register_internal(value),\n                key:   self.register_internal(key),\n            },', 'SLoad fields initialised in the other order'),
]
def run(edits, expect):
    bad = 0
    for f, a, b, what in edits:
        sh(f'git -C {WT} checkout -- .')
        p = os.path.join(WT, f); s = open(p).read()
        if what is None:   # arm order changed: move the StorageSlot arm in front of the Value arm
            first = '            RSVD::Value { id } => TCSVD::Value { id },\n'
            a2 = '            ' + SLOT + '\n'
            if a2 not in s or first not in s: print('ANCHOR LOST arm order'); bad += 1; continue
            s2 = s.replace(a2, '', 1).replace(first, a2 + first, 1); what = 'arm order changed (StorageSlot first)'
        else:
            if a not in s: print('ANCHOR LOST', what); bad += 1; continue
            s2 = s.replace(a, b, 1)
        open(p, 'w').write(s2)
        r = sh(f'cd /verif && VX_REPO={WT} python3 vx/vx.py unit register --raw')
        st = r.stdout.split('status=')[1].split()[0] if 'status=' in r.stdout else '?'
        labs = [l.strip()[:170] for l in r.stdout.splitlines() if 'FAIL' in l or 'C0' in l and 'status=' not in l]
        print(f'{"OK " if st == expect else "BAD"} {what}: status={st}', *labs[:3], sep='\n      ' if labs else ' ')
        bad += st != expect
    return bad
sh(f'git -C /repo worktree remove --force {WT}'); sh(f'git -C /repo worktree add --detach {WT} HEAD')
n = run(BREAK, 'failed') + run(KEEP, 'ok')
sh(f'git -C /repo worktree remove --force {WT}')
print('mutations: unexpected =', n); sys.exit(1 if n else 0)
