//@unit props=C05,C06,C01
// Unit register — the 66-arm `match (*value).clone().consume().data { .. }` of `TypeCheckerState::register_internal`
// (src/tc/state/mod.rs): the translation of a runtime value tree (RSVD) into the type checker's tree (TCSVD).
// Unit tc_state has the HEAD/TAIL of the same function under contract and treats this match as opaque; here it is
// the other way round: the match is under contract, the tail is the opaque callee `finish`.
//   C05 / C06  registration is a HOMOMORPHISM on the value tree: the registered payload has the SAME constructor as
//        the runtime payload, every child field holds a registration image of the child in THE SAME field (key stays
//        key, value stays value, slot stays slot, nothing swapped, wrapped, unwrapped or replaced by a constant), and
//        the non-child fields (Value id, KnownData constant = the 256-bit slot index of C06, CallData id, MappingIndex
//        projection, SubWord offset/size, Shifted offset, Packed span offset/size) are copied unchanged.
// MODULAR, NOT INDUCTIVE: the recursive call is the assumed callee `reg` returning SOME registration image
// (`is_img(child, result)`, an uninterpreted RELATION — not even determinism is assumed, two registrations of one
// value differ in their fresh type variable). Termination of the recursion is not proved.
// Everything marked A-... is an ASSUMPTION.
use vstd::prelude::*;
use std::sync::Arc;
//@include common/value_tree_items.rs
verus! {

/// `r` is a registration image of the runtime value `x` (what `register_internal(x)` may return). Uninterpreted.
pub uninterp spec fn is_img(x: SymbolicValue<()>, r: SymbolicValue<TypeVariable>) -> bool;
/// "value is stable typed" (`is_stable_typed`, a recursive any-descendant test): uninterpreted here.
pub uninterp spec fn stable_typed(x: SymbolicValue<()>) -> bool;

/// element-wise image of a child list: same length, same order
pub open spec fn seq_img(old: Seq<RuntimeBoxedVal>, new: Seq<TCBoxedVal>) -> bool {
    &&& new.len() == old.len()
    &&& forall|i: int| 0 <= i < old.len() ==> is_img(*old[i], *#[trigger] new[i])
}
/// the same for the spans of a packed word; a span keeps its `offset` and `size`
pub open spec fn span_img(old: Seq<PackedSpan<()>>, new: Seq<PackedSpan<TypeVariable>>) -> bool {
    &&& new.len() == old.len()
    &&& forall|i: int| 0 <= i < old.len() ==> {
            &&& (#[trigger] new[i]).offset == old[i].offset
            &&& new[i].size == old[i].size
            &&& is_img(*old[i].value, *new[i].value)
        }
}

// >>> derived mechanically from unit transform's same_node / children_in_place (txf -> is_img), two tree types
pub open spec fn same_ctor(d: RSVD, r: TCSVD) -> bool {
    match d {
        RSVD::Value { id } => r matches TCSVD::Value { id: id2 } && id2 == id,
        RSVD::KnownData { value } => r matches TCSVD::KnownData { value: value2 } && value2 == value,
        RSVD::Add { .. } => r is Add,
        RSVD::Multiply { .. } => r is Multiply,
        RSVD::Subtract { .. } => r is Subtract,
        RSVD::Divide { .. } => r is Divide,
        RSVD::SignedDivide { .. } => r is SignedDivide,
        RSVD::Modulo { .. } => r is Modulo,
        RSVD::SignedModulo { .. } => r is SignedModulo,
        RSVD::Exp { .. } => r is Exp,
        RSVD::SignExtend { .. } => r is SignExtend,
        RSVD::CallWithValue { .. } => r is CallWithValue,
        RSVD::CallWithoutValue { .. } => r is CallWithoutValue,
        RSVD::Sha3 { .. } => r is Sha3,
        RSVD::Address => r is Address,
        RSVD::Balance { .. } => r is Balance,
        RSVD::Origin => r is Origin,
        RSVD::Caller => r is Caller,
        RSVD::CallValue => r is CallValue,
        RSVD::GasPrice => r is GasPrice,
        RSVD::ExtCodeHash { .. } => r is ExtCodeHash,
        RSVD::BlockHash { .. } => r is BlockHash,
        RSVD::CoinBase => r is CoinBase,
        RSVD::BlockTimestamp => r is BlockTimestamp,
        RSVD::BlockNumber => r is BlockNumber,
        RSVD::Prevrandao => r is Prevrandao,
        RSVD::GasLimit => r is GasLimit,
        RSVD::ChainId => r is ChainId,
        RSVD::SelfBalance => r is SelfBalance,
        RSVD::BaseFee => r is BaseFee,
        RSVD::Gas => r is Gas,
        RSVD::Log { .. } => r is Log,
        RSVD::Create { .. } => r is Create,
        RSVD::Create2 { .. } => r is Create2,
        RSVD::SelfDestruct { .. } => r is SelfDestruct,
        RSVD::LessThan { .. } => r is LessThan,
        RSVD::GreaterThan { .. } => r is GreaterThan,
        RSVD::SignedLessThan { .. } => r is SignedLessThan,
        RSVD::SignedGreaterThan { .. } => r is SignedGreaterThan,
        RSVD::Equals { .. } => r is Equals,
        RSVD::IsZero { .. } => r is IsZero,
        RSVD::And { .. } => r is And,
        RSVD::Or { .. } => r is Or,
        RSVD::Xor { .. } => r is Xor,
        RSVD::Not { .. } => r is Not,
        RSVD::LeftShift { .. } => r is LeftShift,
        RSVD::RightShift { .. } => r is RightShift,
        RSVD::ArithmeticRightShift { .. } => r is ArithmeticRightShift,
        RSVD::CallData { id, .. } => r matches TCSVD::CallData { id: id2, .. } && id2 == id,
        RSVD::CallDataSize => r is CallDataSize,
        RSVD::CodeCopy { .. } => r is CodeCopy,
        RSVD::ExtCodeSize { .. } => r is ExtCodeSize,
        RSVD::ExtCodeCopy { .. } => r is ExtCodeCopy,
        RSVD::ReturnData { .. } => r is ReturnData,
        RSVD::Return { .. } => r is Return,
        RSVD::Revert { .. } => r is Revert,
        RSVD::UnwrittenStorageValue { .. } => r is UnwrittenStorageValue,
        RSVD::SLoad { .. } => r is SLoad,
        RSVD::StorageSlot { .. } => r is StorageSlot,
        RSVD::StorageWrite { .. } => r is StorageWrite,
        RSVD::Concat { .. } => r is Concat,
        RSVD::MappingIndex { projection, .. } => r matches TCSVD::MappingIndex { projection: projection2, .. } && projection2 == projection,
        RSVD::DynamicArrayIndex { .. } => r is DynamicArrayIndex,
        RSVD::SubWord { offset, size, .. } => r matches TCSVD::SubWord { offset: offset2, size: size2, .. } && offset2 == offset && size2 == size,
        RSVD::Shifted { offset, .. } => r matches TCSVD::Shifted { offset: offset2, .. } && offset2 == offset,
        RSVD::Packed { .. } => r is Packed,
    }
}

pub open spec fn kids_img(d: RSVD, r: TCSVD) -> bool {
    match d {
        RSVD::Value { .. } => true,
        RSVD::KnownData { .. } => true,
        RSVD::Add { left, right } => r matches TCSVD::Add { left: left2, right: right2 } ==> is_img(*left, *left2) && is_img(*right, *right2),
        RSVD::Multiply { left, right } => r matches TCSVD::Multiply { left: left2, right: right2 } ==> is_img(*left, *left2) && is_img(*right, *right2),
        RSVD::Subtract { left, right } => r matches TCSVD::Subtract { left: left2, right: right2 } ==> is_img(*left, *left2) && is_img(*right, *right2),
        RSVD::Divide { dividend, divisor } => r matches TCSVD::Divide { dividend: dividend2, divisor: divisor2 } ==> is_img(*dividend, *dividend2) && is_img(*divisor, *divisor2),
        RSVD::SignedDivide { dividend, divisor } => r matches TCSVD::SignedDivide { dividend: dividend2, divisor: divisor2 } ==> is_img(*dividend, *dividend2) && is_img(*divisor, *divisor2),
        RSVD::Modulo { dividend, divisor } => r matches TCSVD::Modulo { dividend: dividend2, divisor: divisor2 } ==> is_img(*dividend, *dividend2) && is_img(*divisor, *divisor2),
        RSVD::SignedModulo { dividend, divisor } => r matches TCSVD::SignedModulo { dividend: dividend2, divisor: divisor2 } ==> is_img(*dividend, *dividend2) && is_img(*divisor, *divisor2),
        RSVD::Exp { value, exponent } => r matches TCSVD::Exp { value: value2, exponent: exponent2 } ==> is_img(*value, *value2) && is_img(*exponent, *exponent2),
        RSVD::SignExtend { size, value } => r matches TCSVD::SignExtend { size: size2, value: value2 } ==> is_img(*size, *size2) && is_img(*value, *value2),
        RSVD::CallWithValue { gas, address, value, argument_data, ret_offset, ret_size } => r matches TCSVD::CallWithValue { gas: gas2, address: address2, value: value2, argument_data: argument_data2, ret_offset: ret_offset2, ret_size: ret_size2 } ==> is_img(*gas, *gas2) && is_img(*address, *address2) && is_img(*value, *value2) && is_img(*argument_data, *argument_data2) && is_img(*ret_offset, *ret_offset2) && is_img(*ret_size, *ret_size2),
        RSVD::CallWithoutValue { gas, address, argument_data, ret_offset, ret_size } => r matches TCSVD::CallWithoutValue { gas: gas2, address: address2, argument_data: argument_data2, ret_offset: ret_offset2, ret_size: ret_size2 } ==> is_img(*gas, *gas2) && is_img(*address, *address2) && is_img(*argument_data, *argument_data2) && is_img(*ret_offset, *ret_offset2) && is_img(*ret_size, *ret_size2),
        RSVD::Sha3 { data } => r matches TCSVD::Sha3 { data: data2 } ==> is_img(*data, *data2),
        RSVD::Address => true,
        RSVD::Balance { address } => r matches TCSVD::Balance { address: address2 } ==> is_img(*address, *address2),
        RSVD::Origin => true,
        RSVD::Caller => true,
        RSVD::CallValue => true,
        RSVD::GasPrice => true,
        RSVD::ExtCodeHash { address } => r matches TCSVD::ExtCodeHash { address: address2 } ==> is_img(*address, *address2),
        RSVD::BlockHash { block_number } => r matches TCSVD::BlockHash { block_number: block_number2 } ==> is_img(*block_number, *block_number2),
        RSVD::CoinBase => true,
        RSVD::BlockTimestamp => true,
        RSVD::BlockNumber => true,
        RSVD::Prevrandao => true,
        RSVD::GasLimit => true,
        RSVD::ChainId => true,
        RSVD::SelfBalance => true,
        RSVD::BaseFee => true,
        RSVD::Gas => true,
        RSVD::Log { data, topics } => r matches TCSVD::Log { data: data2, topics: topics2 } ==> is_img(*data, *data2) && seq_img(topics@, topics2@),
        RSVD::Create { value, data } => r matches TCSVD::Create { value: value2, data: data2 } ==> is_img(*value, *value2) && is_img(*data, *data2),
        RSVD::Create2 { value, salt, data } => r matches TCSVD::Create2 { value: value2, salt: salt2, data: data2 } ==> is_img(*value, *value2) && is_img(*salt, *salt2) && is_img(*data, *data2),
        RSVD::SelfDestruct { target } => r matches TCSVD::SelfDestruct { target: target2 } ==> is_img(*target, *target2),
        RSVD::LessThan { left, right } => r matches TCSVD::LessThan { left: left2, right: right2 } ==> is_img(*left, *left2) && is_img(*right, *right2),
        RSVD::GreaterThan { left, right } => r matches TCSVD::GreaterThan { left: left2, right: right2 } ==> is_img(*left, *left2) && is_img(*right, *right2),
        RSVD::SignedLessThan { left, right } => r matches TCSVD::SignedLessThan { left: left2, right: right2 } ==> is_img(*left, *left2) && is_img(*right, *right2),
        RSVD::SignedGreaterThan { left, right } => r matches TCSVD::SignedGreaterThan { left: left2, right: right2 } ==> is_img(*left, *left2) && is_img(*right, *right2),
        RSVD::Equals { left, right } => r matches TCSVD::Equals { left: left2, right: right2 } ==> is_img(*left, *left2) && is_img(*right, *right2),
        RSVD::IsZero { number } => r matches TCSVD::IsZero { number: number2 } ==> is_img(*number, *number2),
        RSVD::And { left, right } => r matches TCSVD::And { left: left2, right: right2 } ==> is_img(*left, *left2) && is_img(*right, *right2),
        RSVD::Or { left, right } => r matches TCSVD::Or { left: left2, right: right2 } ==> is_img(*left, *left2) && is_img(*right, *right2),
        RSVD::Xor { left, right } => r matches TCSVD::Xor { left: left2, right: right2 } ==> is_img(*left, *left2) && is_img(*right, *right2),
        RSVD::Not { value } => r matches TCSVD::Not { value: value2 } ==> is_img(*value, *value2),
        RSVD::LeftShift { shift, value } => r matches TCSVD::LeftShift { shift: shift2, value: value2 } ==> is_img(*shift, *shift2) && is_img(*value, *value2),
        RSVD::RightShift { shift, value } => r matches TCSVD::RightShift { shift: shift2, value: value2 } ==> is_img(*shift, *shift2) && is_img(*value, *value2),
        RSVD::ArithmeticRightShift { shift, value } => r matches TCSVD::ArithmeticRightShift { shift: shift2, value: value2 } ==> is_img(*shift, *shift2) && is_img(*value, *value2),
        RSVD::CallData { offset, size, .. } => r matches TCSVD::CallData { offset: offset2, size: size2, .. } ==> is_img(*offset, *offset2) && is_img(*size, *size2),
        RSVD::CallDataSize => true,
        RSVD::CodeCopy { offset, size } => r matches TCSVD::CodeCopy { offset: offset2, size: size2 } ==> is_img(*offset, *offset2) && is_img(*size, *size2),
        RSVD::ExtCodeSize { address } => r matches TCSVD::ExtCodeSize { address: address2 } ==> is_img(*address, *address2),
        RSVD::ExtCodeCopy { address, offset, size } => r matches TCSVD::ExtCodeCopy { address: address2, offset: offset2, size: size2 } ==> is_img(*address, *address2) && is_img(*offset, *offset2) && is_img(*size, *size2),
        RSVD::ReturnData { offset, size } => r matches TCSVD::ReturnData { offset: offset2, size: size2 } ==> is_img(*offset, *offset2) && is_img(*size, *size2),
        RSVD::Return { data } => r matches TCSVD::Return { data: data2 } ==> is_img(*data, *data2),
        RSVD::Revert { data } => r matches TCSVD::Revert { data: data2 } ==> is_img(*data, *data2),
        RSVD::UnwrittenStorageValue { key } => r matches TCSVD::UnwrittenStorageValue { key: key2 } ==> is_img(*key, *key2),
        RSVD::SLoad { key, value } => r matches TCSVD::SLoad { key: key2, value: value2 } ==> is_img(*key, *key2) && is_img(*value, *value2),
        RSVD::StorageSlot { key } => r matches TCSVD::StorageSlot { key: key2 } ==> is_img(*key, *key2),
        RSVD::StorageWrite { key, value } => r matches TCSVD::StorageWrite { key: key2, value: value2 } ==> is_img(*key, *key2) && is_img(*value, *value2),
        RSVD::Concat { values } => r matches TCSVD::Concat { values: values2 } ==> seq_img(values@, values2@),
        RSVD::MappingIndex { slot, key, .. } => r matches TCSVD::MappingIndex { slot: slot2, key: key2, .. } ==> is_img(*slot, *slot2) && is_img(*key, *key2),
        RSVD::DynamicArrayIndex { slot, index } => r matches TCSVD::DynamicArrayIndex { slot: slot2, index: index2 } ==> is_img(*slot, *slot2) && is_img(*index, *index2),
        RSVD::SubWord { value, .. } => r matches TCSVD::SubWord { value: value2, .. } ==> is_img(*value, *value2),
        RSVD::Shifted { value, .. } => r matches TCSVD::Shifted { value: value2, .. } ==> is_img(*value, *value2),
        RSVD::Packed { elements } => r matches TCSVD::Packed { elements: elements2 } ==> span_img(elements@, elements2@),
    }
}

// <<<

/// the homomorphism: same constructor + constants copied, and every child in its own field
pub open spec fn homo(d: RSVD, r: TCSVD) -> bool { same_ctor(d, r) && kids_img(d, r) }

// A-CALLEE: `TypeCheckerState` is OPAQUE in this unit (its maps and the variable source are under contract in unit
// tc_state). `cached(v)` = what `self.stable_types.get(v)` finds.
#[verifier::external_body]
pub struct TypeCheckerState { _p: u8 }

impl TypeCheckerState {
    pub uninterp spec fn cached(&self, v: RuntimeBoxedVal) -> Option<TCBoxedVal>;

    // A-CALLEE: `is_stable_typed` — uninterpreted predicate of the value (not under contract anywhere).
    #[verifier::external_body]
    fn is_stable_typed(value: &RuntimeBoxedVal) -> (r: bool) ensures r == stable_typed(**value) { unimplemented!() }

    // A-STD (R-CALL): `self.stable_types.get(&value)` — a lookup, a function of state and key.
    #[verifier::external_body]
    fn stable_get(&self, value: &RuntimeBoxedVal) -> (r: Option<&TCBoxedVal>)
        ensures (match r { Some(x) => self.cached(*value) == Some(*x), None => self.cached(*value) is None })
    { unimplemented!() }

    // A-CALLEE (R-SELFREF, the recursion abstracted): `self.register_internal(x)` returns SOME registration image of x.
    #[verifier::external_body]
    fn reg(&mut self, x: RuntimeBoxedVal) -> (r: TCBoxedVal) ensures is_img(*x, *r) { unimplemented!() }

    // A-CALLEE (R-CALL): `xs.into_iter().map(|t| self.register_internal(t)).collect()` — same length, element i is
    // an image of element i (Log.topics, Concat.values). Iterator adapters + FnMut closure: outside Verus.
    #[verifier::external_body]
    fn reg_all(&mut self, xs: Vec<RuntimeBoxedVal>) -> (r: Vec<TCBoxedVal>) ensures seq_img(xs@, r@) { unimplemented!() }

    // A-CALLEE (R-CALL): the Packed.elements adapter `map(|e| PackedSpan::new(e.offset, e.size, register(e.value)))`:
    // same length, span i keeps offset and size, its value is an image of span i's value. NOT checked against the
    // closure body (PackedSpan::new's field order is under contract in unit transform/value_size only).
    #[verifier::external_body]
    fn reg_spans(&mut self, xs: Vec<PackedSpan<()>>) -> (r: Vec<PackedSpan<TypeVariable>>) ensures span_img(xs@, r@) { unimplemented!() }

    // A-OPAQUE (R-OPAQUE): the TAIL of register_internal (fresh variable, TCSV::new, the three map insertions) — it
    // is under contract in unit tc_state. Assumed here: the boxed value returned carries the payload handed in.
    #[verifier::external_body]
    fn finish(&mut self, instruction_pointer: u32, new_data: TCSVD, provenance: Provenance, is_stable: bool, value: RuntimeBoxedVal) -> (r: TCBoxedVal)
        ensures r.dt() == new_data
    { unimplemented!() }
}

// A-CALLEE (R-CALL): `(*value).clone().consume().data` — the payload of the value (derived Clone, `consume` is the identity).
#[verifier::external_body]
fn payload_of(value: &RuntimeBoxedVal) -> (r: RSVD) ensures r == value.dt() { unimplemented!() }

/// the early return: a stable-typed value that is already in `stable_types`
pub open spec fn hit(s: &TypeCheckerState, v: RuntimeBoxedVal) -> bool { stable_typed(*v) && s.cached(v) is Some }

impl TypeCheckerState {
//@extract file=src/tc/state/mod.rs path="impl TypeCheckerState|fn register_internal" props=C05,C06,C01
//@ret out
//@rw R-CALL
//@old
self.stable_types.get(&value)
//@new
self.stable_get(&value)
//@rw R-CALL
//@old
(*value).clone().consume().data
//@new
payload_of(&value)
//@rw R-CALL
//@old
topics.into_iter().map(|t| self.register_internal(t)).collect()
//@new
self.reg_all(topics)
//@rw R-CALL
//@old
values.into_iter().map(|v| self.register_internal(v)).collect()
//@new
self.reg_all(values)
//@rw R-CALL
//@old
elements
    .into_iter()
    .map(|e| {
        let new_elem = self.register_internal(e.value);
        PackedSpan::new(e.offset, e.size, new_elem)
    })
    .collect()
//@new
self.reg_spans(elements)
//@rw R-SELFREF count=any
//@old
self.register_internal(
//@new
self.reg(
//@rw R-OPAQUE
//@old
let type_var = self.tyvar_source.fresh();
let new_value = TCSV::new(instruction_pointer, new_data, provenance, type_var);

// Register the result
self.expressions.entry(type_var).or_insert(new_value.clone());
self.inferences.entry(type_var).or_insert(HashSet::new());

if is_stable {
    self.stable_types.insert(value, new_value.clone());
}

// Return the type variable
new_value
//@new
self.finish(instruction_pointer, new_data, provenance, is_stable, value)
//@spec
        ensures
            hit(old(self), value) ==> Some(out) == old(self).cached(value),
            !hit(old(self), value) ==> same_ctor(value.dt(), out.dt()),                               //@ob C05.register.same_constructor_constants_copied
            !hit(old(self), value) ==> kids_img(value.dt(), out.dt()),                                //@ob C05.register.children_in_their_own_fields
            !hit(old(self), value) ==> (value.dt() matches RSVD::StorageSlot { key } ==> out.dt() matches TCSVD::StorageSlot { key: k2 } && is_img(*key, *k2)),   //@ob C05.register.storage_slot_stays_slot_of_its_key
            !hit(old(self), value) ==> (value.dt() matches RSVD::SLoad { key, value: v } ==> out.dt() matches TCSVD::SLoad { key: k2, value: v2 } && is_img(*key, *k2) && is_img(*v, *v2)),   //@ob C05.register.sload_key_and_value_in_place
            !hit(old(self), value) ==> (value.dt() matches RSVD::StorageWrite { key, value: v } ==> out.dt() matches TCSVD::StorageWrite { key: k2, value: v2 } && is_img(*key, *k2) && is_img(*v, *v2)),   //@ob C05.register.storage_write_key_and_value_in_place
            !hit(old(self), value) ==> (value.dt() matches RSVD::UnwrittenStorageValue { key } ==> out.dt() matches TCSVD::UnwrittenStorageValue { key: k2 } && is_img(*key, *k2)),   //@ob C05.register.unwritten_storage_value_key
            !hit(old(self), value) ==> (value.dt() matches RSVD::MappingIndex { slot, key, projection } ==> out.dt() matches TCSVD::MappingIndex { slot: s2, key: k2, projection: p2 } && is_img(*slot, *s2) && is_img(*key, *k2) && p2 == projection),   //@ob C05.register.mapping_index_slot_key_projection
            !hit(old(self), value) ==> (value.dt() matches RSVD::DynamicArrayIndex { slot, index } ==> out.dt() matches TCSVD::DynamicArrayIndex { slot: s2, index: i2 } && is_img(*slot, *s2) && is_img(*index, *i2)),   //@ob C05.register.dynamic_array_index_slot_index
            !hit(old(self), value) ==> (value.dt() matches RSVD::KnownData { value: w } ==> out.dt() == (TCSVD::KnownData { value: w })),   //@ob C06.register.constant_carried_unchanged
            !hit(old(self), value) ==> (value.dt() matches RSVD::SubWord { value: v, offset, size } ==> out.dt() matches TCSVD::SubWord { value: v2, offset: o2, size: s2 } && is_img(*v, *v2) && o2 == offset && s2 == size),   //@ob C05.register.sub_word_offset_size_kept
            !hit(old(self), value) ==> (value.dt() matches RSVD::Shifted { offset, value: v } ==> out.dt() matches TCSVD::Shifted { offset: o2, value: v2 } && is_img(*v, *v2) && o2 == offset),   //@ob C05.register.shifted_offset_kept
            !hit(old(self), value) ==> (value.dt() matches RSVD::Packed { elements } ==> out.dt() matches TCSVD::Packed { elements: e2 } && span_img(elements@, e2@)),   //@ob C05.register.packed_spans_keep_offset_size
//@end
}

//@dropped register_internal: the TAIL (fresh type variable, TCSV::new, insertion into expressions / inferences / stable_types) is the opaque callee `finish` (R-OPAQUE; assumed: the returned value carries new_data) — under contract in unit tc_state
//@dropped register_internal: the recursion is the assumed callee `reg` (R-SELFREF): returns SOME registration image (uninterpreted relation is_img); no induction over the tree, termination not proved
//@dropped register_internal: Log.topics / Concat.values / Packed.elements iterator adapters are R-CALL stand-ins (reg_all, reg_spans) with the ASSUMED contract "same length, element i is an image of element i, span offset/size kept"; the closure body of the Packed arm (PackedSpan::new(e.offset, e.size, new_elem)) is therefore NOT under contract
//@dropped is_stable_typed: uninterpreted predicate; stable_types.get: uninterpreted lookup `cached`
} // verus!
fn main() {}
