//@unit props=C12,C06,C01
// Unit layout — src/layout.rs (StorageLayout::{add, slots, default}, StorageSlot::new) and the
// U256Wrapper conversions of src/utility.rs.
//   C12: the slot vector is ordered by (index, offset) after every `add` (the only mutator) and `add`
//        keeps every previous entry and inserts exactly the new one.
//   C06: slot indices are carried as full 256-bit values (no truncation) from KnownWord to the layout.
use vstd::prelude::*;
use std::cmp::Ordering;
//@include common/ethnum_prelude.rs
verus! {

// A-CALLEE: KnownWord is opaque here; `value_le`/`from_le` contracts are the ones PROVED in unit
// known_word (labels C09.kw.value_le / C09.kw.from_le).
pub struct KnownWord { value: U256 }
impl KnownWord {
    pub closed spec fn v(self) -> nat { u(self.value) }
    #[verifier::external_body]
    pub fn value_le(&self) -> (r: U256) ensures u(r) == self.v() { self.value }
    #[verifier::external_body]
    pub fn from_le(value: U256) -> (r: Self) ensures r.v() == u(value) { Self { value } }
}
// A-CALLEE: AbiType (src/tc/abi.rs) is an opaque payload here.
#[verifier::external_body]
pub struct AbiType { _p: u8 }

// A-DERIVE: #[derive(Clone, Copy, Default, Eq, Hash, PartialEq)] on U256Wrapper is structural
#[derive(Clone, Copy, PartialEq, Eq)]
//@extract file=src/utility.rs path="struct U256Wrapper" kind=type
//@end
impl U256Wrapper {
    pub open spec fn n(self) -> nat { u(self.0) }
}

pub open spec fn num_cmp(a: nat, b: nat) -> core::cmp::Ordering {
    if a < b { core::cmp::Ordering::Less } else if a == b { core::cmp::Ordering::Equal } else { core::cmp::Ordering::Greater }
}
// the ordering of the wrapper IS the numeric ordering of the 256-bit index: proved for the real impls
impl vstd::std_specs::cmp::PartialOrdSpecImpl for U256Wrapper {
    open spec fn obeys_partial_cmp_spec() -> bool { true }
    open spec fn partial_cmp_spec(&self, other: &U256Wrapper) -> Option<core::cmp::Ordering> { Some(num_cmp(self.n(), other.n())) }
}
impl vstd::std_specs::cmp::OrdSpecImpl for U256Wrapper {
    open spec fn obeys_cmp_spec() -> bool { true }
    open spec fn cmp_spec(&self, other: &U256Wrapper) -> core::cmp::Ordering { num_cmp(self.n(), other.n()) }
}
//@extract file=src/utility.rs path="impl PartialOrd for U256Wrapper" kind=header
//@end
//@extract file=src/utility.rs path="impl PartialOrd for U256Wrapper|fn partial_cmp"
//@ret r
//@spec
        ensures r == Some(num_cmp(self.n(), other.n())),      //@ob C12.layout.wrapper_partial_cmp.numeric
//@end
}
//@extract file=src/utility.rs path="impl Ord for U256Wrapper" kind=header
//@end
//@extract file=src/utility.rs path="impl Ord for U256Wrapper|fn cmp"
//@ret r
//@spec
        ensures r == num_cmp(self.n(), other.n()),            //@ob C12.layout.wrapper_cmp.numeric
//@end
}

// ---- the ordering used as sort key: (index, offset) lexicographic, index compared as a 256-bit number
pub open spec fn key_le(a: (U256Wrapper, usize), b: (U256Wrapper, usize)) -> bool {
    a.0.n() < b.0.n() || (a.0.n() == b.0.n() && a.1 <= b.1)
}
pub open spec fn slot_key(s: StorageSlot) -> (U256Wrapper, usize) { (s.index, s.offset) }
pub open spec fn sorted(s: Seq<StorageSlot>) -> bool {
    forall|i: int, j: int| 0 <= i < j < s.len() ==> key_le(slot_key(s[i]), slot_key(s[j]))
}

// A-STD: `slice::sort_by_key` returns a permutation ordered by `Ord` on the keys the closure yields.
// A-DERIVE/A-ETHNUM: `Ord` on (U256Wrapper, usize) is lexicographic with U256Wrapper ordered by its
// 256-bit value (utility.rs delegates `cmp` to ethnum's U256::cmp; proved below for `cmp`).
/// `a <= b` in the `Ord` instance of K
pub uninterp spec fn ord_le<K>(a: K, b: K) -> bool;
// A-STD: core's `Ord` for 2-tuples is lexicographic; the first component's order is U256Wrapper's `cmp`,
// proved above to be the numeric order of the index.
pub broadcast axiom fn ord_le_key(a: (U256Wrapper, usize), b: (U256Wrapper, usize))
    ensures #[trigger] ord_le(a, b) == key_le(a, b);
pub open spec fn has_key<T, K, F: FnMut(&T,) -> K>(f: F, x: T) -> bool { exists|k: K| f.ensures((&x,), k) }
pub assume_specification<T, K, F> [<[T]>::sort_by_key] (s: &mut [T], f: F)
    where F: FnMut(&T,) -> K, K: core::cmp::Ord,
    requires forall|x: &T| #[trigger] f.requires((x,)),
    ensures
        final(s)@.to_multiset() == old(s)@.to_multiset(),
        final(s)@.len() == old(s)@.len(),
        forall|i: int, j: int, ki: K, kj: K|
            0 <= i < j < final(s)@.len() && #[trigger] f.ensures((&final(s)@[i],), ki) && #[trigger] f.ensures((&final(s)@[j],), kj) ==> ord_le(ki, kj),
        forall|i: int| 0 <= i < final(s)@.len() ==> #[trigger] has_key::<T, K, F>(f, final(s)@[i]);   // the key function returned for every element

//@extract file=src/layout.rs path="struct StorageLayout" kind=type
//@end
//@extract file=src/layout.rs path="struct StorageSlot" kind=type
//@end

impl StorageLayout {
    pub closed spec fn view(&self) -> Seq<StorageSlot> { self.slots@ }
}

//@extract file=src/layout.rs path="impl StorageLayout#1" kind=header
//@end
//@extract file=src/layout.rs path="impl StorageLayout#1|fn add"
//@rw R-IMPL-INTO
//@old
index: impl Into<U256Wrapper>
//@new
index: U256Wrapper
//@rw R-SIG
//@old
self.slots.sort_by_key(|s| $1);
//@new
let sort_key_fn = |s: &StorageSlot| -> (k: (U256Wrapper, usize)) ensures k == slot_key(*s) { $1 };
        self.slots.sort_by_key(sort_key_fn);
//@spec
        ensures
            sorted(final(self)@),                                                                                  //@ob C12.layout.add.sorted
            final(self)@.to_multiset() == old(self)@.to_multiset().insert(StorageSlot { index, offset, typ }),     //@ob C12.layout.add.keeps_entries_adds_one
            final(self)@.len() == old(self)@.len() + 1,                                                            //@ob C12.layout.add.len
//@proof entry
        let ghost s0 = self.slots@;
//@proof after "self.slots.sort_by_key(sort_key_fn);"
        proof {
            broadcast use ord_le_key;
            assert forall|i: int, j: int| 0 <= i < j < self.slots@.len() implies key_le(slot_key(self.slots@[i]), slot_key(self.slots@[j])) by {
                let si = &self.slots@[i];
                let sj = &self.slots@[j];
                assert(has_key::<StorageSlot, (U256Wrapper, usize), _>(sort_key_fn, self.slots@[i]));
                assert(has_key::<StorageSlot, (U256Wrapper, usize), _>(sort_key_fn, self.slots@[j]));
                let ki = choose|k: (U256Wrapper, usize)| sort_key_fn.ensures((si,), k);
                let kj = choose|k: (U256Wrapper, usize)| sort_key_fn.ensures((sj,), k);
                assert(ord_le(ki, kj));
            }
            assert(sorted(self.slots@));
        }
//@proof exit
        proof {
            assert(s0.push(StorageSlot { index, offset, typ }).to_multiset() == s0.to_multiset().insert(StorageSlot { index, offset, typ })) by {
                broadcast use vstd::seq_lib::group_to_multiset_ensures;
            }
        }
//@end

//@extract file=src/layout.rs path="impl StorageLayout#1|fn slots"
//@ret r
//@spec
        ensures r@ == self@,                       //@ob C12.layout.slots.exposes_the_sorted_vector
//@end
}

//@extract file=src/layout.rs path="impl Default for StorageLayout" kind=header
//@end
//@extract file=src/layout.rs path="impl Default for StorageLayout|fn default"
//@ret r
//@spec
        ensures r@.len() == 0, sorted(r@),         //@ob C12.layout.default.empty_sorted
//@end
}

//@extract file=src/layout.rs path="impl StorageSlot" kind=header
//@end
//@extract file=src/layout.rs path="impl StorageSlot|fn new"
//@ret r
//@rw R-IMPL-INTO
//@old
index: impl Into<U256Wrapper>
//@new
index: U256Wrapper
//@rw R-IMPL-INTO
//@old
let index = index.into();
//@new
let index = index;
//@spec
        ensures r == (StorageSlot { index, offset, typ }),      //@ob C06.layout.slot_new.index_exact C12.layout.slot_new.fields
//@end
}

// ---- C06: 256-bit exactness of the conversions that carry a slot key into the layout ----
impl vstd::std_specs::convert::FromSpecImpl<KnownWord> for U256Wrapper {
    open spec fn obeys_from_spec() -> bool { false }
    open spec fn from_spec(v: KnownWord) -> U256Wrapper { arbitrary() }
}
impl<'a> vstd::std_specs::convert::FromSpecImpl<&'a KnownWord> for U256Wrapper {
    open spec fn obeys_from_spec() -> bool { false }
    open spec fn from_spec(v: &'a KnownWord) -> U256Wrapper { arbitrary() }
}
impl vstd::std_specs::convert::FromSpecImpl<U256Wrapper> for KnownWord {
    open spec fn obeys_from_spec() -> bool { false }
    open spec fn from_spec(v: U256Wrapper) -> KnownWord { arbitrary() }
}
impl vstd::std_specs::convert::FromSpecImpl<usize> for U256Wrapper {
    open spec fn obeys_from_spec() -> bool { false }
    open spec fn from_spec(v: usize) -> U256Wrapper { arbitrary() }
}
impl vstd::std_specs::convert::FromSpecImpl<U256> for U256Wrapper {
    open spec fn obeys_from_spec() -> bool { false }
    open spec fn from_spec(v: U256) -> U256Wrapper { arbitrary() }
}

//@extract file=src/utility.rs path="impl From<KnownWord> for U256Wrapper" kind=header
//@end
//@extract file=src/utility.rs path="impl From<KnownWord> for U256Wrapper|fn from"
//@ret r
//@spec
        ensures r.n() == value.v(),       //@ob C06.layout.wrapper_from_known_word.exact
//@end
}
//@extract file=src/utility.rs path="impl From<&KnownWord> for U256Wrapper" kind=header
//@end
//@extract file=src/utility.rs path="impl From<&KnownWord> for U256Wrapper|fn from"
//@ret r
//@spec
        ensures r.n() == value.v(),       //@ob C06.layout.wrapper_from_known_word_ref.exact
//@end
}
//@extract file=src/utility.rs path="impl From<U256Wrapper> for KnownWord" kind=header
//@end
//@extract file=src/utility.rs path="impl From<U256Wrapper> for KnownWord|fn from"
//@ret r
//@spec
        ensures r.v() == value.n(),       //@ob C06.layout.known_word_from_wrapper.exact
//@end
}
//@extract file=src/utility.rs path="impl From<usize> for U256Wrapper" kind=header
//@end
//@extract file=src/utility.rs path="impl From<usize> for U256Wrapper|fn from"
//@ret r
//@spec
        ensures r.n() == value as nat,    //@ob C06.layout.wrapper_from_usize.exact
//@end
}
//@extract file=src/utility.rs path="impl From<U256> for U256Wrapper" kind=header
//@end
//@extract file=src/utility.rs path="impl From<U256> for U256Wrapper|fn from"
//@ret r
//@spec
        ensures r.n() == u(value),        //@ob C06.layout.wrapper_from_u256.exact
//@end
}

//@dropped StorageLayout::{has_slot, has_no_slot_at, slot_count, is_empty} (test helpers), serde derives on StorageSlot, Debug/PartialOrd/Ord impls of U256Wrapper (Ord on the sort key is ASSUMED to be the numeric order — see the sort_by_key contract)
} // verus!
fn main() {}
