# Mutation self-test for unit disassemble. Usage: git -C /repo worktree add --detach /tmp/wt_dis HEAD; python3 units/disassemble/mutations.py [Mnn ...]; git -C /repo worktree remove --force /tmp/wt_dis
# M* = property-breaking edits (must give status=failed on a labelled obligation), H* = harmless edits (must stay ok), X* = outside C10.
import subprocess, sys, re
WT='/tmp/wt_dis'
D='src/disassembly/disassembler.rs'
MUTS=[
 ('M01 revert trailing-push condition (D11)', D, 'if remaining_push_bytes != 0 {\n        add_op(ops, control::Invalid::new(last_push));', 'if !push_bytes.is_empty() && push_bytes.len() != push_size as usize {\n        add_op(ops, control::Invalid::new(last_push));'),
 ('M02 push range 0x60..=0x7e', D, '0x60..=0x7f => {', '0x60..=0x7e => {'),
 ('M03 push range 0x61..=0x7f', D, '0x60..=0x7f => {', '0x61..=0x7f => {'),
 ('M04 push_size = byte - 0x60 (const inline)', D, 'push_size = byte - PUSH_OPCODE_BASE_VALUE;', 'push_size = byte - 0x60;'),
 ('M05 PUSH_OPCODE_BASE_VALUE = 0x5e', 'src/constant.rs', 'pub const PUSH_OPCODE_BASE_VALUE: u8 = 0x5f;', 'pub const PUSH_OPCODE_BASE_VALUE: u8 = 0x5e;'),
 ('M06 JumpDest padding instead of Nop', D, 'add_op(ops, control::Nop);', 'add_op(ops, control::JumpDest);'),
 ('M07 forget the Nop padding', D, 'for _ in 0..push_size {\n                    add_op(ops, control::Nop);\n                }', 'for _ in 0..0 {\n                    add_op(ops, control::Nop);\n                }'),
 ('M07b delete the Nop loop', D, 'for _ in 0..push_size {\n                    add_op(ops, control::Nop);\n                }', ''),
 ('M08 one Nop too few', D, 'for _ in 0..push_size {', 'for _ in 1..push_size {'),
 ('M09 0x01 => Mul (wrong struct)', D, '0x01 => add_op(ops, arith::Add),', '0x01 => add_op(ops, arith::Mul),'),
 ('M10 swap 0x56/0x57 structs', D, '0x56 => add_op(ops, control::Jump),\n                0x57 => add_op(ops, control::JumpI),', '0x56 => add_op(ops, control::JumpI),\n                0x57 => add_op(ops, control::Jump),'),
 ('M11 drop one pushed byte', D, 'push_bytes.push(*byte);\n            remaining_push_bytes -= 1;', 'if remaining_push_bytes != 1 { push_bytes.push(*byte); }\n            remaining_push_bytes -= 1;'),
 ('M12 0x5c => JumpDest (unassigned byte as JUMPDEST)', D, '0x5f => add_op(ops, mem::Push0),', '0x5c => add_op(ops, control::JumpDest),\n                0x5f => add_op(ops, mem::Push0),'),
 ('M13 unassigned => Invalid::default()', D, '_ => add_op(ops, control::Invalid::new(*byte)),', '_ => add_op(ops, control::Invalid::default()),'),
 ('M14 unassigned 0x0c => Stop-like (arith::Add)', D, '0x0b => add_op(ops, arith::SignExtend),', '0x0b => add_op(ops, arith::SignExtend),\n                0x0c => add_op(ops, arith::Add),'),
 ('M15 trailing: forget Invalid(last_push)', D, 'add_op(ops, control::Invalid::new(last_push));\n', ''),
 ('M16 trailing: Invalid::default for data bytes', D, 'for_each(|b| add_op(ops, control::Invalid::new(*b)))', 'for_each(|b| add_op(ops, control::Invalid::default()))'),
 ('M17 dup base off by one', D, 'byte - DUP_OPCODE_BASE_VALUE;', 'byte - SWAP_OPCODE_BASE_VALUE;'),
 ('M18 dup range 0x80..=0x90', D, '0x80..=0x8f => {', '0x80..=0x90 => {'),
 ('M19 log range 0xa0..=0xa5', D, '0xa0..=0xa4 => {', '0xa0..=0xa5 => {'),
 ('M20 empty input accepted', D, 'if bytes.is_empty() {\n        return Err(Error::EmptyBytecode.locate(0));\n    }', ''),
 ('M21 empty => BytecodeTooLarge', D, 'Err(Error::EmptyBytecode.locate(0))', 'Err(Error::BytecodeTooLarge.locate(0))'),
 ('M22 Add::as_byte = 0x02', 'src/opcode/arithmetic.rs', 'fn as_byte(&self) -> u8 {\n        0x01\n    }', 'fn as_byte(&self) -> u8 {\n        0x02\n    }'),
 ('M23 PushN::new accepts n <= 33', 'src/opcode/memory.rs', 'if n > 0 && n <= PUSH_OPCODE_MAX_BYTES && bytes.len() == n as usize {', 'if n > 0 && n <= PUSH_OPCODE_MAX_BYTES + 1 && bytes.len() == n as usize {'),
 ('M24 PushN::new rejects n == 32', 'src/opcode/memory.rs', 'if n > 0 && n <= PUSH_OPCODE_MAX_BYTES && bytes.len() == n as usize {', 'if n > 0 && n < PUSH_OPCODE_MAX_BYTES && bytes.len() == n as usize {'),
 ('M25 DupN::new rejects 16', 'src/opcode/memory.rs', 'pub fn new(n: u8) -> Result<Self, disassembly::Error> {\n        if 0 < n && n <= 16 {\n            Ok(Self { item: n })\n        } else {\n            Err(disassembly::Error::InvalidStackItem {\n                item: n,\n                name: "DUP".into(),', 'pub fn new(n: u8) -> Result<Self, disassembly::Error> {\n        if 0 < n && n < 16 {\n            Ok(Self { item: n })\n        } else {\n            Err(disassembly::Error::InvalidStackItem {\n                item: n,\n                name: "DUP".into(),'),
 ('M26 Nop::encode returns [0]', 'src/opcode/control.rs', 'vec![] // This operation takes up no space', 'vec![0] // This operation takes up no space'),
 ('M27 early exit: reset push on completion forgotten (push_size not zeroed)', D, 'push_size = 0;\n                last_push = 0;', 'last_push = 0;'),
 ('M28 offset > 255 rejected (u8::try_from)', D, 'u32::try_from(offset)', 'u32::try_from(offset as u8 as usize + (offset >> 8 << 40))'),
 ('M29 add_op pushes twice (assumed callee)', D, 'ops.push(Rc::new(elem));', 'ops.push(Rc::new(elem)); let l = ops.last().unwrap().clone(); ops.push(l);'),
 ('M30 PushN::encode forgets to reverse', 'src/opcode/memory.rs', 'self.bytes_data().iter().rev().copied().collect()', 'self.bytes_data().iter().copied().collect()'),
 ('M31 PushN::as_byte = base + count + 1', 'src/opcode/memory.rs', 'PUSH_OPCODE_BASE_VALUE + self.byte_count', 'PUSH_OPCODE_BASE_VALUE + self.byte_count + 1'),
 ('M32 immediates: 0x5b data byte emitted as JumpDest', D, 'push_bytes.push(*byte);\n            remaining_push_bytes -= 1;', 'push_bytes.push(*byte);\n            remaining_push_bytes -= 1;\n            if *byte == 0x5b && remaining_push_bytes != 0 { add_op(ops, control::JumpDest); }'),
 ('M33 Invalid::new ignores its byte', 'src/opcode/control.rs', 'pub fn new(byte: u8) -> Self {\n        Self { byte }', 'pub fn new(byte: u8) -> Self {\n        Self { byte: 0xfe }'),
 ('M34 default Opcode::encode returns [as_byte, as_byte]', 'src/opcode/mod.rs', 'vec![self.as_byte()]', 'vec![self.as_byte(), self.as_byte()]'),
 ('H08 trailing test on push_size instead of remaining', D, 'if remaining_push_bytes != 0 {\n        add_op(ops, control::Invalid::new(last_push));', 'if push_size != 0 {\n        add_op(ops, control::Invalid::new(last_push));'),
 ('H09 drop redundant !push_bytes.is_empty()', D, 'if remaining_push_bytes == 0 && !push_bytes.is_empty() {', 'if remaining_push_bytes == 0 {'),
 ('X01 delete assigned arm 0x01 (falls to Invalid{0x01})', D, '                0x01 => add_op(ops, arith::Add),\n', ''),
 ('H01 rename local item_to_duplicate', D, None, None),
 ('H02 reorder two match arms', D, '0x00 => add_op(ops, control::Stop),\n                0x01 => add_op(ops, arith::Add),', '0x01 => add_op(ops, arith::Add),\n                0x00 => add_op(ops, control::Stop),'),
 ('H03 move 0x5b arm to the top', D, None, None),
 ('H04 comment + whitespace edits', D, '// Now we can zero out our state variables.', '// reset\n\n'),
 ('H05 rename local last_push_start', D, None, None),
 ('H06 0xfe => Invalid::new(0xfe)', D, '0xfe => add_op(ops, control::Invalid::default()),', '0xfe => add_op(ops, control::Invalid::new(0xfe)),'),
 ('H07 rename loop-state local push_size (named by invariants)', D, None, None),
]
def run(name, f, old, new):
    subprocess.run(['git','-C',WT,'checkout','--','.'],check=True)
    p=f'{WT}/{f}'
    s=open(p).read()
    if name.startswith('H01'):
        assert 'item_to_duplicate' in s; s=s.replace('item_to_duplicate','dup_index')
    elif name.startswith('H05'):
        s=s.replace('last_push_start','push_at')
    elif name.startswith('H07'):
        s=s.replace('push_size','psz')
    elif name.startswith('H03'):
        arm='                0x5b => add_op(ops, control::JumpDest),\n'
        assert arm in s; s=s.replace(arm,''); s=s.replace('                0x00 => add_op(ops, control::Stop),\n', arm+'                0x00 => add_op(ops, control::Stop),\n')
    else:
        assert s.count(old)==1, (name, s.count(old))
        s=s.replace(old,new)
    open(p,'w').write(s)
    r=subprocess.run(['python3','vx/vx.py','unit','disassemble'],cwd='/verif',env={**__import__('os').environ,'VX_REPO':WT},capture_output=True,text=True)
    out=r.stdout.strip().split('\n')
    head=out[0]
    st=re.search(r'status=(\w+)',head).group(1)
    fails=[]
    for l in out[1:]:
        m=re.match(r"\s*FAIL (\S+) \[(\S+)\] labels=(\[.*?\])",l)
        if m: fails.append(f'{m.group(1).split("::")[-1]}[{m.group(2)}]{m.group(3)}')
    reason=head.split('s ',1)[-1] if st=='undecided' else ''
    print(f'{name:70s} -> {st} {"; ".join(dict.fromkeys(fails))} {reason[:160]}',flush=True)
sel=sys.argv[1:]
for m in MUTS:
    if not sel or any(m[0].startswith(x) for x in sel):
        run(*m)
subprocess.run(['git','-C',WT,'checkout','--','.'],check=True)
