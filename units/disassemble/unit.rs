//@unit props=C10,C01
// Unit disassemble — src/disassembly/disassembler.rs `disassemble` against C10 (total, lossless,
// instruction index = byte offset, push immediates are Nop padding and never JumpDest, unassigned
// bytes are Invalid{byte}, a trailing PUSHn cut short by any number of bytes is tolerated), the
// "JumpDest is never push data" lemma of C08, termination and panic-freedom (C01).
//
// The generated file mirrors the crate's module tree (constant, error::{container, disassembly},
// opcode::{arithmetic, control, environment, logic, memory}, disassembly::disassembler) so that the
// `use crate::{…}` block of disassembler.rs and every path in the extracted bodies resolve verbatim.
use vstd::prelude::*;
verus! {

// =============================== specification (written from C10 / the EVM, not from the code) ====
/// What a stream entry *is*, as far as C10/C08 care. Stand-in for the dynamic type of a
/// `Rc<dyn Opcode>` (the crate asks `as_any().is::<JumpDest>()`; Verus has no `Any`).
pub enum Kind { Plain, JumpDest, Nop, Invalid, Push }

/// PUSH1..PUSH32 (EVM: 0x60..0x7f); PUSH0 (0x5f) has no immediate.
pub open spec fn is_push(b: u8) -> bool { 0x60 <= b <= 0x7f }
/// number of immediate bytes the instruction byte `b` owns (EVM: PUSHn owns n = b - 0x5f)
pub open spec fn imm_len(b: u8) -> int { if is_push(b) { b - 0x5f } else { 0 } }

/// Bytes with an assigned opcode in the EVM fork this crate models (Shanghai: PUSH0 present, no
/// Cancun opcodes). Everything else — including 0x0c..0x0f, 0x1e, 0x1f, 0x21..0x2f, 0x49..0x4f,
/// 0x5c..0x5e, 0xa5..0xef, 0xf6..0xf9, 0xfb, 0xfc — has no assigned opcode and must be INVALID.
pub open spec fn evm_assigned(b: u8) -> bool {
    ||| b <= 0x0b
    ||| 0x10 <= b <= 0x1d
    ||| b == 0x20
    ||| 0x30 <= b <= 0x48
    ||| 0x50 <= b <= 0x5b
    ||| 0x5f <= b <= 0xa4      // PUSH0, PUSH1..32, DUP1..16, SWAP1..16, LOG0..4
    ||| 0xf0 <= b <= 0xf5
    ||| b == 0xfa || b == 0xfd || b == 0xfe || b == 0xff
}

/// Role of byte offset `i` in the code `bytes`: an instruction boundary, an immediate byte of a
/// complete PUSHn, or part of a trailing PUSHn whose immediate is cut short by the end of the code
/// (by any number of bytes, including all of them) — "from the push opcode on".
pub enum Cls { Instr, Imm, Trunc }

/// `pos` is an instruction boundary <= i; walk the instructions forward until `i` is classified.
pub open spec fn scan(bytes: Seq<u8>, pos: int, i: int) -> Cls
    decreases bytes.len() - pos
{
    if pos < 0 || pos >= bytes.len() || i < pos { Cls::Instr } // outside the domain, never used
    else {
        let n = imm_len(bytes[pos]);
        if pos + n >= bytes.len() { Cls::Trunc }         // PUSHn at pos, fewer than n bytes follow
        else if i == pos { Cls::Instr }
        else if i <= pos + n { Cls::Imm }
        else { scan(bytes, pos + 1 + n, i) }
    }
}
pub open spec fn cls(bytes: Seq<u8>, i: int) -> Cls { scan(bytes, 0, i) }

/// re-encoding of an instruction stream: concatenation of every entry's encoding
pub open spec fn enc_all(ops: Seq<crate::opcode::DynOpcode>) -> Seq<u8>
    decreases ops.len()
{
    if ops.len() == 0 { Seq::<u8>::empty() } else { enc_all(ops.drop_last()) + ops.last().enc() }
}

pub broadcast proof fn lemma_enc_all_push(s: Seq<crate::opcode::DynOpcode>, x: crate::opcode::DynOpcode)
    ensures #[trigger] enc_all(s.push(x)) == enc_all(s) + x.enc()
{
    assert(s.push(x).drop_last() =~= s);
}

// =============================== src/constant.rs ====================================================
pub mod constant {
use vstd::prelude::*;
//@extract file=src/constant.rs path="const PUSH_OPCODE_BASE_VALUE" kind=type
//@end
//@extract file=src/constant.rs path="const DUP_OPCODE_BASE_VALUE" kind=type
//@end
//@extract file=src/constant.rs path="const SWAP_OPCODE_BASE_VALUE" kind=type
//@end
//@extract file=src/constant.rs path="const LOG_OPCODE_BASE_VALUE" kind=type
//@end
//@extract file=src/constant.rs path="const PUSH_OPCODE_MAX_BYTES" kind=type
//@end
}

// =============================== src/error ==========================================================
pub mod error {
pub mod container {
use vstd::prelude::*;
// A-DERIVE: derive(Clone, Debug, Eq, Error, PartialEq) dropped (R-ATTR); nothing under contract compares or clones a Located
//@extract file=src/error/container.rs path="struct Located" kind=type
//@end
//@extract file=src/error/container.rs path="trait Locatable" kind=type
//@end
}
pub mod disassembly {
use vstd::prelude::*;
use crate::error::container;
// A-DERIVE: thiserror's derive(Error) and its #[error("…")] display strings are dropped (R-ATTR); Clone is the derived one
#[derive(Clone)]
//@extract file=src/error/disassembly.rs path="enum Error" kind=type
//@end
//@extract file=src/error/disassembly.rs path="type LocatedError" kind=type
//@end
//@extract file=src/error/disassembly.rs path="type Result" kind=type
//@end
//@extract file=src/error/disassembly.rs path="impl container::Locatable for Error" kind=type
//@rw R-SIG
//@old
fn locate(self, instruction_pointer: u32) -> Self::Located {
//@new
fn locate(self, instruction_pointer: u32) -> (r: Self::Located)
        ensures r.location == instruction_pointer, r.payload == self,
    {
//@end
}
}

// =============================== src/opcode =========================================================
pub mod opcode {
use vstd::prelude::*;
use std::rc::Rc;
use crate::Kind;

// Stand-in for `trait Opcode` (src/opcode/mod.rs). `execute`, `min_gas_cost`, `arg_count`,
// `as_text_code` and the `Any + Debug + Downcast` bounds are dropped (VM, format!, downcast_rs are
// outside Verus); `'static` is what `Any` implies and what `Rc<dyn Opcode>` needs.
// Added spec side: `byte_spec` (the EVM byte of the instruction — spec, typed from the EVM table),
// `byte_defined` (when `as_byte` may be called: not on Nop, and only on well-formed N-opcodes),
// `enc` (the byte sequence `encode` returns), `kind`.
pub trait Opcode where Self: 'static {
    spec fn byte_spec(&self) -> u8;
    open spec fn byte_defined(&self) -> bool { true }
    open spec fn kind(&self) -> Kind { Kind::Plain }
    /// true for the impls that override `encode` (Nop, PushN)
    open spec fn overrides_encode(&self) -> bool { false }
    open spec fn enc(&self) -> Seq<u8> { seq![self.byte_spec()] }

    fn as_byte(&self) -> (r: u8)
        requires self.byte_defined(),
        ensures r == self.byte_spec();      //@ob C10.dis.as_byte_is_evm_byte

    fn encode(&self) -> (r: Vec<u8>)
        requires !self.overrides_encode() ==> self.byte_defined(),
        ensures
            !self.overrides_encode() ==> r@ == seq![self.byte_spec()],    //@ob C10.dis.default_encode_is_as_byte
            self.overrides_encode() ==> r@ == self.enc(),                 //@ob C10.dis.encode_override_is_enc
//@extract file=src/opcode/mod.rs path="trait Opcode|fn encode" kind=body id=opcode::Opcode::encode(default)
//@end
}

//@extract file=src/opcode/mod.rs path="type DynOpcode" kind=type
//@end

pub mod arithmetic {
use vstd::prelude::*;
use crate::opcode::Opcode;
//@include disassemble/plain_arithmetic.rs
}

pub mod logic {
use vstd::prelude::*;
use crate::opcode::Opcode;
//@include disassemble/plain_logic.rs
}

pub mod environment {
use vstd::prelude::*;
use crate::{constant::LOG_OPCODE_BASE_VALUE, error::disassembly, opcode::Opcode, Kind};
//@include disassemble/plain_environment.rs

//@extract file=src/opcode/environment.rs path="struct LogN" kind=type
//@end
impl LogN {
    /// view of the private field
    pub closed spec fn n_spec(&self) -> u8 { self.topic_count }
    /// LOG0..LOG4
    pub open spec fn wf(&self) -> bool { self.n_spec() <= 4 }
//@extract file=src/opcode/environment.rs path="impl LogN|fn new"
//@ret r
//@spec
        ensures
            n <= 4 ==> r is Ok && r->Ok_0.wf() && r->Ok_0.n_spec() == n,     //@ob C10.dis.logn_new
            n > 4 ==> r is Err,
//@end
}
impl Opcode for LogN {
    open spec fn byte_spec(&self) -> u8 { (0xa0 + self.n_spec()) as u8 } // EVM: LOGn = 0xa0 + n
    open spec fn byte_defined(&self) -> bool { self.wf() }
//@extract file=src/opcode/environment.rs path="impl Opcode for LogN|fn as_byte"
//@end
}
}

pub mod memory {
use vstd::prelude::*;
use crate::{constant::{DUP_OPCODE_BASE_VALUE, PUSH_OPCODE_BASE_VALUE, PUSH_OPCODE_MAX_BYTES, SWAP_OPCODE_BASE_VALUE},
            error::disassembly, opcode::Opcode, Kind};
//@include disassemble/plain_memory.rs

//@extract file=src/opcode/memory.rs path="struct DupN" kind=type
//@end
impl DupN {
    /// view of the private field
    pub closed spec fn n_spec(&self) -> u8 { self.item }
    /// DUP1..DUP16
    pub open spec fn wf(&self) -> bool { 1 <= self.n_spec() <= 16 }
//@extract file=src/opcode/memory.rs path="impl DupN|fn new"
//@ret r
//@spec
        ensures
            1 <= n <= 16 ==> r is Ok && r->Ok_0.wf() && r->Ok_0.n_spec() == n,     //@ob C10.dis.dupn_new
            !(1 <= n <= 16) ==> r is Err,
//@end
}
impl Opcode for DupN {
    open spec fn byte_spec(&self) -> u8 { (0x7f + self.n_spec()) as u8 } // EVM: DUPn = 0x7f + n
    open spec fn byte_defined(&self) -> bool { self.wf() }
//@extract file=src/opcode/memory.rs path="impl Opcode for DupN|fn as_byte"
//@end
}

//@extract file=src/opcode/memory.rs path="struct SwapN" kind=type
//@end
impl SwapN {
    /// view of the private field
    pub closed spec fn n_spec(&self) -> u8 { self.item }
    /// SWAP1..SWAP16
    pub open spec fn wf(&self) -> bool { 1 <= self.n_spec() <= 16 }
//@extract file=src/opcode/memory.rs path="impl SwapN|fn new"
//@ret r
//@spec
        ensures
            1 <= n <= 16 ==> r is Ok && r->Ok_0.wf() && r->Ok_0.n_spec() == n,     //@ob C10.dis.swapn_new
            !(1 <= n <= 16) ==> r is Err,
//@end
}
impl Opcode for SwapN {
    open spec fn byte_spec(&self) -> u8 { (0x8f + self.n_spec()) as u8 } // EVM: SWAPn = 0x8f + n
    open spec fn byte_defined(&self) -> bool { self.wf() }
//@extract file=src/opcode/memory.rs path="impl Opcode for SwapN|fn as_byte"
//@end
}

//@extract file=src/opcode/memory.rs path="struct PushN" kind=type
//@end
// A-STD: reversing iterator chains and Vec::extend (iterator adapters, no vstd spec) as assumed callees
#[verifier::external_body]
pub fn rev_vec(v: Vec<u8>) -> (r: Vec<u8>)
    ensures r@ == v@.reverse()
{ v.into_iter().rev().collect() }
#[verifier::external_body]
pub fn rev_slice(v: &[u8]) -> (r: Vec<u8>)
    ensures r@ == v@.reverse()
{ v.iter().rev().copied().collect() }
#[verifier::external_body]
pub fn vec_extend(data: &mut Vec<u8>, more: Vec<u8>)
    ensures final(data)@ == old(data)@ + more@
{ data.extend(more) }

impl PushN {
    /// PUSH1..PUSH32 with exactly n immediate bytes (stored little-endian, i.e. reversed)
    pub open spec fn wf(&self) -> bool { 1 <= self.n_spec() <= 32 && self.stored().len() == self.n_spec() }
    /// views of the private fields
    pub closed spec fn n_spec(&self) -> u8 { self.byte_count }
    pub closed spec fn stored(&self) -> Seq<u8> { self.bytes@ }
    /// the immediate in code (big-endian) order
    pub open spec fn imm(&self) -> Seq<u8> { self.stored().reverse() }

//@extract file=src/opcode/memory.rs path="impl PushN|fn new"
//@ret r
//@rw R-IMPL-INTO
//@old
bytes: impl Into<Vec<u8>>
//@new
bytes: Vec<u8>
//@rw R-IMPL-INTO
//@old
= bytes.into();
//@new
= bytes;
//@rw R-CALL
//@old
bytes.into_iter().rev().collect()
//@new
rev_vec(bytes)
//@spec
        ensures
            (1 <= n <= 32 && bytes@.len() == n) ==> r is Ok && r->Ok_0.wf() && r->Ok_0.n_spec() == n && r->Ok_0.imm() == bytes@,   //@ob C10.dis.pushn_new
            !(1 <= n <= 32 && bytes@.len() == n) ==> r is Err,
//@proof entry
        proof { assert(bytes@.reverse().reverse() =~= bytes@); }
//@end

//@extract file=src/opcode/memory.rs path="impl PushN|fn bytes_data"
//@ret r
//@spec
        ensures r@ == self.stored(),
//@end
}
impl Opcode for PushN {
    open spec fn byte_spec(&self) -> u8 { (0x5f + self.n_spec()) as u8 } // EVM: PUSHn = 0x5f + n
    open spec fn byte_defined(&self) -> bool { self.wf() }
    open spec fn kind(&self) -> Kind { Kind::Push }
    open spec fn overrides_encode(&self) -> bool { true }
    open spec fn enc(&self) -> Seq<u8> { seq![self.byte_spec()] + self.imm() }   // opcode byte, then the immediate as it stood in the code
//@extract file=src/opcode/memory.rs path="impl Opcode for PushN|fn as_byte"
//@end
//@extract file=src/opcode/memory.rs path="impl Opcode for PushN|fn encode"
//@rw R-CALL
//@old
self.bytes_data().iter().rev().copied().collect()
//@new
rev_slice(self.bytes_data())
//@rw R-CALL
//@old
data.extend(bytes_be)
//@new
vec_extend(&mut data, bytes_be)
//@end
}
}

pub mod control {
use vstd::prelude::*;
use crate::{opcode::Opcode, Kind};
//@include disassemble/plain_control.rs

//@extract file=src/opcode/control.rs path="struct JumpDest" kind=type
//@end
impl Opcode for JumpDest {
    open spec fn byte_spec(&self) -> u8 { 0x5b } // EVM: JUMPDEST
    open spec fn kind(&self) -> Kind { Kind::JumpDest }
//@extract file=src/opcode/control.rs path="impl Opcode for JumpDest|fn as_byte"
//@end
}

//@extract file=src/opcode/control.rs path="struct Invalid" kind=type
//@end
//@extract file=src/opcode/control.rs path="impl Invalid" kind=header
//@end
//@extract file=src/opcode/control.rs path="impl Invalid|fn new"
//@ret r
//@spec
        ensures r.byte == byte,     //@ob C10.dis.invalid_new_keeps_byte
//@end
}
impl Opcode for Invalid {
    open spec fn byte_spec(&self) -> u8 { self.byte } // INVALID stands for whatever byte it wraps
    open spec fn kind(&self) -> Kind { Kind::Invalid }
//@extract file=src/opcode/control.rs path="impl Opcode for Invalid|fn as_byte"
//@end
}
//@extract file=src/opcode/control.rs path="impl Default for Invalid" kind=header
//@end
//@extract file=src/opcode/control.rs path="impl Default for Invalid|fn default"
//@ret r
//@spec
        ensures r.byte == 0xfe,     //@ob C10.dis.invalid_default_is_0xfe
//@end
}

//@extract file=src/opcode/control.rs path="struct Nop" kind=type
//@end
impl Opcode for Nop {
    open spec fn byte_spec(&self) -> u8 { 0 }                       // no byte: as_byte must never be called
    open spec fn byte_defined(&self) -> bool { false }
    open spec fn kind(&self) -> Kind { Kind::Nop }
    open spec fn overrides_encode(&self) -> bool { true }
    open spec fn enc(&self) -> Seq<u8> { Seq::<u8>::empty() }      // padding: takes no space in the code
//@extract file=src/opcode/control.rs path="impl Opcode for Nop|fn as_byte"
//@end
//@extract file=src/opcode/control.rs path="impl Opcode for Nop|fn encode"
//@end
}
}
} // mod opcode

} // verus!
fn main() {}
