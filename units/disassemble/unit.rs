//@unit props=C10,C01
// Unit disassemble — src/disassembly/disassembler.rs `disassemble` against C10 (total, lossless,
// instruction index = byte offset, push immediates are Nop padding and never JumpDest, unassigned
// bytes are Invalid{byte}, a trailing PUSHn cut short by any number of bytes is tolerated), the
// "JumpDest is never push data" lemma of C08, termination and panic-freedom (C01).
//
// The generated file mirrors the crate's module tree (constant, error::{container, disassembly},
// opcode::{arithmetic, control, environment, logic, memory}, disassembly::disassembler) so that the
// `use crate::{…}` block of disassembler.rs and every path in the extracted bodies resolve verbatim.
//@dropped Opcode::{execute, min_gas_cost, arg_count, as_text_code} of every opcode and the Any+Debug+Downcast bounds (VM, format!, downcast_rs): not under contract in this unit
//@dropped PushN::{byte_size, bytes_as_word}, DupN/SwapN/LogN::n, `impl Locatable for Result<T,E>`, Display impls: not used by disassemble
//@dropped InstructionStream::try_from (src/disassembly/mod.rs: the caller that re-encodes and assert_eq!s): clause C10.dis.lossless is what makes that assertion unreachable, the caller itself is not extracted
//@dropped the reversing iterator chains in PushN::{new, encode} and Vec::extend are replaced by assumed callees rev_vec / rev_slice / vec_extend (R-CALL, A-STD)
use vstd::prelude::*;
verus! {

// =============================== specification (written from C10 / the EVM, not from the code) ====
/// What a stream entry *is*, as far as C10/C08 care. Stand-in for the dynamic type of a
/// `Rc<dyn Opcode>` (the crate asks `as_any().is::<JumpDest>()`; Verus has no `Any`).
pub enum Kind { Plain, JumpDest, Nop, Invalid, Push }

/// PUSH1..PUSH32 (EVM: 0x60..0x7f); PUSH0 (0x5f) has no immediate.
pub open spec fn is_push(b: u8) -> bool { 0x60 <= b <= 0x7f }
/// number of immediate bytes the instruction byte `b` owns (EVM: PUSHn owns n = b - 0x5f)
pub open spec fn imm_len(b: u8) -> int { if is_push(b) { b - 0x5f } else { 0 } }

/// Bytes with an assigned opcode in the EVM fork this crate models (Shanghai: PUSH0 present, no
/// Cancun opcodes). Everything else — including 0x0c..0x0f, 0x1e, 0x1f, 0x21..0x2f, 0x49..0x4f,
/// 0x5c..0x5e, 0xa5..0xef, 0xf6..0xf9, 0xfb, 0xfc — has no assigned opcode and must be INVALID.
pub open spec fn evm_assigned(b: u8) -> bool {
    ||| b <= 0x0b
    ||| 0x10 <= b <= 0x1d
    ||| b == 0x20
    ||| 0x30 <= b <= 0x48
    ||| 0x50 <= b <= 0x5b
    ||| 0x5f <= b <= 0xa4      // PUSH0, PUSH1..32, DUP1..16, SWAP1..16, LOG0..4
    ||| 0xf0 <= b <= 0xf5
    ||| b == 0xfa || b == 0xfd || b == 0xfe || b == 0xff
}

/// Role of byte offset `i` in the code `bytes`: an instruction boundary, an immediate byte of a
/// complete PUSHn, or part of a trailing PUSHn whose immediate is cut short by the end of the code
/// (by any number of bytes, including all of them) — "from the push opcode on".
pub enum Cls { Instr, Imm, Trunc }

/// `pos` is an instruction boundary <= i; walk the instructions forward until `i` is classified.
pub open spec fn scan(bytes: Seq<u8>, pos: int, i: int) -> Cls
    decreases bytes.len() - pos
{
    if pos < 0 || pos >= bytes.len() || i < pos { Cls::Instr } // outside the domain, never used
    else {
        let n = imm_len(bytes[pos]);
        if pos + n >= bytes.len() { Cls::Trunc }         // PUSHn at pos, fewer than n bytes follow
        else if i == pos { Cls::Instr }
        else if i <= pos + n { Cls::Imm }
        else { scan(bytes, pos + 1 + n, i) }
    }
}
pub open spec fn cls(bytes: Seq<u8>, i: int) -> Cls { scan(bytes, 0, i) }

/// re-encoding of an instruction stream: concatenation of every entry's encoding
pub open spec fn enc_all(ops: Seq<crate::opcode::DynOpcode>) -> Seq<u8>
    decreases ops.len()
{
    if ops.len() == 0 { Seq::<u8>::empty() } else { enc_all(ops.drop_last()) + ops.last().enc() }
}

pub broadcast proof fn lemma_enc_all_push(s: Seq<crate::opcode::DynOpcode>, x: crate::opcode::DynOpcode)
    ensures #[trigger] enc_all(s.push(x)) == enc_all(s) + x.enc()
{
    assert(s.push(x).drop_last() =~= s);
}

/// Non-vacuity of the classification: the property's own corner cases, evaluated.
proof fn spec_examples() {
    // 00 60: code ending in a bare PUSH1 (0 of 1 immediate bytes present)
    assert(cls(seq![0x00u8, 0x60u8], 0) is Instr) by(compute);
    assert(cls(seq![0x00u8, 0x60u8], 1) is Trunc) by(compute);
    // 61 5b 5b 5b: PUSH2 0x5b5b, JUMPDEST — immediates that look like JUMPDEST are data
    assert(cls(seq![0x61u8, 0x5bu8, 0x5bu8, 0x5bu8], 0) is Instr) by(compute);
    assert(cls(seq![0x61u8, 0x5bu8, 0x5bu8, 0x5bu8], 1) is Imm) by(compute);
    assert(cls(seq![0x61u8, 0x5bu8, 0x5bu8, 0x5bu8], 2) is Imm) by(compute);
    assert(cls(seq![0x61u8, 0x5bu8, 0x5bu8, 0x5bu8], 3) is Instr) by(compute);
    // 5b 62 01 02: JUMPDEST, then PUSH3 cut short by one byte: invalid from the push opcode on
    assert(cls(seq![0x5bu8, 0x62u8, 0x01u8, 0x02u8], 0) is Instr) by(compute);
    assert(cls(seq![0x5bu8, 0x62u8, 0x01u8, 0x02u8], 1) is Trunc) by(compute);
    assert(cls(seq![0x5bu8, 0x62u8, 0x01u8, 0x02u8], 3) is Trunc) by(compute);
    assert(cls(seq![0x7fu8], 0) is Trunc) by(compute);   // PUSH32 alone
    assert(cls(seq![0x5fu8], 0) is Instr) by(compute);   // PUSH0 has no immediate
}

// =============================== src/constant.rs ====================================================
pub mod constant {
use vstd::prelude::*;
//@extract file=src/constant.rs path="const PUSH_OPCODE_BASE_VALUE" kind=type
//@end
//@extract file=src/constant.rs path="const DUP_OPCODE_BASE_VALUE" kind=type
//@end
//@extract file=src/constant.rs path="const SWAP_OPCODE_BASE_VALUE" kind=type
//@end
//@extract file=src/constant.rs path="const LOG_OPCODE_BASE_VALUE" kind=type
//@end
//@extract file=src/constant.rs path="const PUSH_OPCODE_MAX_BYTES" kind=type
//@end
}

// =============================== src/error ==========================================================
pub mod error {
pub mod container {
use vstd::prelude::*;
// A-DERIVE: derive(Clone, Debug, Eq, Error, PartialEq) dropped (R-ATTR); nothing under contract compares or clones a Located
//@extract file=src/error/container.rs path="struct Located" kind=type
//@end
//@extract file=src/error/container.rs path="trait Locatable" kind=type
//@end
}
pub mod disassembly {
use vstd::prelude::*;
use crate::error::container;
// A-DERIVE: thiserror's derive(Error) and its #[error("…")] display strings are dropped (R-ATTR); Clone is the derived one
#[derive(Clone)]
//@extract file=src/error/disassembly.rs path="enum Error" kind=type
//@end
//@extract file=src/error/disassembly.rs path="type LocatedError" kind=type
//@end
//@extract file=src/error/disassembly.rs path="type Result" kind=type
//@end
//@extract file=src/error/disassembly.rs path="impl container::Locatable for Error" kind=type
//@rw R-SIG
//@old
fn locate(self, instruction_pointer: u32) -> Self::Located {
//@new
fn locate(self, instruction_pointer: u32) -> (r: Self::Located)
        ensures r.location == instruction_pointer, r.payload == self,
    {
//@end
}
}

// =============================== src/opcode =========================================================
pub mod opcode {
use vstd::prelude::*;
use std::rc::Rc;
use crate::Kind;

// Stand-in for `trait Opcode` (src/opcode/mod.rs). `execute`, `min_gas_cost`, `arg_count`,
// `as_text_code` and the `Any + Debug + Downcast` bounds are dropped (VM, format!, downcast_rs are
// outside Verus); `'static` is what `Any` implies and what `Rc<dyn Opcode>` needs.
// Added spec side: `byte_spec` (the EVM byte of the instruction — spec, typed from the EVM table),
// `byte_defined` (when `as_byte` may be called: not on Nop, and only on well-formed N-opcodes),
// `enc` (the byte sequence `encode` returns), `kind`.
pub trait Opcode where Self: 'static {
    spec fn byte_spec(&self) -> u8;
    open spec fn byte_defined(&self) -> bool { true }
    open spec fn kind(&self) -> Kind { Kind::Plain }
    open spec fn enc(&self) -> Seq<u8> { seq![self.byte_spec()] }

    fn as_byte(&self) -> (r: u8)
        requires self.byte_defined(),
        ensures r == self.byte_spec();      //@ob C10.dis.as_byte_is_evm_byte

}

/// Carrier for the *default* body of `Opcode::encode` (src/opcode/mod.rs) — what every opcode that
/// does not override `encode` runs; verified once for an arbitrary implementor. The two overrides
/// (Nop, PushN) are checked as inherent functions next to their types.
pub trait OpcodeEncodeDefault: Opcode {
    fn encode(&self) -> (r: Vec<u8>)
        requires self.byte_defined(),
        ensures r@ == seq![self.byte_spec()],    //@ob C10.dis.default_encode_is_as_byte
//@extract file=src/opcode/mod.rs path="trait Opcode|fn encode" kind=body id=opcode::Opcode::encode(default)
//@end
}

//@extract file=src/opcode/mod.rs path="type DynOpcode" kind=type
//@end

pub mod arithmetic {
use vstd::prelude::*;
use crate::opcode::Opcode;
//@include disassemble/plain_arithmetic.rs
}

pub mod logic {
use vstd::prelude::*;
use crate::opcode::Opcode;
//@include disassemble/plain_logic.rs
}

pub mod environment {
use vstd::prelude::*;
use crate::{constant::LOG_OPCODE_BASE_VALUE, error::disassembly, opcode::Opcode, Kind};
//@include disassemble/plain_environment.rs

//@extract file=src/opcode/environment.rs path="struct LogN" kind=type
//@end
impl LogN {
    /// view of the private field
    pub closed spec fn n_spec(&self) -> u8 { self.topic_count }
    /// LOG0..LOG4
    pub open spec fn wf(&self) -> bool { self.n_spec() <= 4 }
//@extract file=src/opcode/environment.rs path="impl LogN|fn new"
//@ret r
//@spec
        ensures
            n <= 4 ==> r is Ok && r->Ok_0.wf() && r->Ok_0.n_spec() == n,     //@ob C10.dis.logn_new
            n > 4 ==> r is Err,     //@ob C10.dis.logn_new
//@end
}
impl Opcode for LogN {
    open spec fn byte_spec(&self) -> u8 { (0xa0 + self.n_spec()) as u8 } // EVM: LOGn = 0xa0 + n
    open spec fn byte_defined(&self) -> bool { self.wf() }
//@extract file=src/opcode/environment.rs path="impl Opcode for LogN|fn as_byte"
//@end
}
}

pub mod memory {
use vstd::prelude::*;
use crate::{constant::{DUP_OPCODE_BASE_VALUE, PUSH_OPCODE_BASE_VALUE, PUSH_OPCODE_MAX_BYTES, SWAP_OPCODE_BASE_VALUE},
            error::disassembly, opcode::Opcode, Kind};
//@include disassemble/plain_memory.rs

//@extract file=src/opcode/memory.rs path="struct DupN" kind=type
//@end
impl DupN {
    /// view of the private field
    pub closed spec fn n_spec(&self) -> u8 { self.item }
    /// DUP1..DUP16
    pub open spec fn wf(&self) -> bool { 1 <= self.n_spec() <= 16 }
//@extract file=src/opcode/memory.rs path="impl DupN|fn new"
//@ret r
//@spec
        ensures
            1 <= n <= 16 ==> r is Ok && r->Ok_0.wf() && r->Ok_0.n_spec() == n,     //@ob C10.dis.dupn_new
            !(1 <= n <= 16) ==> r is Err,     //@ob C10.dis.dupn_new
//@end
}
impl Opcode for DupN {
    open spec fn byte_spec(&self) -> u8 { (0x7f + self.n_spec()) as u8 } // EVM: DUPn = 0x7f + n
    open spec fn byte_defined(&self) -> bool { self.wf() }
//@extract file=src/opcode/memory.rs path="impl Opcode for DupN|fn as_byte"
//@end
}

//@extract file=src/opcode/memory.rs path="struct SwapN" kind=type
//@end
impl SwapN {
    /// view of the private field
    pub closed spec fn n_spec(&self) -> u8 { self.item }
    /// SWAP1..SWAP16
    pub open spec fn wf(&self) -> bool { 1 <= self.n_spec() <= 16 }
//@extract file=src/opcode/memory.rs path="impl SwapN|fn new"
//@ret r
//@spec
        ensures
            1 <= n <= 16 ==> r is Ok && r->Ok_0.wf() && r->Ok_0.n_spec() == n,     //@ob C10.dis.swapn_new
            !(1 <= n <= 16) ==> r is Err,     //@ob C10.dis.swapn_new
//@end
}
impl Opcode for SwapN {
    open spec fn byte_spec(&self) -> u8 { (0x8f + self.n_spec()) as u8 } // EVM: SWAPn = 0x8f + n
    open spec fn byte_defined(&self) -> bool { self.wf() }
//@extract file=src/opcode/memory.rs path="impl Opcode for SwapN|fn as_byte"
//@end
}

//@extract file=src/opcode/memory.rs path="struct PushN" kind=type
//@end
// A-STD: reversing iterator chains and Vec::extend (iterator adapters, no vstd spec) as assumed callees
#[verifier::external_body]
pub fn rev_vec(v: Vec<u8>) -> (r: Vec<u8>)
    ensures r@ == v@.reverse()
{ v.into_iter().rev().collect() }
#[verifier::external_body]
pub fn rev_slice(v: &[u8]) -> (r: Vec<u8>)
    ensures r@ == v@.reverse()
{ v.iter().rev().copied().collect() }
#[verifier::external_body]
pub fn vec_extend(data: &mut Vec<u8>, more: Vec<u8>)
    ensures final(data)@ == old(data)@ + more@
{ data.extend(more) }

impl PushN {
    /// PUSH1..PUSH32 with exactly n immediate bytes (stored little-endian, i.e. reversed)
    pub open spec fn wf(&self) -> bool { 1 <= self.n_spec() <= 32 && self.stored().len() == self.n_spec() }
    /// views of the private fields
    pub closed spec fn n_spec(&self) -> u8 { self.byte_count }
    pub closed spec fn stored(&self) -> Seq<u8> { self.bytes@ }
    /// the immediate in code (big-endian) order
    pub open spec fn imm(&self) -> Seq<u8> { self.stored().reverse() }

//@extract file=src/opcode/memory.rs path="impl PushN|fn new"
//@ret r
//@rw R-IMPL-INTO
//@old
bytes: impl Into<Vec<u8>>
//@new
bytes: Vec<u8>
//@rw R-IMPL-INTO
//@old
= bytes.into();
//@new
= bytes;
//@rw R-CALL
//@old
bytes.into_iter().rev().collect()
//@new
rev_vec(bytes)
//@spec
        ensures
            (1 <= n <= 32 && bytes@.len() == n) ==> r is Ok && r->Ok_0.wf() && r->Ok_0.n_spec() == n && r->Ok_0.imm() == bytes@,   //@ob C10.dis.pushn_new
            !(1 <= n <= 32 && bytes@.len() == n) ==> r is Err,     //@ob C10.dis.pushn_new
//@proof entry
        proof { assert(bytes@.reverse().reverse() =~= bytes@); }
//@end

//@extract file=src/opcode/memory.rs path="impl PushN|fn bytes_data"
//@ret r
//@spec
        ensures r@ == self.stored(),
//@end
}
impl Opcode for PushN {
    open spec fn byte_spec(&self) -> u8 { (0x5f + self.n_spec()) as u8 } // EVM: PUSHn = 0x5f + n
    open spec fn byte_defined(&self) -> bool { self.wf() }
    open spec fn kind(&self) -> Kind { Kind::Push }
    open spec fn enc(&self) -> Seq<u8> { seq![self.byte_spec()] + self.imm() }   // opcode byte, then the immediate as it stood in the code
//@extract file=src/opcode/memory.rs path="impl Opcode for PushN|fn as_byte"
//@end
}
impl PushN { // the `encode` override of `impl Opcode for PushN`, as an inherent fn (the stand-in trait carries no `encode`)
//@extract file=src/opcode/memory.rs path="impl Opcode for PushN|fn encode"
//@ret r
//@rw R-CALL
//@old
self.bytes_data().iter().rev().copied().collect()
//@new
rev_slice(self.bytes_data())
//@rw R-CALL
//@old
data.extend(bytes_be)
//@new
vec_extend(&mut data, bytes_be)
//@spec
        requires self.wf(),
        ensures r@ == self.enc(),     //@ob C10.dis.pushn_encode_is_enc
//@end
}
}

pub mod control {
use vstd::prelude::*;
use crate::{opcode::Opcode, Kind};
//@include disassemble/plain_control.rs

//@extract file=src/opcode/control.rs path="struct JumpDest" kind=type
//@end
impl Opcode for JumpDest {
    open spec fn byte_spec(&self) -> u8 { 0x5b } // EVM: JUMPDEST
    open spec fn kind(&self) -> Kind { Kind::JumpDest }
//@extract file=src/opcode/control.rs path="impl Opcode for JumpDest|fn as_byte"
//@end
}

//@extract file=src/opcode/control.rs path="struct Invalid" kind=type
//@end
//@extract file=src/opcode/control.rs path="impl Invalid" kind=header
//@end
//@extract file=src/opcode/control.rs path="impl Invalid|fn new"
//@ret r
//@spec
        ensures r.byte == byte,     //@ob C10.dis.invalid_new_keeps_byte
//@end
}
impl Opcode for Invalid {
    open spec fn byte_spec(&self) -> u8 { self.byte } // INVALID stands for whatever byte it wraps
    open spec fn kind(&self) -> Kind { Kind::Invalid }
//@extract file=src/opcode/control.rs path="impl Opcode for Invalid|fn as_byte"
//@end
}
//@extract file=src/opcode/control.rs path="impl Default for Invalid" kind=header
//@end
//@extract file=src/opcode/control.rs path="impl Default for Invalid|fn default"
//@ret r
//@spec
        ensures r.byte == 0xfe,     //@ob C10.dis.invalid_default_is_0xfe
//@end
}

//@extract file=src/opcode/control.rs path="struct Nop" kind=type
//@end
impl Opcode for Nop {
    open spec fn byte_spec(&self) -> u8 { 0 }                       // no byte: as_byte must never be called
    open spec fn byte_defined(&self) -> bool { false }
    open spec fn kind(&self) -> Kind { Kind::Nop }
    open spec fn enc(&self) -> Seq<u8> { Seq::<u8>::empty() }      // padding: takes no space in the code
//@extract file=src/opcode/control.rs path="impl Opcode for Nop|fn as_byte"
//@end
}
impl Nop { // the `encode` override of `impl Opcode for Nop`, as an inherent fn
//@extract file=src/opcode/control.rs path="impl Opcode for Nop|fn encode"
//@ret r
//@spec
        ensures r@ == self.enc(),     //@ob C10.dis.nop_encode_is_empty
//@end
}
}
} // mod opcode

// =============================== src/disassembly/disassembler.rs ====================================
pub mod disassembly {
pub mod disassembler {
use vstd::prelude::*;
use crate::{Kind, Cls, cls, scan, is_push, imm_len, evm_assigned, enc_all, lemma_enc_all_push};
// the module's own import block, verbatim (the generated file mirrors the crate's module tree)
//@extract file=src/disassembly/disassembler.rs path="use std::rc::Rc" kind=type id=disassembler::use_rc
//@end
//@extract file=src/disassembly/disassembler.rs path="use crate" kind=type id=disassembler::use_crate
//@end
;

/// The `Rc<dyn Opcode>` that `Rc::new(elem)` coerces to. Verus does not connect the spec functions of
/// a `dyn Opcode` behind an `Rc` with those of the concrete `elem` it was made from.
pub uninterp spec fn dyn_of<T: Opcode>(elem: T) -> DynOpcode;

// A-CALLEE: `Rc::new(elem)` coerced to `Rc<dyn Opcode>` is ASSUMED to behave as `elem` (same encoding,
// same byte, same kind): dynamic dispatch through `Rc<dyn Opcode>` reaches `elem`'s own methods.
#[verifier::external_body]
pub fn rc_dyn<T: Opcode>(elem: T) -> (r: DynOpcode)
    ensures
        r == dyn_of(elem),
        dyn_of(elem).enc() == elem.enc(),
        dyn_of(elem).byte_spec() == elem.byte_spec(),
        dyn_of(elem).kind() == elem.kind(),
{
    Rc::new(elem)
}

//@extract file=src/disassembly/disassembler.rs path="fn add_op"
//@rw R-CALL
//@old
Rc::new(elem)
//@new
rc_dyn(elem)
//@spec
    ensures
        final(ops)@ == old(ops)@.push(dyn_of(elem)),                     //@ob C10.dis.add_op_appends_one
        dyn_of(elem).enc() == elem.enc(),
        dyn_of(elem).byte_spec() == elem.byte_spec(),
        dyn_of(elem).kind() == elem.kind(),
//@end

//@extract file=src/disassembly/disassembler.rs path="fn disassemble"
//@ret res
//@rw R-ENUM
//@old
for (offset, byte) in bytes.iter().enumerate() {
//@new
for offset in 0..bytes.len() {
        let byte = &bytes[offset];
//@rw R-MAPERR
//@old
let instruction_pointer = $1.map_err(|_| $2)?;
//@new
let instruction_pointer = match $1 { Ok(v) => v, Err(_) => return Err($2) };
//@rw R-MAPERR count=5
//@old
let opcode = $1.map_err(|e| e.locate($2))?;
//@new
let opcode = match $1 { Ok(v) => v, Err(e) => return Err(e.locate($2)) };
//@rw R-FOREACH
//@old
push_bytes.iter().for_each(|b| $1);
//@new
for k in 0..push_bytes.len() { let b = &push_bytes[k]; $1; }
//@rw R-SIG
//@old
for _ in $1 {
//@new
for _ in pad: $1 {
//@spec
    ensures
        bytes@.len() == 0 ==> res is Err && res->Err_0.payload is EmptyBytecode,                    //@ob C10.dis.empty_is_error
        0 < bytes@.len() <= u32::MAX ==> res is Ok,                                                 //@ob C10.dis.total
        res is Ok ==> res->Ok_0@.len() == bytes@.len(),                                             //@ob C10.dis.index_is_offset
        res is Ok ==> enc_all(res->Ok_0@) == bytes@,                                                //@ob C10.dis.lossless
        res is Ok ==> forall|i: int| 0 <= i < bytes@.len() && cls(bytes@, i) is Imm
            ==> (#[trigger] res->Ok_0@[i]).kind() is Nop,                                           //@ob C10.dis.immediates_are_nop
        res is Ok ==> forall|i: int| 0 <= i < bytes@.len() && (#[trigger] res->Ok_0@[i]).kind() is JumpDest
            ==> bytes@[i] == 0x5b && cls(bytes@, i) is Instr,                                       //@ob C08.dis.jumpdest_is_boundary C10.dis.jumpdest_never_push_data
        res is Ok ==> forall|i: int| 0 <= i < bytes@.len() && cls(bytes@, i) is Instr && !evm_assigned(bytes@[i])
            ==> (#[trigger] res->Ok_0@[i]).kind() is Invalid && res->Ok_0@[i].byte_spec() == bytes@[i],   //@ob C10.dis.unassigned_is_invalid
        res is Ok ==> forall|i: int| 0 <= i < bytes@.len() && cls(bytes@, i) is Trunc
            ==> (#[trigger] res->Ok_0@[i]).kind() is Invalid && res->Ok_0@[i].byte_spec() == bytes@[i],   //@ob C10.dis.truncated_push_is_invalid_bytes
//@proof entry
    proof { broadcast use lemma_enc_all_push; }
//@loop 1 kind=for
        invariant
            // the push-immediate counter
            (remaining_push_bytes == 0) == (push_size == 0),                                       //@ob C10.dis.inv.push_counter
            remaining_push_bytes <= push_size <= 32,                                               //@ob C10.dis.inv.push_counter
            push_bytes@.len() == push_size - remaining_push_bytes,                                 //@ob C10.dis.inv.push_counter
            push_size == 0 ==> ops@.len() == offset,                                               //@ob C10.dis.index_is_offset
            push_size != 0 ==> ops@.len() + 1 + push_bytes@.len() == offset,                       //@ob C10.dis.index_is_offset
            push_size != 0 ==> is_push(last_push) && push_size == last_push - 0x5f && bytes@[ops@.len() as int] == last_push,   //@ob C10.dis.inv.open_push_is_evm_push
            push_size != 0 ==> push_bytes@ =~= bytes@.subrange(ops@.len() as int + 1, offset as int),                         //@ob C10.dis.inv.open_push_immediate
            // ops@.len() is an instruction boundary
            forall|i: int| ops@.len() <= i < bytes@.len() ==> #[trigger] cls(bytes@, i) == scan(bytes@, ops@.len() as int, i),   //@ob C10.dis.inv.at_instruction_boundary
            // what has been emitted so far
            enc_all(ops@) =~= bytes@.subrange(0, ops@.len() as int),                               //@ob C10.dis.lossless
            forall|i: int| 0 <= i < ops@.len() && cls(bytes@, i) is Imm ==> (#[trigger] ops@[i]).kind() is Nop,      //@ob C10.dis.immediates_are_nop
            forall|i: int| 0 <= i < ops@.len() && (#[trigger] ops@[i]).kind() is JumpDest
                ==> bytes@[i] == 0x5b && cls(bytes@, i) is Instr,                                  //@ob C08.dis.jumpdest_is_boundary C10.dis.jumpdest_never_push_data
            forall|i: int| 0 <= i < ops@.len() && cls(bytes@, i) is Instr && !evm_assigned(bytes@[i])
                ==> (#[trigger] ops@[i]).kind() is Invalid && ops@[i].byte_spec() == bytes@[i],    //@ob C10.dis.unassigned_is_invalid
            forall|i: int| 0 <= i < ops@.len() ==> !(#[trigger] cls(bytes@, i) is Trunc),    //@ob C10.dis.truncated_push_is_invalid_bytes
//@proof loopstart #1
            proof {
                broadcast use lemma_enc_all_push;
                assert(bytes@.subrange(0, offset as int + 1) =~= bytes@.subrange(0, offset as int).push(bytes@[offset as int]));
            }
//@proof before "for _ in"
                proof {
                    let s = offset - push_size;
                    assert(push_bytes@ =~= bytes@.subrange(s + 1, offset + 1));
                    assert(bytes@.subrange(0, offset + 1) =~= bytes@.subrange(0, s) + (seq![last_push] + push_bytes@));
                }
//@loop 2 kind=for
                    invariant
                        remaining_push_bytes == 0, 1 <= push_size <= 32, push_size <= offset < bytes@.len(),
                        ops@.len() + push_size == offset + 1 + pad.index@,                         //@ob C10.dis.index_is_offset
                        forall|i: int| offset - push_size < i <= offset ==> #[trigger] cls(bytes@, i) is Imm,
                        enc_all(ops@) =~= bytes@.subrange(0, offset as int + 1),                   //@ob C10.dis.lossless
                        forall|i: int| 0 <= i < ops@.len() && cls(bytes@, i) is Imm ==> (#[trigger] ops@[i]).kind() is Nop,      //@ob C10.dis.immediates_are_nop
                        forall|i: int| 0 <= i < ops@.len() && (#[trigger] ops@[i]).kind() is JumpDest
                            ==> bytes@[i] == 0x5b && cls(bytes@, i) is Instr,                      //@ob C08.dis.jumpdest_is_boundary C10.dis.jumpdest_never_push_data
                        forall|i: int| 0 <= i < ops@.len() && cls(bytes@, i) is Instr && !evm_assigned(bytes@[i])
                            ==> (#[trigger] ops@[i]).kind() is Invalid && ops@[i].byte_spec() == bytes@[i],    //@ob C10.dis.unassigned_is_invalid
                        forall|i: int| 0 <= i < ops@.len() ==> !(#[trigger] cls(bytes@, i) is Trunc),    //@ob C10.dis.truncated_push_is_invalid_bytes
//@proof loopstart #2
                    proof { broadcast use lemma_enc_all_push; assert(enc_all(ops@) + Seq::<u8>::empty() =~= enc_all(ops@)); }
//@loop 3 kind=for
            invariant
                remaining_push_bytes != 0, push_size != 0, push_bytes@.len() < bytes@.len(),
                ops@.len() + push_bytes@.len() == bytes@.len() + k,                                 //@ob C10.dis.index_is_offset
                push_bytes@ =~= bytes@.subrange(bytes@.len() - push_bytes@.len(), bytes@.len() as int),
                forall|i: int| bytes@.len() - push_bytes@.len() - 1 <= i < bytes@.len() ==> #[trigger] cls(bytes@, i) is Trunc,
                enc_all(ops@) =~= bytes@.subrange(0, ops@.len() as int),                            //@ob C10.dis.lossless
                forall|i: int| 0 <= i < ops@.len() && cls(bytes@, i) is Imm ==> (#[trigger] ops@[i]).kind() is Nop,      //@ob C10.dis.immediates_are_nop
                forall|i: int| 0 <= i < ops@.len() && (#[trigger] ops@[i]).kind() is JumpDest
                    ==> bytes@[i] == 0x5b && cls(bytes@, i) is Instr,                               //@ob C08.dis.jumpdest_is_boundary C10.dis.jumpdest_never_push_data
                forall|i: int| 0 <= i < ops@.len() && cls(bytes@, i) is Instr && !evm_assigned(bytes@[i])
                    ==> (#[trigger] ops@[i]).kind() is Invalid && ops@[i].byte_spec() == bytes@[i], //@ob C10.dis.unassigned_is_invalid
                forall|i: int| 0 <= i < ops@.len() && cls(bytes@, i) is Trunc
                    ==> (#[trigger] ops@[i]).kind() is Invalid && ops@[i].byte_spec() == bytes@[i], //@ob C10.dis.truncated_push_is_invalid_bytes
//@proof loopstart #3
            proof {
                broadcast use lemma_enc_all_push;
                assert(bytes@.subrange(0, ops@.len() as int + 1) =~= bytes@.subrange(0, ops@.len() as int).push(bytes@[ops@.len() as int]));
            }
//@proof afterloop #1
    proof {
        assert(bytes@.subrange(0, bytes@.len() as int) =~= bytes@);
        if ops@.len() < bytes@.len() {
            assert(bytes@.subrange(0, ops@.len() as int + 1) =~= bytes@.subrange(0, ops@.len() as int).push(bytes@[ops@.len() as int]));
        }
    }
//@end
}

// =============================== src/disassembly/mod.rs: the thin caller ====================================
use vstd::prelude::*;
use std::rc::Rc;
use crate::opcode::DynOpcode;
use crate::enc_all;
use crate::error::disassembly;

//@extract file=src/disassembly/mod.rs path="struct InstructionStream" kind=type
//@end
impl InstructionStream {
    pub closed spec fn ops(&self) -> Seq<DynOpcode> { (*self.instructions)@ }
}

// A-STD: `v.iter().flat_map(|opcode| opcode.encode()).collect()` is the concatenation, in order, of what each element's `encode`
// returns; `encode` returns `enc` (proved above for the default method and for PushN::encode) — hence `enc_all`.
#[verifier::external_body]
pub fn vx_flat_encode(v: &Rc<Vec<DynOpcode>>) -> (r: Vec<u8>)
    ensures r@ == enc_all((**v)@)
{ unimplemented!() }

// A-STD: `assert_eq!(a, b)` on byte slices panics iff they differ: the PRECONDITION is that they are equal (C01)
#[verifier::external_body]
pub fn vx_assert_eq_bytes(a: &[u8], b: &[u8])
    requires a@ == b@
{ assert_eq!(a, b); }

//@extract file=src/disassembly/mod.rs path="impl InstructionStream" kind=header
//@end
//@extract file=src/disassembly/mod.rs path="impl InstructionStream|fn as_bytecode" props=C10,C01 id=InstructionStream::as_bytecode
//@ret r
//@spec
        ensures r@ == enc_all(self.ops()),                                    //@ob C10.dis.stream.as_bytecode_is_the_encoding
// R-CALL: the iterator chain -> the A-STD stand-in
//@rw R-CALL
//@old
self.instructions.iter().flat_map(|opcode| opcode.encode()).collect()
//@new
vx_flat_encode(&self.instructions)
//@end
}

impl<'a> vstd::std_specs::convert::TryFromSpecImpl<&'a [u8]> for InstructionStream {
    open spec fn obeys_try_from_spec() -> bool { false }
    open spec fn try_from_spec(v: &'a [u8]) -> Result<Self, Self::Error> { arbitrary() }
}
//@extract file=src/disassembly/mod.rs path="impl<'a> TryFrom<&'a [u8]> for InstructionStream" kind=header
//@end
    type Error = disassembly::LocatedError;
//@extract file=src/disassembly/mod.rs path="impl<'a> TryFrom<&'a [u8]> for InstructionStream|fn try_from" props=C10,C01 id=InstructionStream::try_from_bytes
//@ret r
//@spec
        ensures
            value@.len() == 0 ==> r is Err,                                                     //@ob C10.dis.stream.empty_is_error
            0 < value@.len() <= u32::MAX ==> r is Ok,                                           //@ob C10.dis.stream.total
            r is Ok ==> r->Ok_0.ops().len() == value@.len(),                                    //@ob C10.dis.stream.index_is_offset
            r is Ok ==> enc_all(r->Ok_0.ops()) == value@,                                       //@ob C10.dis.stream.lossless
// R-CALL: `assert_eq!` -> the stand-in whose precondition is the panic condition (the sanity check can never fire: C01)
//@rw R-CALL optional
//@old
assert_eq!($1, $2);
//@new
vx_assert_eq_bytes($1, $2);
//@end
}
}

} // verus!
fn main() {}
