//@unit props=C20
// Unit hex — src/utility.rs: the hand-written serde adapter of U256Wrapper (the only repository-owned
// code in C20's slot-index sentence).  Both string codecs (`hex::encode`, `ethnum::U256::from_str_hex`)
// and serde itself are EXTERNAL: their contracts below are assumptions.  What is proved is that the
// adapter feeds big-endian bytes to the encoder, prefixes "0x", hands exactly that string to the
// serializer, parses with the matching hex parser, and that the two compose to the identity.
use vstd::prelude::*;
mod ext {
    #[derive(Clone, Copy, PartialEq, Eq)]
    pub struct U256(pub [u128; 2]);
    impl U256 {
        pub fn to_be_bytes(self) -> [u8; 32] { unimplemented!() }
        pub fn to_le_bytes(self) -> [u8; 32] { unimplemented!() }
        pub fn to_ne_bytes(self) -> [u8; 32] { unimplemented!() }
        pub fn from_str_hex(_s: &str) -> Result<U256, ParseIntError> { unimplemented!() }
        pub fn from_str_radix(_s: &str, _radix: u32) -> Result<U256, ParseIntError> { unimplemented!() }
        pub fn from_str_prefixed(_s: &str) -> Result<U256, ParseIntError> { unimplemented!() }
    }
    pub struct ParseIntError;
    pub mod hex {
        pub fn encode(_b: [u8; 32]) -> String { unimplemented!() }
        pub fn encode_upper(_b: [u8; 32]) -> String { unimplemented!() }
    }
    pub trait Serializer: Sized {
        type Ok;
        type Error;
        fn serialize_str(self, v: &str) -> Result<Self::Ok, Self::Error>;
    }
    pub trait Deserializer<'de>: Sized {
        type Error;
    }
    /// stands for `<String as serde::Deserialize>::deserialize(d)`
    pub fn deserialize_string<'de, D: Deserializer<'de>>(_d: D) -> Result<String, D::Error> { unimplemented!() }
    /// stands for `serde::de::Error::custom(e)`
    pub fn de_error_custom<'de, D: Deserializer<'de>>(_e: ParseIntError) -> D::Error { unimplemented!() }
    /// stands for `String::from(&str)`
    pub fn string_from(_s: &str) -> String { unimplemented!() }
}
use ext::{hex, ParseIntError, Serializer, Deserializer, U256};
verus! {

#[verifier::external_type_specification] #[verifier::external_body] pub struct ExU256(U256);
#[verifier::external_type_specification] #[verifier::external_body] pub struct ExPIE(ParseIntError);
#[verifier::external_trait_specification]
pub trait ExSerializer: Sized {
    type ExternalTraitSpecificationFor: Serializer;
    type Ok;
    type Error;
    // A-CALLEE (serde): the serializer is handed a string; `emitted` records which one
    fn serialize_str(self, v: &str) -> (r: Result<Self::Ok, Self::Error>)
        ensures emitted(self, v@, r);
}
#[verifier::external_trait_specification]
pub trait ExDeserializer<'de>: Sized {
    type ExternalTraitSpecificationFor: Deserializer<'de>;
    type Error;
}
pub uninterp spec fn emitted<S, O, E>(s: S, v: Seq<char>, r: Result<O, E>) -> bool;
/// the string a deserializer will yield (None: it fails)
pub uninterp spec fn yields<D>(d: D) -> Option<Seq<char>>;

pub uninterp spec fn u(x: U256) -> nat;
/// the 32 big-endian bytes of x
pub uninterp spec fn be(x: U256) -> Seq<u8>;
pub uninterp spec fn le(x: U256) -> Seq<u8>;
/// two lower-case hexadecimal digits per byte
pub uninterp spec fn hexstr(b: Seq<u8>) -> Seq<char>;
pub uninterp spec fn hexstr_upper(b: Seq<u8>) -> Seq<char>;

// A-ETHNUM / A-CALLEE (hex, ethnum, serde): assumed codec contracts
pub broadcast axiom fn be_len(x: U256) ensures #[trigger] be(x).len() == 32;
pub broadcast axiom fn hexstr_len(b: Seq<u8>) ensures #[trigger] hexstr(b).len() == 2 * b.len();
pub broadcast axiom fn be_injective(x: U256, y: U256) ensures (#[trigger] be(x) == #[trigger] be(y)) == (x == y);
pub assume_specification[ U256::to_be_bytes ](x: U256) -> (r: [u8; 32]) ensures r@ == be(x);
pub assume_specification[ U256::to_le_bytes ](x: U256) -> (r: [u8; 32]) ensures r@ == le(x);
pub assume_specification[ U256::to_ne_bytes ](x: U256) -> (r: [u8; 32]) ensures r@ == le(x);
pub assume_specification[ hex::encode ](b: [u8; 32]) -> (r: String) ensures r@ == hexstr(b@);
pub assume_specification[ hex::encode_upper ](b: [u8; 32]) -> (r: String) ensures r@ == hexstr_upper(b@);
pub assume_specification[ U256::from_str_hex ](s: &str) -> (r: Result<U256, ParseIntError>)
    ensures forall|x: U256| s@ == seq!['0', 'x'] + #[trigger] hexstr(be(x)) ==> r == Ok::<U256, ParseIntError>(x);
pub assume_specification[ U256::from_str_radix ](s: &str, radix: u32) -> (r: Result<U256, ParseIntError>)
    ensures radix == 16 ==> forall|x: U256| s@ == #[trigger] hexstr(be(x)) ==> r == Ok::<U256, ParseIntError>(x);   // no prefix accepted
pub assume_specification[ U256::from_str_prefixed ](s: &str) -> (r: Result<U256, ParseIntError>)
    ensures forall|x: U256| s@ == seq!['0', 'x'] + #[trigger] hexstr(be(x)) ==> r == Ok::<U256, ParseIntError>(x);
pub assume_specification<'de, D: Deserializer<'de>>[ ext::deserialize_string::<'de, D> ](d: D) -> (r: Result<String, D::Error>)
    ensures yields(d) is Some ==> r is Ok && r->Ok_0@ == yields(d)->Some_0, yields(d) is None ==> r is Err;
pub assume_specification<'de, D: Deserializer<'de>>[ ext::de_error_custom::<'de, D> ](e: ParseIntError) -> (r: D::Error);
pub assume_specification[ ext::string_from ](s: &str) -> (r: String) ensures r@ == s@;

// A-DERIVE: structural
#[derive(Clone, Copy)]
//@extract file=src/utility.rs path="struct U256Wrapper" kind=type
//@end

/// C20: "slot indices are written as 0x-prefixed 64-digit hexadecimal words"
pub open spec fn wire(x: U256) -> Seq<char> { seq!['0', 'x'] + hexstr(be(x)) }

// The two trait-impl methods are verified as inherent functions (serde's traits are external).
impl U256Wrapper {
//@extract file=src/utility.rs path="impl Serialize for U256Wrapper|fn serialize"
//@ret r
//@rw R-CALL
//@old
String::from($1)
//@new
ext::string_from($1)
//@spec
        ensures
            emitted(serializer, wire(self.0), r),           //@ob C20.hex.serialize.emits_0x_plus_64_be_hex_digits
//@proof entry
        proof { reveal_strlit("0x"); }
//@proof before "serializer.serialize_str"
        proof { assert(value@ =~= wire(self.0)); }    //@ob C20.hex.serialize.string_is_0x_plus_be_hex
//@end

//@extract file=src/utility.rs path="impl<'de> Deserialize<'de> for U256Wrapper|fn deserialize"
//@ret r
//@rw R-SIG
//@old
fn deserialize<D>(
//@new
fn deserialize<'de, D>(
//@rw R-CALL
//@old
Deserialize::deserialize(deserializer)?
//@new
ext::deserialize_string::<D>(deserializer)?
//@rw R-MAPERR
//@old
let u256 = $1.map_err(serde::de::Error::custom)?;
//@new
let u256 = match $1 { Ok(v) => v, Err(e) => return Err(ext::de_error_custom::<D>(e)) };
//@spec
        ensures
            forall|x: U256| yields(deserializer) == Some(#[trigger] wire(x)) ==> r is Ok && r->Ok_0.0 == x,     //@ob C20.hex.deserialize.reads_back_exactly
            yields(deserializer) is None ==> r is Err,                                                            //@ob C20.hex.deserialize.propagates_failure
//@end
}

/// round trip: what serialize hands to the serializer is read back as the same index, and is 66 characters
pub proof fn lemma_round_trip<D>(x: U256, d: D)
    ensures
        wire(x).len() == 66,                                                    //@ob C20.hex.lemma.wire_is_0x_plus_64_digits
        forall|y: U256| #[trigger] wire(y) == wire(x) ==> y == x,               //@ob C20.hex.lemma.wire_is_injective
{
    broadcast use be_len, hexstr_len, be_injective;
    assert forall|y: U256| #[trigger] wire(y) == wire(x) implies y == x by {
        assert(wire(y).subrange(2, 66) =~= hexstr(be(y)));
        assert(wire(x).subrange(2, 66) =~= hexstr(be(x)));
        hexstr_injective(be(y), be(x));
    }
}
// A-CALLEE (hex): distinct byte strings have distinct hex strings
pub axiom fn hexstr_injective(a: Seq<u8>, b: Seq<u8>) ensures (hexstr(a) == hexstr(b)) == (a == b);

//@dropped #[derive(Serialize, Deserialize)] on StorageSlot / AbiType / StructElement and serde_json itself (macro-generated and external); hex::encode, U256::from_str_hex, serde's String deserializer are ASSUMED codecs
} // verus!
fn main() {}
