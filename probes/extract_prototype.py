import re,sys
def strip_comments_keep_len(src):
    # blank out comments/strings for scanning (keep length)
    out=list(src); i=0; n=len(src)
    while i<n:
        c=src[i]
        if src.startswith('//',i):
            j=src.find('\n',i); j=n if j<0 else j
            for k in range(i,j): out[k]=' '
            i=j
        elif src.startswith('/*',i):
            j=src.find('*/',i)+2
            for k in range(i,j):
                if out[k]!='\n': out[k]=' '
            i=j
        elif c=='"':
            j=i+1
            while src[j]!='"':
                if src[j]=='\\': j+=1
                j+=1
            for k in range(i+1,j):
                if out[k]!='\n': out[k]=' '
            i=j+1
        elif c=="'":
            # char literal or lifetime
            m=re.match(r"'(\\.|[^\\'])'",src[i:i+4]) or re.match(r"'\\x[0-9a-fA-F]{2}'",src[i:i+7]) or re.match(r"'\\u\{[0-9a-fA-F]+\}'",src[i:i+12])
            if m:
                for k in range(i+1,i+len(m.group(0))-1): out[k]=' '
                i+=len(m.group(0))
            else: i+=1
        else: i+=1
    return ''.join(out)
def match_brace(scan,i):
    assert scan[i]=='{'
    d=0
    while True:
        if scan[i]=='{': d+=1
        elif scan[i]=='}':
            d-=1
            if d==0: return i
        i+=1
def find_item(src, header_re, start=0, end=None):
    """find item whose header matches regex; return (hdr_start, body_open, body_close)"""
    scan=strip_comments_keep_len(src)
    m=re.compile(header_re).search(scan,start, end if end else len(scan))
    if not m: raise SystemExit("LOST ANCHOR "+header_re)
    o=scan.find('{',m.end()-1)
    # ensure no ';' between
    c=match_brace(scan,o)
    return m.start(),o,c
def strip_docs(text):
    lines=[l for l in text.split('\n') if not re.match(r'\s*///',l) and not re.match(r'\s*#\[(must_use|allow\(|derive\(|derivative\()',l)]
    return '\n'.join(lines)
