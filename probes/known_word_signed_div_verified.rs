use vstd::prelude::*;
mod ethnum {
    #[derive(Clone, Copy, PartialEq, Eq)]
    pub struct U256(pub [u128; 2]);
    #[derive(Clone, Copy, PartialEq, Eq)]
    pub struct I256(pub [i128; 2]);
    impl U256 {
        pub fn wrapping_div(self, _r: U256) -> U256 { unimplemented!() }
        pub fn wrapping_add(self, _r: U256) -> U256 { unimplemented!() }
        pub fn wrapping_pow(self, _e: u32) -> U256 { unimplemented!() }
        pub fn as_u32(self) -> u32 { unimplemented!() }
        pub fn to_ne_bytes(self) -> [u8; 32] { unimplemented!() }
        pub fn from_ne_bytes(_b: [u8; 32]) -> U256 { unimplemented!() }
    }
    impl I256 {
        pub fn new(_v: i128) -> I256 { unimplemented!() }
        pub fn wrapping_div(self, _r: I256) -> I256 { unimplemented!() }
        pub fn to_ne_bytes(self) -> [u8; 32] { unimplemented!() }
        pub fn from_ne_bytes(_b: [u8; 32]) -> I256 { unimplemented!() }
    }
    impl core::ops::Shl<U256> for U256 { type Output = U256; fn shl(self, _r: U256) -> U256 { unimplemented!() } }
    impl From<u8> for U256 { fn from(_v: u8) -> U256 { unimplemented!() } }
}
use ethnum::{U256, I256};

verus! {

#[verifier::external_type_specification]
#[verifier::external_body]
pub struct ExU256(U256);
#[verifier::external_type_specification]
#[verifier::external_body]
pub struct ExI256(I256);

pub uninterp spec fn u(x: U256) -> nat;
pub uninterp spec fn s(x: I256) -> int;
pub uninterp spec fn bytes_u(b: [u8; 32]) -> nat;
pub open spec fn M() -> nat { 0x1_0000000000000000_0000000000000000_0000000000000000_0000000000000000nat }
pub open spec fn to_signed(x: nat) -> int { if x < M() / 2 { x as int } else { x as int - M() as int } }
pub open spec fn to_unsigned(x: int) -> nat { (x % (M() as int)) as nat }

pub broadcast axiom fn u_range(x: U256) ensures #[trigger] u(x) < M();
pub axiom fn u_inj(x: U256, y: U256) ensures (u(x) == u(y)) == (x == y);

pub assume_specification[ U256::wrapping_div ](a: U256, b: U256) -> (r: U256)
    requires u(b) != 0,
    ensures u(r) == u(a) / u(b);
pub assume_specification[ U256::wrapping_add ](a: U256, b: U256) -> (r: U256)
    ensures u(r) == (u(a) + u(b)) % M();
pub assume_specification[ U256::to_ne_bytes ](a: U256) -> (r: [u8; 32])
    ensures bytes_u(r) == u(a);
pub assume_specification[ U256::from_ne_bytes ](b: [u8; 32]) -> (r: U256)
    ensures u(r) == bytes_u(b) % M();
pub assume_specification[ I256::to_ne_bytes ](a: I256) -> (r: [u8; 32])
    ensures bytes_u(r) == to_unsigned(s(a));
pub assume_specification[ I256::from_ne_bytes ](b: [u8; 32]) -> (r: I256)
    ensures s(r) == to_signed(bytes_u(b) % M());
pub assume_specification[ I256::new ](v: i128) -> (r: I256)
    ensures s(r) == v as int;
pub assume_specification[ I256::wrapping_div ](a: I256, b: I256) -> (r: I256)
    requires s(b) != 0,
    ensures s(r) == to_signed(to_unsigned(evm_tdiv(s(a), s(b))));
pub uninterp spec fn shl_val(a: U256, b: U256) -> U256;
pub broadcast axiom fn shl_val_def(a: U256, b: U256) requires u(b) < 256 ensures u(#[trigger] shl_val(a, b)) == (u(a) * pow2(u(b))) % M();
impl vstd::std_specs::ops::ShlSpecImpl<U256> for U256 {
    open spec fn obeys_shl_spec() -> bool { true }
    open spec fn shl_req(self, rhs: U256) -> bool { u(rhs) < 256 }
    open spec fn shl_spec(self, rhs: U256) -> U256 { shl_val(self, rhs) }
}
pub assume_specification[ <U256 as core::ops::Shl<U256>>::shl ](a: U256, b: U256) -> (r: U256);
pub assume_specification[ <I256 as core::cmp::PartialEq>::eq ](a: &I256, b: &I256) -> (r: bool)
    ensures r == (s(*a) == s(*b));

pub open spec fn evm_tdiv(a: int, b: int) -> int {
    if b == 0 { 0 } else if (a >= 0) == (b > 0) || a == 0 { abs(a) / abs(b) } else { -(abs(a) / abs(b)) }
}
pub open spec fn abs(a: int) -> int { if a < 0 { -a } else { a } }
pub open spec fn pow2(e: nat) -> nat decreases e { if e == 0 { 1 } else { 2 * pow2((e - 1) as nat) } }

pub proof fn lemma_signed_roundtrip()
    ensures forall|y: nat| y < M() ==> #[trigger] to_unsigned(to_signed(y)) == y,
            forall|y: nat| y < M() ==> (#[trigger] to_signed(y) == 0) == (y == 0),
{
    assert forall|y: nat| y < M() implies #[trigger] to_unsigned(to_signed(y)) == y by {
        if y < M() / 2 { assert((y as int) % (M() as int) == y) by(nonlinear_arith) requires 0 <= y < M(); }
        else { assert((y as int - M() as int) % (M() as int) == y) by(nonlinear_arith) requires M()/2 <= y < M(), M() > 0; }
    }
}
pub struct KnownWord {
    value: U256,
}

impl KnownWord {
    pub closed spec fn v(self) -> nat { u(self.value) }

    pub fn from_le(value: U256) -> (r: Self) ensures r.v() == u(value) {
        Self { value }
    }

    pub fn signed_div(self, rhs: Self) -> (r: Self)
        ensures r.v() == to_unsigned(evm_tdiv(to_signed(self.v()), to_signed(rhs.v()))),
    {
        proof {
            broadcast use u_range;
            lemma_signed_roundtrip();
        }
        // In order to get signed behaviour we reinterpret the byte patterns into I256
        // before performing the operation using `{to,from}_ne_bytes`
        let left_signed = I256::from_ne_bytes(self.value.to_ne_bytes());
        let right_signed = I256::from_ne_bytes(rhs.value.to_ne_bytes());

        let zero = I256::new(0);
        let result = if right_signed == zero {
            zero
        } else {
            left_signed.wrapping_div(right_signed)
        };

        // To convert it back internally we need to perform direct conversion of the
        // byte pattern, using native endianness
        KnownWord::from_le(U256::from_ne_bytes(result.to_ne_bytes()))
    }

    pub fn shl(self, rhs: KnownWord) -> (r: KnownWord)
        ensures r.v() == if rhs.v() >= 256 { 0 } else { (self.v() * pow2(rhs.v())) % M() }
    {
        KnownWord::from_le(self.value << rhs.value)
    }
}

}
fn main() {}
