use vstd::prelude::*;
use std::collections::HashMap;
verus! {
pub struct VisitedOpcodes {
    instructions_len: u32,
    maximum_iterations_per_opcode: usize,
    data: HashMap<u32, usize>,
}
pub enum Error { InstructionPointerOutOfBounds { requested: usize, available: usize } }
impl VisitedOpcodes {
    pub closed spec fn count(&self, ip: u32) -> nat { if self.data@.contains_key(ip) { self.data@[ip] as nat } else { 0 } }
    pub closed spec fn max(&self) -> nat { self.maximum_iterations_per_opcode as nat }
    pub closed spec fn len(&self) -> u32 { self.instructions_len }

    pub fn mark_visited(&mut self, instruction_pointer: u32) -> (r: Result<(), Error>)
        ensures
            instruction_pointer < old(self).len() ==> r is Ok && final(self).count(instruction_pointer) == (if old(self).count(instruction_pointer) == usize::MAX { usize::MAX as nat } else { old(self).count(instruction_pointer) + 1 })
                && forall|o: u32| o != instruction_pointer ==> final(self).count(o) == old(self).count(o),
            final(self).max() == old(self).max(), final(self).len() == old(self).len(),
    {
        if instruction_pointer < self.instructions_len {
            // R-ENTRY rewrite of: self.data.entry(ip).and_modify(|count| *count = count.saturating_add(1)).or_insert(1);
            match self.data.get(&instruction_pointer) {
                Some(count) => { let c = *count; self.data.insert(instruction_pointer, c.saturating_add(1)); }
                None => { self.data.insert(instruction_pointer, 1); }
            }
            Ok(())
        } else {
            Err(Error::InstructionPointerOutOfBounds {
                requested: instruction_pointer as usize,
                available: self.instructions_len as usize,
            })
        }
    }

    pub fn at_visit_limit(&self, instruction_pointer: u32) -> (r: Result<bool, Error>)
        ensures instruction_pointer < self.len() ==> r == Ok::<bool, Error>(self.count(instruction_pointer) >= self.max())
    {
        if instruction_pointer < self.instructions_len {
            Ok(self.data.get(&instruction_pointer).unwrap_or(&0)
                >= &self.maximum_iterations_per_opcode)
        } else {
            Err(Error::InstructionPointerOutOfBounds {
                requested: instruction_pointer as usize,
                available: self.instructions_len as usize,
            })
        }
    }
}
}
fn main() {}
