use vstd::prelude::*;
use std::sync::Arc;
use core::ops::Range;
verus! {
pub struct KnownWord { v: u128 }
pub enum RSVD { KnownData { value: KnownWord }, Concat { values: Vec<Arc<RSV>> }, Other }
pub struct RSV { data: RSVD }
pub type RuntimeBoxedVal = Arc<RSV>;
impl RSV {
    #[verifier::external_body] pub fn constant_fold(&self) -> Arc<RSV> { unimplemented!() }
    #[verifier::external_body] pub fn data(&self) -> &RSVD { unimplemented!() }
    #[verifier::external_body] pub fn new_concat(ip: u32, values: Vec<RuntimeBoxedVal>) -> RuntimeBoxedVal { unimplemented!() }
}
#[verifier::external_body] pub fn word_to_usize(w: &KnownWord) -> usize { unimplemented!() }
pub struct Memory { max_single_operation_bytes: usize }
#[verifier::external_body] fn opaque_for_step_by(r: Range<usize>, step: usize, m: &mut Memory, values: &mut Vec<RuntimeBoxedVal>) { unimplemented!() }
#[verifier::external_body] fn get_or_initialize_const(m: &mut Memory, k: usize) -> RuntimeBoxedVal { unimplemented!() }
#[verifier::external_body] fn get_or_initialize_sym(m: &mut Memory, k: &RuntimeBoxedVal) -> RuntimeBoxedVal { unimplemented!() }
#[verifier::external_body] fn decompose_size(size: &RuntimeBoxedVal) -> Option<usize> { unimplemented!() }

impl Memory {
    pub fn load_slice(
        &mut self,
        offset: &RuntimeBoxedVal,
        size: &RuntimeBoxedVal,
        instruction_pointer: u32,
    ) -> RuntimeBoxedVal {
        let offset = offset.constant_fold();
        match offset.data() {
            RSVD::KnownData { value } => match decompose_size(size) {
                Some(size) => {
                    let offset: usize = word_to_usize(value);
                    let mut values = vec![];
                    let bounded_size = size.min(self.max_single_operation_bytes);

                    // Step by 32 bytes at once as each "write" happens at 32-byte alignment
                    opaque_for_step_by((offset..offset + bounded_size), 32, self, &mut values);

                    RSV::new_concat(instruction_pointer, values)
                }
                None => {
                    get_or_initialize_const(self, word_to_usize(value))
                }
            },
            _ => {
                get_or_initialize_sym(self, &offset)
            }
        }
    }
}
}
fn main() {}
