#[cfg(kani)]
mod proofs {
    use storage_layout_extractor::vm::value::known::KnownWord;
    use ethnum::U256;

    fn any_word() -> KnownWord {
        let hi: u128 = kani::any();
        let lo: u128 = kani::any();
        KnownWord::from_le(U256::from_words(hi, lo))
    }

    #[kani::proof]
    fn add_wraps() {
        let a = any_word();
        let b = any_word();
        let r = a + b;
        let (ah, al) = a.value_le().into_words();
        let (bh, bl) = b.value_le().into_words();
        let (lo, c) = al.overflowing_add(bl);
        let hi = ah.wrapping_add(bh).wrapping_add(c as u128);
        assert!(r.value_le() == U256::from_words(hi, lo));
    }

    #[kani::proof]
    fn shl_no_panic() {
        let a = any_word();
        let b = any_word();
        let _ = a << b;
    }
}
#[cfg(kani)]
mod proofs6 {
    use storage_layout_extractor::{layout::StorageLayout, tc::abi::AbiType, utility::U256Wrapper};
    use ethnum::U256;

    fn any_ix() -> U256Wrapper { U256Wrapper(U256::from_words(kani::any(), kani::any())) }

    #[kani::proof]
    #[kani::unwind(6)]
    fn layout_sorted_3() {
        let mut l = StorageLayout::default();
        l.add(any_ix(), kani::any::<u8>() as usize, AbiType::Any);
        l.add(any_ix(), kani::any::<u8>() as usize, AbiType::Any);
        l.add(any_ix(), kani::any::<u8>() as usize, AbiType::Any);
        let s = l.slots();
        assert!(s.len() == 3);
        assert!((s[0].index, s[0].offset) <= (s[1].index, s[1].offset));
        assert!((s[1].index, s[1].offset) <= (s[2].index, s[2].offset));
        std::mem::forget(l);
    }
}
