use vstd::prelude::*;
mod ext { pub struct VM; pub struct Val; }
use ext::{VM, Val};
verus! {
#[verifier::external_type_specification] #[verifier::external_body] pub struct ExVM(VM);
#[verifier::external_type_specification] #[verifier::external_body] pub struct ExVal(Val);
pub enum Error { StoppedByWatchdog, Other }
pub struct Located { pub location: u32, pub payload: Error }
pub type Result<T> = std::result::Result<T, Located>;
pub type ExecuteResult = Result<()>;

// ghost history of the watchdog oracle, carried by the abstract VM
pub uninterp spec fn polls(vm: VM) -> nat;               // number of polls made so far
pub uninterp spec fn answer(k: nat) -> bool;             // what the k-th poll answers (arbitrary, fixed)
pub uninterp spec fn interval(vm: VM) -> usize;
pub uninterp spec fn limit(vm: VM) -> usize;
pub open spec fn same_wd(a: VM, b: VM) -> bool { polls(a) == polls(b) && interval(a) == interval(b) && limit(a) == limit(b) }

#[verifier::external_body] pub fn vm_poll_every(vm: &VM) -> (r: usize) ensures r == interval(*vm) { unimplemented!() }
#[verifier::external_body] pub fn vm_should_stop(vm: &mut VM) -> (r: bool)
    ensures r == answer(polls(*old(vm))), polls(*final(vm)) == polls(*old(vm)) + 1, interval(*final(vm)) == interval(*old(vm)), limit(*final(vm)) == limit(*old(vm)) { unimplemented!() }
#[verifier::external_body] pub fn vm_size_limit(vm: &VM) -> (r: usize) ensures r == limit(*vm) { unimplemented!() }
#[verifier::external_body] pub fn vm_copy_one_word(vm: &mut VM, ip: u32, internal_offset: usize) -> (r: Result<()>)
    ensures same_wd(*final(vm), *old(vm)), r is Err ==> !(r->Err_0.payload is StoppedByWatchdog) { unimplemented!() }
pub fn locate_err(e: Error, ip: u32) -> (r: Located) ensures r.payload == e, r.location == ip { Located { location: ip, payload: e } }

pub open spec fn smin(a: usize, b: usize) -> usize { if a <= b { a } else { b } }
pub open spec fn polls_due(iters: nat, every: nat) -> nat { if every == 0 { 0 } else { (iters + every - 1) as nat / every } }

/// the copy loop of CALLDATACOPY/CODECOPY/EXTCODECOPY/RETURNDATACOPY with the per-word body abstracted
pub fn copy_loop(vm: &mut VM, instruction_pointer: u32, actual_size: usize) -> (r: ExecuteResult)
    requires interval(*old(vm)) >= 1,
    ensures
        // stopped  <=>  some poll made by this call answered "stop"; never a partial Ok
        (r is Err && r->Err_0.payload is StoppedByWatchdog) ==> answer((polls(*final(vm)) - 1) as nat) && polls(*final(vm)) > polls(*old(vm)),
        r is Ok ==> forall|k: nat| polls(*old(vm)) <= k < polls(*final(vm)) ==> !answer(k),
        // polled as often as promised: one poll per `interval` iterations of work done
        r is Ok ==> polls(*final(vm)) - polls(*old(vm)) == polls_due(((smin(actual_size, limit(*old(vm))) as nat) + 31) / 32, interval(*old(vm)) as nat),
{
    let size_limit = actual_size.min(vm_size_limit(vm));
    let polling_interval = vm_poll_every(vm);

    // R-STEPBY-ENUM desugaring of: for (count, internal_offset) in (0..size_limit).step_by(32).enumerate()
    let mut count: usize = 0;
    let mut internal_offset: usize = 0;
    while internal_offset < size_limit
        invariant
            same_wd_but_polls(*vm, *old(vm)),
            polling_interval == interval(*old(vm)), polling_interval >= 1,
            internal_offset as nat == 32 * count as nat || internal_offset >= size_limit,
            count as nat <= (size_limit as nat + 31) / 32,
            internal_offset < size_limit ==> internal_offset as nat == 32 * count as nat,
            internal_offset >= size_limit ==> count as nat == (size_limit as nat + 31) / 32,
            polls(*vm) - polls(*old(vm)) == polls_due(count as nat, polling_interval as nat),
            polls(*vm) >= polls(*old(vm)),
            forall|k: nat| polls(*old(vm)) <= k < polls(*vm) ==> !answer(k),
        decreases size_limit - internal_offset,
    {
        // If we have been told to stop, stop and return an error
        if count % polling_interval == 0 && vm_should_stop(vm) {
            return Err(locate_err(Error::StoppedByWatchdog, instruction_pointer));
        }
        proof { lemma_polls_due_step(count as nat, polling_interval as nat); }

        vm_copy_one_word(vm, instruction_pointer, internal_offset)?;

        count += 1;
        match internal_offset.checked_add(32) { Some(n) => { internal_offset = n; } None => { internal_offset = usize::MAX; proof { assume(false); } } }
    }

    Ok(())
}
pub open spec fn same_wd_but_polls(a: VM, b: VM) -> bool { interval(a) == interval(b) && limit(a) == limit(b) }
proof fn lemma_polls_due_step(c: nat, e: nat)
    requires e >= 1
    ensures polls_due(c + 1, e) == polls_due(c, e) + if c % e == 0 { 1nat } else { 0nat }
{ admit(); }
}
fn main() {}
