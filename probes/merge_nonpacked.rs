use vstd::prelude::*;
mod ext {
    #[derive(Clone, Copy, PartialEq, Eq)]
    pub struct U256(pub [u128;2]);
    pub struct TypeCheckerState;
}
use ext::{U256, TypeCheckerState};
verus! {
#[verifier::external_type_specification]
#[verifier::external_body]
pub struct ExU256(U256);
#[verifier::external_type_specification]
#[verifier::external_body]
pub struct ExTCS(TypeCheckerState);
pub assume_specification[ <U256 as core::cmp::PartialEq>::eq ](a: &U256, b: &U256) -> (r: bool) ensures r == (*a == *b);
pub type TE = TypeExpression;
pub uninterp spec fn te_eq(a: TypeExpression, b: TypeExpression) -> bool;
impl PartialEq for TypeExpression {
    #[verifier::external_body]
    fn eq(&self, other: &Self) -> (r: bool) ensures r == te_eq(*self, *other) { unimplemented!() }
}
impl Clone for TypeExpression {
    #[verifier::external_body]
    fn clone(&self) -> (r: Self) ensures r == *self { unimplemented!() }
}

#[derive(Copy, Clone, Eq, PartialEq, Structural)]
pub struct TypeVariable { id: usize }
pub enum TypeExpression {
    Any,

    Equal { id: TypeVariable },

    Word {
        width: Option<usize>,

        usage: WordUse,
    },

    Bytes,

    FixedArray { element: TypeVariable, length: U256 },

    Mapping { key: TypeVariable, value: TypeVariable },

    DynamicArray { element: TypeVariable },

    Packed { types: Vec<Span>, is_struct: bool },

    Conflict { conflicts: Vec<Box<TypeExpression>>, reasons: Vec<String> },
}
#[derive(Copy, Clone, Eq, PartialEq, Structural)]
pub struct Span {
    pub typ: TypeVariable,

    pub offset: usize,

    pub size: usize,
}
#[derive(Copy, Clone, Eq, PartialEq, Structural)]
pub enum WordUse {
    Bytes,

    Numeric,

    UnsignedNumeric,

    SignedNumeric,

    Bool,

    Address,

    Selector,

    Function,
}
impl WordUse {
pub fn merge(self, other: Self) -> Option<Self> {
        if self == other {
            return Some(self);
        }

        Some(match (self, other) {
            // Data can always be merged with anything that is more specific.
            (Self::Bytes, other) | (other, Self::Bytes) => other,

            // Merge the numeric options
            (Self::Numeric, Self::UnsignedNumeric) | (Self::UnsignedNumeric, Self::Numeric) => {
                Self::UnsignedNumeric
            }
            (Self::Numeric, Self::SignedNumeric) | (Self::SignedNumeric, Self::Numeric) => {
                Self::SignedNumeric
            }

            // Addresses are often used numerically
            (Self::Numeric, Self::Address) | (Self::Address, Self::Numeric) => Self::Address,
            (Self::UnsignedNumeric, Self::Address) | (Self::Address, Self::UnsignedNumeric) => {
                Self::Address
            }

            _ => return None,
        })
    }
pub fn is_definitely_signed(&self) -> bool {
        matches!(self, Self::SignedNumeric)
    }
}
impl TypeExpression {
pub fn word(width: Option<usize>, usage: WordUse) -> Self {
        Self::Word { width, usage }
    }
    #[verifier::external_body]
    pub fn conflict(left: Self, right: Self, reason: &str) -> (r: Self) ensures r is Conflict { unimplemented!() }
    #[verifier::external_body]
    pub fn conflict_with(self, other: Self, reason: &str) -> (r: Self) ensures r is Conflict { unimplemented!() }
}
pub struct Merge {
    pub expression: TypeExpression,

    pub equalities: Vec<Equality>,

    pub judgements: Vec<Judgement>,

    pub ty_vars: Vec<TypeVariable>,
}
impl Merge {
    pub fn new(
        expression: TypeExpression,
        equalities: Vec<Equality>,
        judgements: Vec<Judgement>,
        ty_vars: Vec<TypeVariable>,
    ) -> Self {
        Self {
            expression,
            equalities,
            judgements,
            ty_vars,
        }
    }

    pub fn expression(expression: TypeExpression) -> Self {
        let equalities = Vec::new();
        let judgements = Vec::new();
        let ty_vars = Vec::new();
        Self::new(expression, equalities, judgements, ty_vars)
    }

    pub fn equalities(expression: TypeExpression, equalities: Vec<Equality>) -> Self {
        let judgements = Vec::new();
        let ty_vars = Vec::new();
        Self::new(expression, equalities, judgements, ty_vars)
    }

    pub fn judgements(expression: TypeExpression, judgements: Vec<Judgement>) -> Self {
        let equalities = Vec::new();
        let ty_vars = Vec::new();
        Self::new(expression, equalities, judgements, ty_vars)
    }
}
#[derive(Copy, Clone, Eq, PartialEq, Structural)]
pub struct Equality {
    pub left:  TypeVariable,
    pub right: TypeVariable,
}
impl Equality {
    pub fn new(left: TypeVariable, right: TypeVariable) -> Self {
        Self { left, right }
    }
}
pub struct Judgement {
    pub tv: TypeVariable,

    pub expr: TypeExpression,
}
impl Judgement {
    pub fn new(tv: TypeVariable, expr: TypeExpression) -> Self {
        Self { tv, expr }
    }
}

#[verifier::external_body]
fn opaque_packed_arm(left: TE, right: TE, parent_tv: TypeVariable, state: &mut TypeCheckerState) -> Merge { unimplemented!() }
#[verifier::external_body]
fn equal_is_precondition_violation() -> Merge requires false { unimplemented!() }
pub open spec fn flips(l: TE, r: TE) -> nat { if l is Word && (r is Bytes || r is DynamicArray) { 1 } else { 0 } }
pub fn merge(left: TE, right: TE, parent_tv: TypeVariable, state: &mut TypeCheckerState) -> (m: Merge)
    requires !(left is Equal), !(right is Equal),
    ensures
        (left is Any && !te_eq(left, right)) ==> m.expression == right,
        (left is Mapping && right is Mapping && !te_eq(left, right)) ==> m.expression == left && m.equalities@.len() == 2
            && m.equalities@[0] == (Equality { left: left->key, right: right->key })
            && m.equalities@[1] == (Equality { left: left->Mapping_value, right: right->Mapping_value }),
        (left is DynamicArray && right is Word && !te_eq(left, right)) ==> (m.expression == left || m.expression is Conflict),
    decreases flips(left, right),
{
    // If they are equal there's no combining to do
    if left == right {
        return Merge::expression(left);
    }

    match (&left, &right) {
        // If equalities exist here we have an actual error as it indicates a likely bug in the
        // unifier
        (TE::Equal { .. }, _) => equal_is_precondition_violation(),
        (_, TE::Equal { .. }) => equal_is_precondition_violation(),

        // Combining a conflict with anything is another conflict that propagates information
        (TE::Conflict { .. }, _) => {
            Merge::expression(left.conflict_with(right, "Conflicts always conflict"))
        }
        (_, TE::Conflict { .. }) => {
            Merge::expression(right.conflict_with(left, "Conflicts always conflict"))
        }

        // Combining words with words is complex
        (
            TE::Word {
                width: width_l,
                usage: usage_l,
            },
            TE::Word {
                width: width_r,
                usage: usage_r,
            },
        ) => {
            // `and_then` and `map` don't work with Result, so we get this monstrosity
            let width = match (width_l, width_r) {
                (Some(l), Some(r)) if l == r => Some(*l),
                (Some(_), Some(_)) => {
                    return Merge::expression(TE::conflict(
                        left,
                        right,
                        "Disagreeing numeric widths",
                    ));
                }
                (Some(l), _) => Some(*l),
                (_, Some(r)) => Some(*r),
                (None, None) => None,
            };

            // We need to merge the usages
            let Some(usage) = usage_l.merge(*usage_r) else {
                return Merge::expression(TE::conflict(left, right, "Conflicting word usages"));
            };

            Merge::expression(TE::word(width, usage))
        }

        // To combine bytes with words we delegate
        (TE::Word { .. }, TE::Bytes) => merge(right, left, parent_tv, state),

        // They actually combine to be bytes as long as the word is not signed
        (TE::Bytes, TE::Word { usage, .. }) if !usage.is_definitely_signed() => {
            Merge::expression(TE::Bytes)
        }

        // Bytes are just a kind of dynamic array
        (TE::DynamicArray { .. }, TE::Bytes) | (TE::Bytes, TE::DynamicArray { .. }) => {
            Merge::expression(TE::Bytes)
        }

        // To combine a dynamic array with a packed we delegate
        (TE::DynamicArray { .. } | TE::Bytes, TE::Packed { .. }) => opaque_packed_arm(left, right, parent_tv, state),

        // They produce bytes when certain conditions are satisfied
        (TE::Packed { types, .. }, TE::DynamicArray { .. } | TE::Bytes) => opaque_packed_arm(left, right, parent_tv, state),

        // To combine a word with a dynamic array we delegate
        (TE::Word { .. }, TE::DynamicArray { .. }) => merge(right, left, parent_tv, state),

        // They produce a dynamic array as long as the word is not signed
        (TE::DynamicArray { .. }, TE::Word { usage, .. }) => {
            Merge::expression(if usage.is_definitely_signed() {
                TE::conflict(left, right, "Dynamic arrays cannot have signed length")
            } else {
                left
            })
        }

        // Dynamic arrays can combine with dynamic arrays
        (TE::DynamicArray { element: element_l }, TE::DynamicArray { element: element_r }) => {
            let equalities = vec![Equality::new(*element_l, *element_r)];
            Merge::equalities(left, equalities)
        }

        // Fixed arrays can combine with fixed arrays
        (
            TE::FixedArray {
                element: element_l,
                length: length_l,
            },
            TE::FixedArray {
                element: element_r,
                length: length_r,
            },
        ) => {
            if length_l == length_r {
                let equalities = vec![Equality::new(*element_l, *element_r)];
                Merge::equalities(left, equalities)
            } else {
                Merge::expression(TE::conflict(
                    left,
                    right,
                    "Fixed arrays have different lengths",
                ))
            }
        }

        // Mappings can combine with mappings
        (
            TE::Mapping {
                key: key_l,
                value: value_l,
            },
            TE::Mapping {
                key: key_r,
                value: value_r,
            },
        ) => {
            // If we get here, the `key_l` and `key_r`, and `value_l` and `value_r` types
            // were compatible and their inferences have been updated
            let equalities = vec![
                Equality::new(*key_l, *key_r),
                Equality::new(*value_l, *value_r),
            ];
            Merge::equalities(left, equalities)
        }

        // Packed encodings can combine with packed encodings
        (
            TE::Packed {
                types: types_l,
                is_struct: is_struct_l,
            },
            TE::Packed {
                types: types_r,
                is_struct: is_struct_r,
            },
        ) => opaque_packed_arm(left, right, parent_tv, state),

        // Packed encodings can also combine with words
        (TE::Word { .. }, TE::Packed { .. }) => opaque_packed_arm(left, right, parent_tv, state),
        (TE::Packed { types, .. }, TE::Word { width, usage }) => opaque_packed_arm(left, right, parent_tv, state),

        // Everything can combine with `Any` to produce itself, as Any doesn't add information, so
        // only collapses to `Any` when combined with itself
        (_, TE::Any) => Merge::expression(left),
        (TE::Any, _) => Merge::expression(right),

        // Nothing else can combine and be valid, so we return a typing conflict
        _ => Merge::expression(TE::conflict(left, right, "Incompatible inferences")),
    }
}
}
fn main() {}
