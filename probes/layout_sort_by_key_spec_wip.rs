use vstd::prelude::*;
mod ext {
#[derive(Clone, Copy, PartialEq, Eq, PartialOrd, Ord)]
pub struct U256Wrapper(pub u128, pub u128);
}
use ext::U256Wrapper;
verus! {
#[verifier::external_type_specification]
pub struct ExW(U256Wrapper);

pub struct AbiType;
pub struct StorageSlot {
    pub index: U256Wrapper,
    pub offset: usize,
    pub typ: AbiType,
}
pub struct StorageLayout {
    slots: Vec<StorageSlot>,
}
pub open spec fn key_le(a: StorageSlot, b: StorageSlot) -> bool {
    a.index.0 < b.index.0 || (a.index.0 == b.index.0 && (a.index.1 < b.index.1 || (a.index.1 == b.index.1 && a.offset <= b.offset)))
}
pub open spec fn sorted(s: Seq<StorageSlot>) -> bool { forall|i: int, j: int| 0 <= i < j < s.len() ==> key_le(s[i], s[j]) }

pub uninterp spec fn key_le_gen<T>(a: T, b: T) -> bool;
pub assume_specification<T, K, F> [<[T]>::sort_by_key] (s: &mut [T], f: F)
    where F: FnMut(&T,) -> K, K: core::cmp::Ord,
    ensures
        final(s)@.to_multiset() == old(s)@.to_multiset(),
        forall|i: int, j: int| 0 <= i < j < final(s)@.len() ==> forall|ki: K, kj: K| f.ensures((&final(s)@[i],), ki) && f.ensures((&final(s)@[j],), kj) ==> #[trigger] ord_le(ki, kj);
pub uninterp spec fn ord_le<K>(a: K, b: K) -> bool;
#[verifier::external_body]
fn sort_slots_by_key(v: &mut Vec<StorageSlot>)
    ensures sorted(final(v)@), final(v)@.to_multiset() == old(v)@.to_multiset()
{ v.sort_by_key(|s| (s.index.0, s.index.1, s.offset)); }

impl StorageLayout {
    pub closed spec fn view(&self) -> Seq<StorageSlot> { self.slots@ }
    pub fn add(&mut self, index: U256Wrapper, offset: usize, typ: AbiType)
        ensures sorted(final(self)@), final(self)@.to_multiset() == old(self)@.to_multiset().insert(StorageSlot { index, offset, typ })
    {
        let slot = StorageSlot { index, offset, typ };
        self.slots.push(slot);

        // Keep them sorted by slot index with ties broken by the offset within the
        // slot.
        self.slots.sort_by_key(|s| (s.index, s.offset));
    }
}
}
fn main() {}
