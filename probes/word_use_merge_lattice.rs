use vstd::prelude::*;
verus! {
#[derive(Copy, Clone, Debug, Eq, Hash, PartialEq, Structural)]
pub enum WordUse {
    Bytes,
    Numeric,
    UnsignedNumeric,
    SignedNumeric,
    Bool,
    Address,
    Selector,
    Function,
}

impl WordUse {
    pub fn merge(self, other: Self) -> (r: Option<Self>)
        ensures r == spec_merge(self, other)
    {
        if self == other {
            return Some(self);
        }

        Some(match (self, other) {
            // Data can always be merged with anything that is more specific.
            (Self::Bytes, other) | (other, Self::Bytes) => other,

            // Merge the numeric options
            (Self::Numeric, Self::UnsignedNumeric) | (Self::UnsignedNumeric, Self::Numeric) => {
                Self::UnsignedNumeric
            }
            (Self::Numeric, Self::SignedNumeric) | (Self::SignedNumeric, Self::Numeric) => {
                Self::SignedNumeric
            }

            // Addresses are often used numerically
            (Self::Numeric, Self::Address) | (Self::Address, Self::Numeric) => Self::Address,
            (Self::UnsignedNumeric, Self::Address) | (Self::Address, Self::UnsignedNumeric) => {
                Self::Address
            }

            _ => return None,
        })
    }
}

pub open spec fn rank(u: WordUse) -> int { match u { WordUse::Bytes => 0, WordUse::Numeric => 1, WordUse::UnsignedNumeric => 2, _ => 3 } }
// join in the usage lattice: Bytes < Numeric < {Unsigned < Address, Signed}; Bool, Selector, Function only above Bytes
pub open spec fn leq(a: WordUse, b: WordUse) -> bool {
    a == b || a == WordUse::Bytes
    || (a == WordUse::Numeric && (b == WordUse::UnsignedNumeric || b == WordUse::SignedNumeric || b == WordUse::Address))
    || (a == WordUse::UnsignedNumeric && b == WordUse::Address)
}
pub open spec fn spec_merge(a: WordUse, b: WordUse) -> Option<WordUse> {
    if leq(a, b) { Some(b) } else if leq(b, a) { Some(a) } else { None }
}
pub open spec fn lift(a: Option<WordUse>, b: WordUse) -> Option<WordUse> { match a { Some(x) => spec_merge(x, b), None => None } }
proof fn laws(a: WordUse, b: WordUse, c: WordUse)
    ensures spec_merge(a, b) == spec_merge(b, a),
            lift(spec_merge(a, b), c) == lift(spec_merge(b, c), a),
{}
}
fn main() {}
