use vstd::prelude::*;
mod ext {
    #[derive(Clone, Copy, PartialEq, Eq)] pub struct U256(pub [u128;2]);
    impl U256 { pub fn to_be_bytes(self) -> [u8; 32] { unimplemented!() }
                pub fn from_str_hex(_s: &str) -> Result<U256, ParseIntError> { unimplemented!() } }
    pub struct ParseIntError;
    pub mod hex { pub fn encode(_b: [u8; 32]) -> String { unimplemented!() } }
    pub trait Serializer: Sized { type Ok; type Error; fn serialize_str(self, v: &str) -> Result<Self::Ok, Self::Error>; }
}
use ext::{U256, ParseIntError, hex, Serializer};
verus! {
#[verifier::external_type_specification] #[verifier::external_body] pub struct ExU256(U256);
#[verifier::external_type_specification] #[verifier::external_body] pub struct ExPIE(ParseIntError);
#[verifier::external_trait_specification]
pub trait ExSerializer: Sized {
    type ExternalTraitSpecificationFor: Serializer;
    type Ok; type Error;
    fn serialize_str(self, v: &str) -> (r: Result<Self::Ok, Self::Error>)
        ensures emitted(self, v@, r);
}
pub uninterp spec fn emitted<S, O, E>(s: S, v: Seq<char>, r: Result<O, E>) -> bool;

pub uninterp spec fn u(x: U256) -> nat;
pub uninterp spec fn be(x: U256) -> Seq<u8>;                 // 32 big-endian bytes
pub uninterp spec fn hexstr(b: Seq<u8>) -> Seq<char>;        // 2 lower-case digits per byte
pub assume_specification[ U256::to_be_bytes ](x: U256) -> (r: [u8; 32]) ensures r@ == be(x);
pub assume_specification[ hex::encode ](b: [u8; 32]) -> (r: String) ensures r@ == hexstr(b@);
pub assume_specification[ U256::from_str_hex ](s: &str) -> (r: Result<U256, ParseIntError>)
    ensures forall|x: U256| s@ == seq!['0', 'x'] + hexstr(be(x)) ==> r == Ok::<U256, ParseIntError>(x);

pub struct U256Wrapper(pub U256);

impl U256Wrapper {
    fn serialize<S: Serializer>(&self, serializer: S) -> (r: Result<S::Ok, S::Error>)
        ensures emitted(serializer, seq!['0', 'x'] + hexstr(be(self.0)), r)
    {
        proof { reveal_strlit("0x"); }
        let mut value = String::from("0x");
        proof { assert(value@ =~= seq!['0', 'x']); }
        value.push_str(&hex::encode(self.0.to_be_bytes()));

        serializer.serialize_str(&value)
    }
}
}
fn main() {}
