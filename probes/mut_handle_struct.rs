use vstd::prelude::*;
verus! {
pub struct Stack { pub data: Vec<u64> }
pub struct Handle<'a> { pub ip: u32, pub stack: &'a mut Stack }
pub struct VM { pub st: Stack, pub ip: u32, pub killed: bool }
impl VM {
    pub fn stack_handle(&mut self) -> (r: Result<Handle<'_>, u8>)
    {
        let ip = self.ip;
        Ok(Handle { ip, stack: &mut self.st })
    }
}
impl<'a> Handle<'a> {
    pub fn pop(&mut self) -> (r: Result<u64, u8>)
    {
        match self.stack.data.pop() { Some(v) => Ok(v), None => Err(0) }
    }
}
pub fn exec(vm: &mut VM) -> (r: Result<(), u8>)
{
    let mut stack = vm.stack_handle()?;
    let a = stack.pop()?;
    let b = stack.pop()?;
    Ok(())
}
}
fn main() {}
