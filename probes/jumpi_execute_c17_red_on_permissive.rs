use vstd::prelude::*;
mod ext { pub struct VM; pub struct Val; }
use ext::{VM, Val};
verus! {
#[verifier::external_type_specification] #[verifier::external_body] pub struct ExVM(VM);
#[verifier::external_type_specification] #[verifier::external_body] pub struct ExVal(Val);

pub enum Error { NoConcreteJumpDestination, NonExistentJumpTarget { offset: u32 }, InvalidJumpTarget { offset: u32 }, InvalidOffsetForJump { offset: u32 }, NoSuchThread, NoSuchStackFrame { depth: i64 } }
pub struct Located { pub location: u32, pub payload: Error }
pub type Result<T> = std::result::Result<T, Located>;
pub type ExecuteResult = Result<()>;
pub open spec fn is_jump_kind(e: Error) -> bool { e is NoConcreteJumpDestination || e is NonExistentJumpTarget || e is InvalidJumpTarget || e is InvalidOffsetForJump }

// ---- abstract VM state (A-CALLEE) ----
pub uninterp spec fn stack(vm: VM) -> Seq<Val>;
pub uninterp spec fn killed(vm: VM) -> bool;
pub uninterp spec fn permissive(vm: VM) -> bool;
pub uninterp spec fn errors(vm: VM) -> Seq<Located>;
pub uninterp spec fn queued(vm: VM) -> Seq<u32>;      // entry points of threads waiting in the queue
pub uninterp spec fn ip(vm: VM) -> u32;
pub uninterp spec fn has_thread(vm: VM) -> bool;
pub uninterp spec fn validates(vm: VM, counter: Val) -> Result<u32>;
pub broadcast axiom fn validates_frame(a: VM, b: VM, c: Val) requires same_ctl(a, b) ensures #[trigger] validates(a, c) == #[trigger] validates(b, c);
pub broadcast axiom fn budget_frame(a: VM, b: VM, t: u32) requires same_ctl(a, b) ensures #[trigger] fork_budget(a, t) == #[trigger] fork_budget(b, t);
pub uninterp spec fn fork_budget(vm: VM, target: u32) -> bool;
pub open spec fn same_ctl(a: VM, b: VM) -> bool { has_thread(a) == has_thread(b) && killed(a) == killed(b) && permissive(a) == permissive(b) && errors(a) == errors(b) && queued(a) == queued(b) && ip(a) == ip(b) }

#[verifier::external_body] pub fn vm_instruction_pointer(vm: &mut VM) -> (r: Result<u32>) ensures *final(vm) == *old(vm), r is Ok ==> r->Ok_0 == ip(*old(vm)), has_thread(*old(vm)) ==> r is Ok { unimplemented!() }
#[verifier::external_body] pub fn vm_pop(vm: &mut VM) -> (r: Result<Val>)
    ensures same_ctl(*final(vm), *old(vm)),
        (has_thread(*old(vm)) && stack(*old(vm)).len() > 0) ==> r is Ok,
        r is Ok ==> stack(*old(vm)).len() > 0 && r->Ok_0 == stack(*old(vm)).last() && stack(*final(vm)) == stack(*old(vm)).drop_last(),
        r is Err ==> !is_jump_kind(r->Err_0.payload) && stack(*final(vm)) == stack(*old(vm)) { unimplemented!() }
#[verifier::external_body] pub fn vm_record_value(vm: &mut VM, v: Val) -> (r: Result<()>)
    ensures same_ctl(*final(vm), *old(vm)), stack(*final(vm)) == stack(*old(vm)), r is Err ==> !is_jump_kind(r->Err_0.payload), has_thread(*old(vm)) ==> r is Ok { unimplemented!() }
#[verifier::external_body] pub fn validate_jump_destination(counter: &Val, vm: &mut VM) -> (r: Result<u32>)
    ensures *final(vm) == *old(vm), r == validates(*old(vm), *counter) { unimplemented!() }
#[verifier::external_body] pub fn vm_fork_to(vm: &mut VM, cur: u32, target: u32) -> (r: Result<bool>)
    ensures same_ctl(*final(vm), *old(vm)), stack(*final(vm)) == stack(*old(vm)), r is Ok ==> r->Ok_0 == fork_budget(*old(vm), target), r is Err ==> !is_jump_kind(r->Err_0.payload), has_thread(*old(vm)) ==> r is Ok { unimplemented!() }
#[verifier::external_body] pub fn vm_fork_current_thread(vm: &mut VM, target: u32) -> (r: Result<()>)
    ensures stack(*final(vm)) == stack(*old(vm)), killed(*final(vm)) == killed(*old(vm)), permissive(*final(vm)) == permissive(*old(vm)), errors(*final(vm)) == errors(*old(vm)), ip(*final(vm)) == ip(*old(vm)), has_thread(*final(vm)) == has_thread(*old(vm)),
        has_thread(*old(vm)) ==> r is Ok,
        r is Ok ==> queued(*final(vm)) == queued(*old(vm)).push(target), r is Err ==> !is_jump_kind(r->Err_0.payload) && queued(*final(vm)) == queued(*old(vm)) { unimplemented!() }
#[verifier::external_body] pub fn vm_store_error(vm: &mut VM, e: Located)
    ensures stack(*final(vm)) == stack(*old(vm)), killed(*final(vm)) == killed(*old(vm)), permissive(*final(vm)) == permissive(*old(vm)), queued(*final(vm)) == queued(*old(vm)), ip(*final(vm)) == ip(*old(vm)), has_thread(*final(vm)) == has_thread(*old(vm)),
        errors(*final(vm)) == errors(*old(vm)).push(e) { unimplemented!() }

pub struct JumpI;
impl JumpI {
    // body of `impl Opcode for JumpI { fn execute }`, R-CALL on the VM accessors
    fn execute(&self, vm: &mut VM) -> (r: ExecuteResult)
        requires stack(*old(vm)).len() >= 2, has_thread(*old(vm)),
        ensures
            ({ let counter = stack(*old(vm)).last(); let v = validates(*old(vm), counter);
               &&& (v is Ok && fork_budget(*old(vm), v->Ok_0)) ==> r is Ok ==> queued(*final(vm)) == queued(*old(vm)).push(v->Ok_0) && !killed(*final(vm)) == !killed(*old(vm)) && errors(*final(vm)) == errors(*old(vm))
               &&& (v is Err && is_jump_kind(v->Err_0.payload)) ==> r is Ok && killed(*final(vm)) == killed(*old(vm)) && queued(*final(vm)) == queued(*old(vm))
                        // C17: a bad target never by itself makes a permissive analysis fail
                        && (permissive(*old(vm)) ==> errors(*final(vm)) == errors(*old(vm)))
                        && (!permissive(*old(vm)) ==> errors(*final(vm)) == errors(*old(vm)).push(v->Err_0))
               &&& (v is Err && !is_jump_kind(v->Err_0.payload)) ==> r is Err
            }),
    {
        broadcast use validates_frame, budget_frame;
        // Get the arguments
        let instruction_pointer = vm_instruction_pointer(vm)?;
        let counter = vm_pop(vm)?;
        let condition = vm_pop(vm)?;

        // We want to store that the condition existed, even if the jump target is
        // invalid, so we record it in the buffer of otherwise-lost values
        vm_record_value(vm, condition)?;

        // In `solc` compiled code, the top of the stack at jump time is a non-computed
        // immediate, allowing us to actually alter the program counter
        match validate_jump_destination(&counter, vm) {
            Ok(target) => {
                // We only want to fork up to the provided limit, so we check if we can first
                if vm_fork_to(vm, instruction_pointer, target)? {
                    vm_fork_current_thread(vm, target)?;
                }

                Ok(())
            }
            Err(payload) => {
                // Counter was non-trivial here, so we hold onto it.
                vm_record_value(vm, counter)?;

                let result = match payload.payload {
                    Error::NoConcreteJumpDestination { .. }
                    | Error::NonExistentJumpTarget { .. }
                    | Error::InvalidJumpTarget { .. }
                    | Error::InvalidOffsetForJump { .. } => Ok(payload),
                    _ => Err(payload),
                }?;

                vm_store_error(vm, result);
                Ok(())
            }
        }
    }
}
}
fn main() {}
