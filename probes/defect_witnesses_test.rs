use storage_layout_extractor as sle;
use sle::{
    data::vector_map::VectorMap,
    disassembly::InstructionStream,
    extractor::{chain::{version::EthereumVersion, Chain}, contract::Contract},
    vm::value::{known::KnownWord, Provenance, RSV, RSVD},
    tc::{expression::{TE, WordUse}, state::TypeCheckerState, unification::merge},
    watchdog::LazyWatchdog,
};
use std::panic::catch_unwind;

fn run(bytes: Vec<u8>) -> String {
    let r = catch_unwind(|| {
        let contract = Contract::new(bytes, Chain::Ethereum { version: EthereumVersion::Shanghai });
        sle::new(contract, sle::vm::Config::default(), sle::tc::Config::default(), LazyWatchdog.in_rc()).analyze()
    });
    match r { Err(_) => "PANIC".into(), Ok(Ok(l)) => format!("OK {:?}", l.slots().iter().map(|s| (s.index, s.offset)).collect::<Vec<_>>()), Ok(Err(e)) => format!("ERR {:?}", e).chars().take(200).collect() }
}

#[test]
fn probes() {
    println!("C10 bare push1: {:?}", InstructionStream::try_from([0x00u8, 0x60].as_slice()).map(|s| s.len()).map_err(|e| format!("{e:?}")));
    println!("C10 push2 one byte: {:?}", InstructionStream::try_from([0x61u8, 0x01].as_slice()).map(|s| s.len()).map_err(|e| format!("{e:?}")));
    let mut m: VectorMap<usize, u8> = VectorMap::new();
    m.insert(&3, 1); m.insert(&3, 2);
    println!("C19 len after overwrite = {}", m.len());
    let r = catch_unwind(|| { let mut m: VectorMap<usize, u8> = VectorMap::new(); m.insert(&5, 1); let _ = m.remove(&1); let _ = m.remove(&2); m.len() });
    println!("C19 remove absent twice: {:?}", r.is_err());
    let a = KnownWord::from_le(2u8); let b = KnownWord::from_le(1u128 << 32);
    println!("C09 2**(2^32) = {}", a.exp(b));
    let r = catch_unwind(|| KnownWord::from_le(1u8) << KnownWord::from_le(256u32));
    println!("C09 1<<256 panics: {:?}", r.is_err());
    // C18
    let leaf = RSV::new_value(0, Provenance::Synthetic);
    let n = RSV::new(1, RSVD::Add { left: leaf.clone(), right: leaf.clone() }, Provenance::Synthetic, Some(2));
    println!("C18 culled size = {} data={:?}", n.size(), matches!(n.data(), RSVD::Value{..}));
    // C16
    let mut st = TypeCheckerState::empty();
    let tv = st.register(RSV::new_value(0, Provenance::Synthetic));
    let d = TE::dyn_array(tv); let bo = TE::bool(); let ad = TE::address();
    let ab = merge(d.clone(), bo.clone(), tv, &mut st).expression;
    let l = merge(ab, ad.clone(), tv, &mut st).expression;
    let bc = merge(bo, ad, tv, &mut st).expression;
    let r = merge(d, bc, tv, &mut st).expression;
    println!("C16 (d+b)+a = {l:?} ; d+(b+a) conflict = {}", matches!(r, TE::Conflict{..}));
    let _ = WordUse::Bytes;
    // C08 jump to 2^32+4: PUSH5 0x0100000004 JUMP INVALID JUMPDEST PUSH1 1 PUSH1 7 SSTORE STOP
    println!("C08 big target: {}", run(vec![0x64,0x01,0,0,0,0x08, 0x56, 0xfe, 0x5b, 0x60,1,0x60,7,0x55,0x00]));
    // C08 selfdestruct then sstore: PUSH1 0 SELFDESTRUCT PUSH1 1 PUSH1 9 SSTORE
    println!("C08 selfdestruct: {}", run(vec![0x60,0,0xff,0x60,1,0x60,9,0x55,0x00]));
    // C01 sha3 at offset 2^64-1 size 32
    println!("C01 sha3 big offset: {}", run(vec![0x60,0x20,0x67,0xff,0xff,0xff,0xff,0xff,0xff,0xff,0xff,0x20,0x00]));
    // C01 shl 256 folded as memory offset: PUSH1 1 PUSH2 0x0100 SHL MLOAD
    println!("C01 shl256 mload: {}", run(vec![0x60,1,0x61,0x01,0x00,0x1b,0x51,0x00]));
    // C06 large key sload: PUSH32 ff.. SLOAD
    let mut v = vec![0x7f]; v.extend([0xffu8;32]); v.extend([0x54,0x00]);
    println!("C06 big key: {}", run(v));
}
