use vstd::prelude::*;
use std::rc::Rc;
verus! {
pub const PUSH_OPCODE_BASE_VALUE: u8 = 0x5f;
pub const PUSH_OPCODE_MAX_BYTES: u8 = 32;

pub trait Opcode {
    spec fn enc(&self) -> Seq<u8>;
    spec fn is_nop(&self) -> bool;
    spec fn is_jumpdest(&self) -> bool;
}
pub struct Stop; pub struct Add; pub struct JumpDest; pub struct Nop;
pub struct Invalid { pub byte: u8 }
pub struct PushN { byte_count: u8, bytes: Vec<u8> }
impl Opcode for Stop { open spec fn enc(&self) -> Seq<u8> { seq![0x00u8] } open spec fn is_nop(&self) -> bool { false } open spec fn is_jumpdest(&self) -> bool { false } }
impl Opcode for Add { open spec fn enc(&self) -> Seq<u8> { seq![0x01u8] } open spec fn is_nop(&self) -> bool { false } open spec fn is_jumpdest(&self) -> bool { false } }
impl Opcode for JumpDest { open spec fn enc(&self) -> Seq<u8> { seq![0x5bu8] } open spec fn is_nop(&self) -> bool { false } open spec fn is_jumpdest(&self) -> bool { true } }
impl Opcode for Nop { open spec fn enc(&self) -> Seq<u8> { Seq::<u8>::empty() } open spec fn is_nop(&self) -> bool { true } open spec fn is_jumpdest(&self) -> bool { false } }
impl Opcode for Invalid { open spec fn enc(&self) -> Seq<u8> { seq![self.byte] } open spec fn is_nop(&self) -> bool { false } open spec fn is_jumpdest(&self) -> bool { false } }
impl Opcode for PushN { closed spec fn enc(&self) -> Seq<u8> { seq![(0x5fu8 + self.byte_count) as u8] + self.bytes@.reverse() } open spec fn is_nop(&self) -> bool { false } open spec fn is_jumpdest(&self) -> bool { false } }
impl Invalid { pub fn new(byte: u8) -> (r: Self) ensures r.byte == byte { Self { byte } } }
pub enum Error { EmptyBytecode, BytecodeTooLarge, InvalidPushSize(u8) }
impl PushN {
    #[verifier::external_body]
    pub fn new(n: u8, bytes: Vec<u8>) -> (r: Result<Self, Error>)
        ensures (0 < n <= 32 && bytes@.len() == n) ==> r is Ok && r->Ok_0.enc() == seq![(0x5fu8 + n) as u8] + bytes@,
                !(0 < n <= 32 && bytes@.len() == n) ==> r is Err
    { unimplemented!() }
}
pub type DynOpcode = Rc<dyn Opcode>;

pub open spec fn enc_all(ops: Seq<DynOpcode>) -> Seq<u8> decreases ops.len() {
    if ops.len() == 0 { Seq::<u8>::empty() } else { enc_all(ops.drop_last()) + ops.last().enc() }
}

#[verifier::external_body]
fn add_op<T: Opcode + 'static>(ops: &mut Vec<DynOpcode>, elem: T)
    ensures final(ops)@.len() == old(ops)@.len() + 1,
            enc_all(final(ops)@) == enc_all(old(ops)@) + elem.enc(),
{
    ops.push(Rc::new(elem));
}

pub open spec fn open_prefix(open: bool, last_push: u8, push_bytes: Seq<u8>) -> Seq<u8> {
    if open { seq![last_push] + push_bytes } else { Seq::<u8>::empty() }
}

pub uninterp spec fn bare_trailing_push(b: Seq<u8>) -> bool;
pub fn disassemble(bytes: &[u8]) -> (res: Result<Vec<DynOpcode>, Error>)
    requires bytes@.len() <= u32::MAX,
    ensures
        bytes@.len() == 0 ==> res is Err,
        res is Ok ==> res->Ok_0@.len() == bytes@.len() && enc_all(res->Ok_0@) =~= bytes@,
{
    if bytes.is_empty() {
        return Err(Error::EmptyBytecode);
    }

    let mut opcodes: Vec<DynOpcode> = Vec::with_capacity(bytes.len());
    let ops = &mut opcodes;
    let mut last_push: u8 = 0;
    let mut last_push_start: u32 = 0;
    let mut push_size: u8 = 0;
    let mut remaining_push_bytes: u8 = push_size;
    let mut push_bytes: Vec<u8> = Vec::with_capacity(PUSH_OPCODE_MAX_BYTES as usize);

    for offset in 0..bytes.len()
        invariant
            bytes@.len() <= u32::MAX,
            remaining_push_bytes <= push_size <= 32,
            push_size != 0 ==> last_push == 0x5fu8 + push_size,
            push_bytes@.len() == push_size - remaining_push_bytes,
            (push_size == 0) ==> (push_bytes@.len() == 0 && remaining_push_bytes == 0),
            (remaining_push_bytes == 0) == (push_size == 0),
            ops@.len() + (if push_size != 0 { 1 + push_bytes@.len() } else { 0 }) == offset,
            enc_all(ops@) + open_prefix(push_size != 0, last_push, push_bytes@) =~= bytes@.subrange(0, offset as int),
    {
        let byte = &bytes[offset];
        if remaining_push_bytes != 0 {
            let ghost pre_ops = ops@;
            let ghost pre_pb = push_bytes@;
            push_bytes.push(*byte);
            remaining_push_bytes -= 1;
            proof {
                assert(bytes@.subrange(0, offset as int + 1) =~= bytes@.subrange(0, offset as int).push(*byte));
                assert(open_prefix(true, last_push, push_bytes@) =~= open_prefix(true, last_push, pre_pb).push(*byte));
            }

            if remaining_push_bytes == 0 && !push_bytes.is_empty() {
                let ghost pb = push_bytes@;
                let opcode = match PushN::new(push_size, push_bytes.clone()) { Ok(o) => o, Err(e) => return Err(e) };
                add_op(ops, opcode);

                let ghost ops_before = ops@;
                for _i in 0..push_size
                    invariant
                        ops@.len() == ops_before.len() + _i,
                        enc_all(ops@) == enc_all(ops_before),
                {
                    add_op(ops, Nop);
                }

                proof {
                    assert(enc_all(ops@) =~= enc_all(pre_ops) + (seq![last_push] + push_bytes@));
                }
                push_bytes.clear();
                push_size = 0;
                last_push = 0;
            }
        } else {
            proof { assert(bytes@.subrange(0, offset as int + 1) =~= bytes@.subrange(0, offset as int).push(*byte)); }
            match byte {
                0x00 => add_op(ops, Stop),
                0x01 => add_op(ops, Add),
                0x5b => add_op(ops, JumpDest),
                0x60..=0x7f => {
                    last_push = *byte;
                    last_push_start = offset as u32;
                    push_size = byte - PUSH_OPCODE_BASE_VALUE;
                    remaining_push_bytes = push_size;
                }
                _ => add_op(ops, Invalid::new(*byte)),
            }
        }
    }
    proof {
        assert(bytes@.subrange(0, bytes@.len() as int) =~= bytes@);
    }
    let ghost e0 = enc_all(ops@);
    if !push_bytes.is_empty() && push_bytes.len() != push_size as usize {
        proof {
            assert(push_size != 0);
            assert(bytes@ =~= e0 + (seq![last_push] + push_bytes@));
            assert(bytes@.subrange(bytes@.len() - push_bytes@.len(), bytes@.len() as int) =~= push_bytes@);
            assert(bytes@.subrange(0, bytes@.len() - push_bytes@.len()) =~= e0 + seq![last_push]);
        }
        add_op(ops, Invalid::new(last_push));
        for k in 0..push_bytes.len()
            invariant
                ops@.len() == bytes@.len() - push_bytes@.len() + k,
                enc_all(ops@) =~= bytes@.subrange(0, bytes@.len() - push_bytes@.len() + k),
                bytes@.subrange(bytes@.len() - push_bytes@.len(), bytes@.len() as int) =~= push_bytes@,
                push_bytes@.len() < bytes@.len(),
        {
            let b = &push_bytes[k];
            proof {
                let base = bytes@.len() - push_bytes@.len();
                assert(bytes@[base + k] == push_bytes@[k as int]);
                assert(bytes@.subrange(0, base + k + 1) =~= bytes@.subrange(0, base + k).push(*b));
            }
            add_op(ops, Invalid::new(*b));
        }
    } else if push_size != 0 {
        let opcode = match PushN::new(push_size, push_bytes.clone()) { Ok(o) => o, Err(e) => return Err(e) };
        add_op(ops, opcode);
    }

    Ok(opcodes)
}
}
fn main() {}
