use vstd::prelude::*;
use std::marker::PhantomData;
verus! {

pub trait ToUniqueIndex {
    spec fn index_spec(&self) -> usize;
    fn index(&self) -> (r: usize)
        ensures r == self.index_spec();
}

pub struct VectorMap<K, V>
where
    K: ToUniqueIndex,
{
    phantom: PhantomData<K>,
    data: Vec<Option<V>>,
    size: usize,
}

pub open spec fn count_some<V>(s: Seq<Option<V>>) -> nat
    decreases s.len()
{
    if s.len() == 0 { 0 } else { count_some(s.drop_last()) + if s.last().is_some() { 1nat } else { 0nat } }
}

proof fn lemma_count_push<V>(s: Seq<Option<V>>, x: Option<V>)
    ensures count_some(s.push(x)) == count_some(s) + if x.is_some() { 1nat } else { 0nat }
{
    assert(s.push(x).drop_last() =~= s);
}

proof fn lemma_count_update<V>(s: Seq<Option<V>>, i: int, x: Option<V>)
    requires 0 <= i < s.len()
    ensures count_some(s.update(i, x)) + (if s[i].is_some() { 1nat } else { 0nat }) == count_some(s) + (if x.is_some() { 1nat } else { 0nat })
    decreases s.len()
{
    if i == s.len() - 1 {
        assert(s.update(i, x).drop_last() =~= s.drop_last());
    } else {
        lemma_count_update(s.drop_last(), i, x);
        assert(s.update(i, x).drop_last() =~= s.drop_last().update(i, x));
    }
}

proof fn lemma_count_le_len<V>(s: Seq<Option<V>>)
    ensures count_some(s) <= s.len()
    decreases s.len()
{
    if s.len() > 0 { lemma_count_le_len(s.drop_last()); }
}

impl<K: ToUniqueIndex, V> VectorMap<K, V> {
    pub closed spec fn sget(&self, i: int) -> Option<V> {
        if 0 <= i < self.data@.len() { self.data@[i] } else { None }
    }
    pub closed spec fn wf(&self) -> bool {
        self.size as nat == count_some(self.data@)
    }
    pub closed spec fn slen(&self) -> nat { self.size as nat }

    pub fn insert(&mut self, key: &K, value: V)
        requires old(self).wf(),
        ensures final(self).wf(),
            forall|i: int| final(self).sget(i) == if i == key.index_spec() { Some(value) } else { old(self).sget(i) },
            final(self).slen() == old(self).slen() + if old(self).sget(key.index_spec() as int).is_none() { 1nat } else { 0nat },
    {
        let index = key.index();
        while index >= self.data.len()
            invariant self.size == old(self).size, count_some(self.data@) == count_some(old(self).data@),
                self.data@.len() >= old(self).data@.len(),
                forall|i: int| 0 <= i < old(self).data@.len() ==> self.data@[i] == old(self).data@[i],
                forall|i: int| old(self).data@.len() <= i < self.data@.len() ==> self.data@[i].is_none(),
            decreases index + 1 - self.data.len(),
        {
            proof { lemma_count_push(self.data@, None); }
            self.data.push(None);
        }
        proof { lemma_count_update(self.data@, index as int, Some(value)); lemma_count_le_len(self.data@); }

        // Actually write the data into the vector.
        self.data[index] = Some(value);

        // Increment the size so it stays accurate
        self.size += 1;
    }

    pub fn remove(&mut self, key: &K) -> (r: Option<V>)
        requires old(self).wf(),
        ensures final(self).wf(), r == old(self).sget(key.index_spec() as int),
            forall|i: int| final(self).sget(i) == if i == key.index_spec() { None } else { old(self).sget(i) },
            final(self).slen() == old(self).slen() - if r.is_some() { 1nat } else { 0nat },
    {
        let index = key.index();

        if index < self.data.len() {
            proof { lemma_count_update(self.data@, index as int, None); }
            let value = self.data[index].take();
            self.size -= 1;

            value
        } else {
            None
        }
    }
}
}
fn main() {}
