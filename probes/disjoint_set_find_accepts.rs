use vstd::prelude::*;
use std::marker::PhantomData;
verus! {

pub trait ToUniqueIndex: Sized {
    spec fn index_spec(&self) -> usize;
    fn index(&self) -> (r: usize)
        ensures r == self.index_spec();
}

pub trait Combine: Sized {
    spec fn combine_spec(self, other: Self) -> Self;
    spec fn identity_spec() -> Self;
    fn combine(self, other: Self) -> (r: Self) ensures r == self.combine_spec(other);
    fn identity() -> (r: Self) ensures r == Self::identity_spec();
}

pub struct VectorMap<K, V>
where
    K: ToUniqueIndex,
{
    phantom: PhantomData<K>,
    data: Vec<Option<V>>,
    size: usize,
}

impl<K: ToUniqueIndex, V> VectorMap<K, V> {
    pub closed spec fn sget(&self, i: int) -> Option<V> {
        if 0 <= i < self.data@.len() { self.data@[i] } else { None }
    }
    #[verifier::external_body]
    pub fn insert(&mut self, key: &K, value: V)
        ensures forall|i: int| final(self).sget(i) == if i == key.index_spec() { Some(value) } else { old(self).sget(i) },
    { unimplemented!() }
    #[verifier::external_body]
    pub fn get(&self, key: &K) -> (r: Option<&V>)
        ensures r == match self.sget(key.index_spec() as int) { Some(v) => Some(&v), None => None }
    { unimplemented!() }
}

pub struct DisjointSet<Value, Data>
where
    Value: Clone + Eq + PartialEq + ToUniqueIndex,
    Data: Combine + Eq + PartialEq,
{
    reps: VectorMap<Value, Value>,
    data: VectorMap<Value, Data>,
}

impl<Value, Data> DisjointSet<Value, Data>
where
    Value: Clone + Eq + PartialEq + ToUniqueIndex,
    Data: Combine + Eq + PartialEq,
{
    pub fn find(&mut self, value: &Value) -> Value
    {
        if let Some(rep) = self.reps.get(value).cloned() {
            if rep == *value {
                value.clone()
            } else {
                let f = self.find(&rep);
                self.reps.insert(value, f.clone());
                f
            }
        } else {
            self.reps.insert(value, value.clone());
            self.find(value)
        }
    }
}
}
fn main() {}
