use storage_layout_extractor as sle;
use sle::{tc::{expression::{TE, WordUse}, state::{TypeCheckerState, type_variable::TypeVariable}, unification::{merge, Merge}}, vm::value::{Provenance, RSV}};
use ethnum::U256;
use std::collections::{BTreeMap, BTreeSet};

#[derive(Clone, Debug, PartialEq, Eq, PartialOrd, Ord)]
enum N { Conflict, T(String, BTreeSet<(usize,usize)>) }

fn tvid(t: TypeVariable) -> usize { format!("{t}").trim_start_matches("V[").trim_end_matches(']').parse().unwrap() }

fn norm(m: &Merge) -> N {
    if let TE::Conflict{..} = m.expression { return N::Conflict; }
    let mut eqs = BTreeSet::new();
    for e in &m.equalities { let (a,b)=(tvid(e.left),tvid(e.right)); if a!=b { eqs.insert((a.min(b),a.max(b))); } }
    // representative-insensitive rendering: replace var ids by class under eqs (only 2 vars) 
    let mut s = format!("{:?}", m.expression);
    if !eqs.is_empty() { s = s.replace("id: 1", "id: 0"); }
    N::T(s, eqs)
}
fn kind(t: &TE) -> String { match t { TE::Any=>"any".into(), TE::Bytes=>"bytes".into(), TE::Word{usage,width}=>format!("word"), TE::Mapping{..}=>"map".into(), TE::DynamicArray{..}=>"dyn".into(), TE::FixedArray{..}=>"fix".into(), TE::Conflict{..}=>"conflict".into(), _=>"other".into() } }

#[test]
fn probes4() {
    let mut st = TypeCheckerState::empty();
    let v0 = st.register(RSV::new_value(0, Provenance::Synthetic));
    let v1 = st.register(RSV::new_value(1, Provenance::Synthetic));
    let mut dom: Vec<TE> = vec![TE::Any, TE::Bytes];
    for u in [WordUse::Bytes, WordUse::Numeric, WordUse::UnsignedNumeric, WordUse::SignedNumeric] {
        for w in [None, Some(8), Some(32), Some(160), Some(192), Some(256)] { dom.push(TE::word(w, u)); }
    }
    dom.extend([TE::bool(), TE::address(), TE::selector(), TE::function()]);
    for (a,b) in [(v0,v1),(v1,v0),(v0,v0)] { dom.push(TE::mapping(a,b)); }
    for a in [v0,v1] { dom.push(TE::dyn_array(a)); dom.push(TE::FixedArray{element:a,length:U256::from(2u8)}); }
    dom.push(TE::FixedArray{element:v0,length:U256::from(3u8)});
    dom.push(TE::conflict(TE::Bytes, TE::bool(), "seed"));
    println!("P4 domain size {}", dom.len());
    let mut sym_fail: BTreeMap<String, (usize, String)> = BTreeMap::new();
    let mut asc_fail: BTreeMap<String, (usize, String)> = BTreeMap::new();
    let mut nsym=0; let mut nasc=0; let mut total=0;
    let mut m2 = |a: &TE, b: &TE, st: &mut TypeCheckerState| merge(a.clone(), b.clone(), v0, st);
    for a in &dom { for b in &dom {
        let ab = m2(a,b,&mut st); let ba = m2(b,a,&mut st);
        if norm(&ab) != norm(&ba) { nsym+=1; let k=format!("{}·{}", kind(a), kind(b)); let e=sym_fail.entry(k).or_insert((0, format!("{a:?} | {b:?} => {:?} vs {:?}", norm(&ab), norm(&ba)))); e.0+=1; }
        for c in &dom {
            total+=1;
            let mut l = m2(&ab.expression, c, &mut st);
            l.equalities.extend(ab.equalities.clone());
            let bc = m2(b,c,&mut st);
            let mut r = m2(a, &bc.expression, &mut st);
            r.equalities.extend(bc.equalities.clone());
            let (nl, nr) = (norm(&l), norm(&r));
            let same = nl == nr;
            if !same { nasc+=1; let sg=|t:&TE| match t { TE::Word{usage,..} if usage.is_definitely_signed() => "s", TE::Word{..} => "u", _ => "" }; let mut ks=vec![format!("{}{}",kind(a),sg(a)),format!("{}{}",kind(b),sg(b)),format!("{}{}",kind(c),sg(c))]; ks.sort(); let k=ks.join("·"); let e=asc_fail.entry(k).or_insert((0, format!("{a:?} | {b:?} | {c:?} => {:?} vs {:?}", nl, nr))); e.0+=1; }
        }
    }}
    println!("P4 pairs asym {nsym}; triples {total}, non-assoc {nasc}");
    for (k,(n,ex)) in &sym_fail { println!("P4 SYM {k}: {n}  e.g. {}", &ex[..ex.len().min(260)]); }
    for (k,(n,ex)) in &asc_fail { println!("P4 ASC {k}: {n}  e.g. {}", &ex[..ex.len().min(300)]); }
}
