use vstd::prelude::*;
use std::marker::PhantomData;
use vstd::std_specs::cmp::PartialEqSpec;
verus! {

pub trait ToUniqueIndex: Sized {
    spec fn index_spec(&self) -> usize;
    fn index(&self) -> (r: usize)
        ensures r == self.index_spec();
}

// ---- A-KEY (assumed about the key type) ------------------------------------------------------
#[verifier::external_body]
pub broadcast proof fn axiom_key_clone<V: ToUniqueIndex + Clone>(a: &V, b: V)
    requires #[trigger] call_ensures(<V as Clone>::clone, (a,), b)
    ensures a.index_spec() == b.index_spec()
{}
#[verifier::external_body]
pub proof fn axiom_key_eq<V: ToUniqueIndex + PartialEq>()
    ensures V::obeys_eq_spec(), forall|a: V, b: V| #[trigger] a.eq_spec(&b) == (a.index_spec() == b.index_spec())
{}

pub trait Combine: Sized + Clone {
    spec fn combine_spec(self, other: Self) -> Self;
    spec fn identity_spec() -> Self;
    fn combine(self, other: Self) -> (r: Self) ensures r == self.combine_spec(other);
    fn identity() -> (r: Self) ensures r == Self::identity_spec();
}
// ---- VectorMap: contracts proved in the vector_map unit, assumed here -------------------------
pub struct VectorMap<K, V> where K: ToUniqueIndex {
    phantom: PhantomData<K>,
    data: Vec<Option<V>>,
    size: usize,
}
impl<K: ToUniqueIndex, V> VectorMap<K, V> {
    pub uninterp spec fn sget(&self, i: int) -> Option<V>;
    #[verifier::external_body]
    pub fn insert(&mut self, key: &K, value: V)
        ensures forall|i: int| #[trigger] final(self).sget(i) == if i == key.index_spec() { Some(value) } else { old(self).sget(i) },
    { unimplemented!() }
    #[verifier::external_body]
    pub fn remove(&mut self, key: &K) -> (r: Option<V>)
        ensures r == old(self).sget(key.index_spec() as int),
            forall|i: int| #[trigger] final(self).sget(i) == if i == key.index_spec() { None } else { old(self).sget(i) },
    { unimplemented!() }
    #[verifier::external_body]
    pub fn get(&self, key: &K) -> (r: Option<&V>)
        ensures r == match self.sget(key.index_spec() as int) { Some(v) => Some(&v), None => None }
    { unimplemented!() }
}

pub struct DisjointSet<Value, Data>
where
    Value: Clone + Eq + PartialEq + ToUniqueIndex,
    Data: Combine,
{
    reps: VectorMap<Value, Value>,
    data: VectorMap<Value, Data>,
}

impl<Value, Data> DisjointSet<Value, Data>
where
    Value: Clone + Eq + PartialEq + ToUniqueIndex,
    Data: Combine,
{
    pub closed spec fn par(&self, i: int) -> Option<int> {
        match self.reps.sget(i) { Some(v) => Some(v.index_spec() as int), None => None }
    }
    pub closed spec fn dat(&self, i: int) -> Option<Data> { self.data.sget(i) }
    pub open spec fn dom(&self, i: int) -> bool { self.par(i).is_some() }
    pub open spec fn ranked(&self, d: spec_fn(int) -> nat) -> bool {
        forall|i: int| self.dom(i) && self.par(i) != Some(i) ==> #[trigger] d(self.par(i).unwrap()) < d(i)
    }
    pub open spec fn wf(&self) -> bool {
        &&& forall|i: int| self.dom(i) ==> #[trigger] self.dom(self.par(i).unwrap())
        &&& forall|i: int| self.dom(i) ==> 0 <= i <= usize::MAX
        &&& exists|d: spec_fn(int) -> nat| self.ranked(d)
    }
    pub open spec fn dwit(&self) -> spec_fn(int) -> nat { choose|d: spec_fn(int) -> nat| self.ranked(d) }

    pub open spec fn root(&self, i: int) -> int
        decreases (self.dwit())(i) when self.wf() && self.dom(i)
        via Self::root_dec
    {
        if self.par(i) == Some(i) { i } else { self.root(self.par(i).unwrap()) }
    }
    #[via_fn]
    proof fn root_dec(&self, i: int) {
        assert(self.ranked(self.dwit()));
    }

    proof fn lemma_root_props(&self, d: spec_fn(int) -> nat, i: int)
        requires self.wf(), self.dom(i), self.ranked(d)
        ensures self.dom(self.root(i)), self.par(self.root(i)) == Some(self.root(i)),
                self.root(i) != i ==> d(self.root(i)) < d(i),
                self.root(i) == i <==> self.par(i) == Some(i),
        decreases d(i)
    {
        if self.par(i) != Some(i) {
            let p = self.par(i).unwrap();
            self.lemma_root_props(d, p);
        }
    }


    /// if two states agree on `par`, they agree on wf and root
    proof fn lemma_same_par(a: &Self, b: &Self, j: int, d: spec_fn(int) -> nat)
        requires a.wf(), a.ranked(d), a.dom(j), forall|i: int| #[trigger] b.par(i) == a.par(i),
        ensures b.wf(), b.root(j) == a.root(j)
        decreases d(j)
    {
        assert(b.ranked(d)) by {
            assert forall|i: int| b.dom(i) && b.par(i) != Some(i) implies #[trigger] d(b.par(i).unwrap()) < d(i) by { assert(a.dom(i)); }
        }
        assert(b.wf()) by {
            assert forall|i: int| b.dom(i) implies #[trigger] b.dom(b.par(i).unwrap()) by { assert(a.dom(i)); assert(a.dom(a.par(i).unwrap())); }
            assert forall|i: int| b.dom(i) implies 0 <= i <= usize::MAX by { assert(a.dom(i)); }
        }
        if a.par(j) == Some(j) {
            assert(b.par(j) == Some(j));
        } else {
            let p = a.par(j).unwrap();
            assert(a.dom(p));
            Self::lemma_same_par(a, b, p, d);
            assert(b.par(j) == Some(p));
        }
    }


    /// linking root `rb` under a different root `ra`: every member of rb's class now has root ra
    proof fn lemma_link(a: &Self, b: &Self, ra: int, rb: int, j: int, d: spec_fn(int) -> nat)
        requires a.wf(), b.wf(), a.ranked(d), a.dom(ra), a.dom(rb), ra != rb, a.par(ra) == Some(ra), a.par(rb) == Some(rb), a.dom(j),
            forall|i: int| #[trigger] b.par(i) == if i == rb { Some(ra) } else { a.par(i) },
        ensures b.root(j) == if a.root(j) == rb { ra } else { a.root(j) }
        decreases d(j)
    {
        if j == rb {
            assert(b.par(ra) == Some(ra));
            assert(b.root(ra) == ra);
            assert(b.root(rb) == b.root(ra));
            assert(a.root(rb) == rb);
        } else if a.par(j) == Some(j) {
            assert(b.par(j) == Some(j));
            assert(a.root(j) == j);
        } else {
            let p = a.par(j).unwrap();
            assert(a.dom(p));
            Self::lemma_link(a, b, ra, rb, p, d);
            assert(b.par(j) == Some(p));
        }
    }

    proof fn lemma_link_ranked(a: &Self, b: &Self, ra: int, rb: int, d: spec_fn(int) -> nat)
        requires a.wf(), a.ranked(d), a.dom(ra), a.dom(rb), ra != rb, a.par(ra) == Some(ra), a.par(rb) == Some(rb),
            forall|i: int| #[trigger] b.par(i) == if i == rb { Some(ra) } else { a.par(i) },
        ensures b.wf()
    {
        let big = d(ra) + 1;
        let d2 = |i: int| if a.dom(i) && a.root(i) == rb { (d(i) + big) as nat } else { d(i) };
        assert(b.ranked(d2)) by {
            assert forall|i: int| b.dom(i) && b.par(i) != Some(i) implies #[trigger] d2(b.par(i).unwrap()) < d2(i) by {
                assert(a.dom(i));
                if i == rb {
                    a.lemma_root_props(d, rb);
                    a.lemma_root_props(d, ra);
                    assert(a.root(ra) == ra);
                } else {
                    let p = a.par(i).unwrap();
                    assert(a.dom(p));
                    assert(a.root(i) == a.root(p));
                }
            }
        }
        assert forall|i: int| b.dom(i) implies #[trigger] b.dom(b.par(i).unwrap()) by {
            assert(a.dom(i)); if i != rb { assert(a.dom(a.par(i).unwrap())); }
        }
        assert forall|i: int| b.dom(i) implies 0 <= i <= usize::MAX by { assert(a.dom(i)); }
    }

    /// roots are preserved when a fresh singleton `x` is added
    proof fn lemma_add_singleton(old_s: &Self, new_s: &Self, x: int, j: int, d: spec_fn(int) -> nat)
        requires old_s.wf(), new_s.wf(), old_s.ranked(d), !old_s.dom(x), old_s.dom(j),
            forall|i: int| #[trigger] new_s.par(i) == if i == x { Some(x) } else { old_s.par(i) },
        ensures new_s.root(j) == old_s.root(j)
        decreases d(j)
    {
        if old_s.par(j) == Some(j) {
            assert(new_s.par(j) == Some(j));
        } else {
            let p = old_s.par(j).unwrap();
            assert(old_s.dom(p));
            Self::lemma_add_singleton(old_s, new_s, x, p, d);
            assert(new_s.par(j) == Some(p));
        }
    }

    /// roots are preserved when a non-root `x` is re-pointed at its own root
    proof fn lemma_compress(old_s: &Self, new_s: &Self, x: int, j: int, d: spec_fn(int) -> nat)
        requires old_s.wf(), new_s.wf(), old_s.ranked(d), old_s.dom(x), old_s.dom(j),
            forall|i: int| #[trigger] new_s.par(i) == if i == x { Some(old_s.root(x)) } else { old_s.par(i) },
        ensures new_s.root(j) == old_s.root(j)
        decreases d(j)
    {
        old_s.lemma_root_props(d, x);
        let r = old_s.root(x);
        if j == x {
            if r == x {
            } else {
                // new parent of x is r, which is a root in both
                assert(new_s.par(r) == Some(r));
                assert(new_s.root(r) == r);
                assert(new_s.root(x) == new_s.root(r));
            }
        } else if old_s.par(j) == Some(j) {
            assert(new_s.par(j) == Some(j));
        } else {
            let p = old_s.par(j).unwrap();
            Self::lemma_compress(old_s, new_s, x, p, d);
            assert(new_s.par(j) == Some(p));
        }
    }

    pub fn find(&mut self, value: &Value) -> (res: Value)
        requires old(self).wf(),
        ensures final(self).wf(),
            forall|i: int| final(self).dom(i) == (old(self).dom(i) || i == value.index_spec()),
            forall|i: int| old(self).dom(i) ==> #[trigger] final(self).root(i) == old(self).root(i),
            res.index_spec() == final(self).root(value.index_spec() as int),
            forall|i: int| #[trigger] final(self).dat(i) == old(self).dat(i),
        decreases (if old(self).dom(value.index_spec() as int) { 0nat } else { 1nat }),
                  (if old(self).dom(value.index_spec() as int) { (old(self).dwit())(value.index_spec() as int) } else { 0nat }),
    {
        proof { axiom_key_eq::<Value>(); broadcast use axiom_key_clone; }
        let ghost s0 = *self;
        let ghost x = value.index_spec() as int;
        if let Some(rep) = self.reps.get(value).cloned() {
            if rep == *value {
                proof {
                    assert(s0.par(x) == Some(x));
                    assert(s0.root(x) == x);
                }
                value.clone()
            } else {
                proof {
                    assert(s0.ranked(s0.dwit()));
                    assert(s0.dom(x));
                    assert(s0.par(x) == Some(rep.index_spec() as int));
                    assert(s0.dom(s0.par(x).unwrap()));
                }
                let f = self.find(&rep);
                let ghost s1 = *self;
                proof {
                    let d1 = s1.dwit();
                    assert(s1.ranked(d1));
                    assert(s1.dom(x));
                    assert(s1.root(x) == s0.root(x));
                    s0.lemma_root_props(s0.dwit(), x);
                    s0.lemma_root_props(s0.dwit(), rep.index_spec() as int);
                    assert(s0.root(x) == s0.root(rep.index_spec() as int));
                    s1.lemma_root_props(d1, x);
                    s1.lemma_root_props(d1, rep.index_spec() as int);
                }
                self.reps.insert(value, f.clone());
                proof {
                    let d1 = s1.dwit();
                    let s2 = *self;
                    assert forall|i: int| #[trigger] s2.par(i) == (if i == x { Some(s1.root(x)) } else { s1.par(i) }) by {}
                    assert(s2.ranked(d1)) by {
                        assert forall|i: int| s2.dom(i) && s2.par(i) != Some(i) implies #[trigger] d1(s2.par(i).unwrap()) < d1(i) by {
                            if i == x { } else { assert(s1.dom(i)); }
                        }
                    }
                    assert(s2.wf()) by {
                        assert forall|i: int| s2.dom(i) implies #[trigger] s2.dom(s2.par(i).unwrap()) by {
                            if i == x { } else { assert(s1.dom(i)); assert(s1.dom(s1.par(i).unwrap())); }
                        }
                        assert forall|i: int| s2.dom(i) implies 0 <= i <= usize::MAX by {
                            if i == x { } else { assert(s1.dom(i)); }
                        }
                        assert(s2.ranked(d1));
                    }
                    assert forall|i: int| s0.dom(i) implies #[trigger] s2.root(i) == s0.root(i) by {
                        assert(s1.dom(i));
                        Self::lemma_compress(&s1, &s2, x, i, d1);
                    }
                    assert forall|i: int| #[trigger] s2.dat(i) == s1.dat(i) by {}
                    assert(s2.root(x) == s1.root(x)) by { Self::lemma_compress(&s1, &s2, x, x, d1); }
                }
                f
            }
        } else {
            self.reps.insert(value, value.clone());
            proof {
                let s1 = *self;
                assert(!s0.dom(x));
                let d0 = s0.dwit();
                assert(s0.ranked(d0));
                assert forall|i: int| #[trigger] s1.par(i) == (if i == x { Some(x) } else { s0.par(i) }) by {}
                assert(s1.ranked(d0)) by {
                    assert forall|i: int| s1.dom(i) && s1.par(i) != Some(i) implies #[trigger] d0(s1.par(i).unwrap()) < d0(i) by {
                        assert(i != x); assert(s0.dom(i));
                    }
                }
                assert(s1.wf()) by {
                    assert forall|i: int| s1.dom(i) implies #[trigger] s1.dom(s1.par(i).unwrap()) by {
                        if i == x { } else { assert(s0.dom(i)); assert(s0.dom(s0.par(i).unwrap())); }
                    }
                    assert forall|i: int| s1.dom(i) implies 0 <= i <= usize::MAX by {
                        if i == x { } else { assert(s0.dom(i)); }
                    }
                    assert(s1.ranked(d0));
                }
                assert forall|i: int| #[trigger] s1.dat(i) == s0.dat(i) by {}
                assert forall|i: int| s0.dom(i) implies #[trigger] s1.root(i) == s0.root(i) by {
                    Self::lemma_add_singleton(&s0, &s1, x, i, d0);
                }
            }
            self.find(value)
        }
    }


    pub open spec fn dat_or_id(&self, i: int) -> Data { match self.dat(i) { Some(d) => d, None => Data::identity_spec() } }

    /// Associates the provided auxiliary `data` with `value`
    pub fn add_data(&mut self, value: &Value, data: Data)
        requires old(self).wf(),
        ensures final(self).wf(),
            forall|i: int| final(self).dom(i) == (old(self).dom(i) || i == value.index_spec()),
            forall|i: int| old(self).dom(i) ==> #[trigger] final(self).root(i) == old(self).root(i),
            forall|i: int| #[trigger] final(self).dat(i) == if i == final(self).root(value.index_spec() as int) { Some(old(self).dat_or_id(i).combine_spec(data)) } else { old(self).dat(i) },
    {
        let root = self.find(value);
        let ghost s1 = *self;
        let previous_data = self.data.remove(&root).unwrap_or(Data::identity());
        self.data.insert(&root, previous_data.combine(data));
        proof {
            let s2 = *self;
            let d1 = s1.dwit();
            let x = value.index_spec() as int;
            assert(s1.ranked(d1));
            assert(s1.dom(x));
            assert forall|i: int| #[trigger] s2.par(i) == s1.par(i) by {}
            Self::lemma_same_par(&s1, &s2, x, d1);
            assert forall|i: int| s1.dom(i) implies #[trigger] s2.root(i) == s1.root(i) by {
                Self::lemma_same_par(&s1, &s2, i, d1);
            }
            assert(root.index_spec() as int == s2.root(x));
            assert forall|i: int| #[trigger] s2.dat(i) == (if i == s2.root(x) { Some(s1.dat_or_id(i).combine_spec(data)) } else { s1.dat(i) }) by {}
        }
    }

    pub fn set_data(&mut self, value: &Value, data: Data)
        requires old(self).wf(),
        ensures final(self).wf(),
            forall|i: int| #[trigger] final(self).dat(i) == if i == final(self).root(value.index_spec() as int) { Some(data) } else { old(self).dat(i) },
    {
        let root = self.find(value);
        self.data.insert(&root, data);
    }

    pub open spec fn root_or_self(&self, x: int) -> int { if self.dom(x) { self.root(x) } else { x } }

    pub fn union(&mut self, v1: &Value, v2: &Value)
        requires old(self).wf(),
        ensures final(self).wf(),
            ({ let ra = old(self).root_or_self(v1.index_spec() as int); let rb = old(self).root_or_self(v2.index_spec() as int);
               &&& forall|i: int| old(self).dom(i) ==> #[trigger] final(self).root(i) == (if old(self).root(i) == rb { ra } else { old(self).root(i) })
               &&& ra != rb ==> forall|i: int| #[trigger] final(self).dat(i) == (if i == ra { Some(old(self).dat_or_id(ra).combine_spec(old(self).dat_or_id(rb))) } else if i == rb { None } else { old(self).dat(i) })
               // naive model: joining two members of one class changes nothing (D16)
               &&& ra == rb ==> forall|i: int| #[trigger] final(self).dat(i) == old(self).dat(i)
            }),
    {
        let ghost s0 = *self;
        let ghost x1 = v1.index_spec() as int;
        let ghost x2 = v2.index_spec() as int;
        let v1 = self.find(v1);
        let ghost s1 = *self;
        let v2 = self.find(v2);
        let ghost s2 = *self;
        let ghost ra = v1.index_spec() as int;
        let ghost rb = v2.index_spec() as int;
        proof {
            broadcast use axiom_key_clone;
            let d2 = s2.dwit();
            assert(s2.ranked(d2));
            assert(s1.dom(x1)); assert(s2.dom(x1)); assert(s2.dom(x2));
            assert(ra == s1.root(x1));
            assert(s2.root(x1) == s1.root(x1));
            s2.lemma_root_props(d2, x1);
            s2.lemma_root_props(d2, x2);
        }
        let v1_val = self.data.get(&v1).cloned().unwrap_or(Data::identity());
        let v2_val = self.data.remove(&v2).unwrap_or(Data::identity());
        self.data.insert(&v1, v1_val.combine(v2_val));
        let ghost s3 = *self;
        self.reps.insert(&v2, v1);
        proof {
            let s4 = *self;
            let d2 = s2.dwit();
            assert forall|i: int| #[trigger] s3.par(i) == s2.par(i) by {}
            if ra != rb {
                assert forall|i: int| #[trigger] s4.par(i) == (if i == rb { Some(ra) } else { s2.par(i) }) by {}
                Self::lemma_link_ranked(&s2, &s4, ra, rb, d2);
                assert forall|i: int| s2.dom(i) implies #[trigger] s4.root(i) == (if s2.root(i) == rb { ra } else { s2.root(i) }) by {
                    Self::lemma_link(&s2, &s4, ra, rb, i, d2);
                }
            } else {
                assert forall|i: int| #[trigger] s4.par(i) == s2.par(i) by {}
                assert forall|i: int| s2.dom(i) implies #[trigger] s4.root(i) == s2.root(i) by {
                    Self::lemma_same_par(&s2, &s4, i, d2);
                }
                Self::lemma_same_par(&s2, &s4, x1, d2);
            }
        }
    }
}
}
fn main() {}
