use vstd::prelude::*;
use std::sync::Arc;
mod ext {
    #[derive(Clone, Copy, PartialEq, Eq)]
    pub struct Uuid(pub u128);
    #[derive(Clone, Copy, PartialEq, Eq)]
    pub struct KnownWord(pub [u128;2]);
    impl KnownWord {
        pub fn signed_div(self, _r: KnownWord) -> KnownWord { unimplemented!() }
        pub fn signed_rem(self, _r: KnownWord) -> KnownWord { unimplemented!() }
        pub fn exp(self, _r: KnownWord) -> KnownWord { unimplemented!() }
        pub fn lt(self, _r: KnownWord) -> KnownWord { unimplemented!() }
        pub fn gt(self, _r: KnownWord) -> KnownWord { unimplemented!() }
        pub fn signed_lt(self, _r: KnownWord) -> KnownWord { unimplemented!() }
        pub fn signed_gt(self, _r: KnownWord) -> KnownWord { unimplemented!() }
        pub fn is_zero(self) -> KnownWord { unimplemented!() }
        pub fn sar(self, _r: KnownWord) -> KnownWord { unimplemented!() }
    }
    impl core::ops::Add<KnownWord> for KnownWord { type Output = KnownWord; fn add(self, _r: KnownWord) -> KnownWord { unimplemented!() } }
    impl core::ops::Mul<KnownWord> for KnownWord { type Output = KnownWord; fn mul(self, _r: KnownWord) -> KnownWord { unimplemented!() } }
    impl core::ops::Sub<KnownWord> for KnownWord { type Output = KnownWord; fn sub(self, _r: KnownWord) -> KnownWord { unimplemented!() } }
    impl core::ops::Div<KnownWord> for KnownWord { type Output = KnownWord; fn div(self, _r: KnownWord) -> KnownWord { unimplemented!() } }
    impl core::ops::Rem<KnownWord> for KnownWord { type Output = KnownWord; fn rem(self, _r: KnownWord) -> KnownWord { unimplemented!() } }
    impl core::ops::BitAnd<KnownWord> for KnownWord { type Output = KnownWord; fn bitand(self, _r: KnownWord) -> KnownWord { unimplemented!() } }
    impl core::ops::BitOr<KnownWord> for KnownWord { type Output = KnownWord; fn bitor(self, _r: KnownWord) -> KnownWord { unimplemented!() } }
    impl core::ops::BitXor<KnownWord> for KnownWord { type Output = KnownWord; fn bitxor(self, _r: KnownWord) -> KnownWord { unimplemented!() } }
    impl core::ops::Shl<KnownWord> for KnownWord { type Output = KnownWord; fn shl(self, _r: KnownWord) -> KnownWord { unimplemented!() } }
    impl core::ops::Shr<KnownWord> for KnownWord { type Output = KnownWord; fn shr(self, _r: KnownWord) -> KnownWord { unimplemented!() } }
    impl core::ops::Not for KnownWord { type Output = KnownWord; fn not(self) -> KnownWord { unimplemented!() } }
    impl From<bool> for KnownWord { fn from(_b: bool) -> KnownWord { unimplemented!() } }
}
use ext::{Uuid, KnownWord};
verus! {
#[verifier::external_type_specification]
#[verifier::external_body]
pub struct ExUuid(Uuid);
#[verifier::external_type_specification]
#[verifier::external_body]
pub struct ExKnownWord(KnownWord);

pub uninterp spec fn k_signed_div(a: KnownWord, b: KnownWord) -> KnownWord;
pub assume_specification [KnownWord::signed_div] (a: KnownWord, b: KnownWord) -> (r: KnownWord) ensures r == k_signed_div(a,b);
pub uninterp spec fn k_signed_rem(a: KnownWord, b: KnownWord) -> KnownWord;
pub assume_specification [KnownWord::signed_rem] (a: KnownWord, b: KnownWord) -> (r: KnownWord) ensures r == k_signed_rem(a,b);
pub uninterp spec fn k_exp(a: KnownWord, b: KnownWord) -> KnownWord;
pub assume_specification [KnownWord::exp] (a: KnownWord, b: KnownWord) -> (r: KnownWord) ensures r == k_exp(a,b);
pub uninterp spec fn k_lt(a: KnownWord, b: KnownWord) -> KnownWord;
pub assume_specification [KnownWord::lt] (a: KnownWord, b: KnownWord) -> (r: KnownWord) ensures r == k_lt(a,b);
pub uninterp spec fn k_gt(a: KnownWord, b: KnownWord) -> KnownWord;
pub assume_specification [KnownWord::gt] (a: KnownWord, b: KnownWord) -> (r: KnownWord) ensures r == k_gt(a,b);
pub uninterp spec fn k_signed_lt(a: KnownWord, b: KnownWord) -> KnownWord;
pub assume_specification [KnownWord::signed_lt] (a: KnownWord, b: KnownWord) -> (r: KnownWord) ensures r == k_signed_lt(a,b);
pub uninterp spec fn k_signed_gt(a: KnownWord, b: KnownWord) -> KnownWord;
pub assume_specification [KnownWord::signed_gt] (a: KnownWord, b: KnownWord) -> (r: KnownWord) ensures r == k_signed_gt(a,b);
pub uninterp spec fn k_sar(a: KnownWord, b: KnownWord) -> KnownWord;
pub assume_specification [KnownWord::sar] (a: KnownWord, b: KnownWord) -> (r: KnownWord) ensures r == k_sar(a,b);
pub uninterp spec fn k_is_zero(a: KnownWord) -> KnownWord;
pub assume_specification [KnownWord::is_zero] (a: KnownWord) -> (r: KnownWord) ensures r == k_is_zero(a);
pub uninterp spec fn k_add(a: KnownWord, b: KnownWord) -> KnownWord;
impl vstd::std_specs::ops::AddSpecImpl<KnownWord> for KnownWord {
    open spec fn obeys_add_spec() -> bool { true }
    open spec fn add_req(self, rhs: KnownWord) -> bool { true }
    open spec fn add_spec(self, rhs: KnownWord) -> KnownWord { k_add(self, rhs) }
}
pub assume_specification[ <KnownWord as core::ops::Add<KnownWord>>::add ](a: KnownWord, b: KnownWord) -> (r: KnownWord);
pub uninterp spec fn k_mul(a: KnownWord, b: KnownWord) -> KnownWord;
impl vstd::std_specs::ops::MulSpecImpl<KnownWord> for KnownWord {
    open spec fn obeys_mul_spec() -> bool { true }
    open spec fn mul_req(self, rhs: KnownWord) -> bool { true }
    open spec fn mul_spec(self, rhs: KnownWord) -> KnownWord { k_mul(self, rhs) }
}
pub assume_specification[ <KnownWord as core::ops::Mul<KnownWord>>::mul ](a: KnownWord, b: KnownWord) -> (r: KnownWord);
pub uninterp spec fn k_sub(a: KnownWord, b: KnownWord) -> KnownWord;
impl vstd::std_specs::ops::SubSpecImpl<KnownWord> for KnownWord {
    open spec fn obeys_sub_spec() -> bool { true }
    open spec fn sub_req(self, rhs: KnownWord) -> bool { true }
    open spec fn sub_spec(self, rhs: KnownWord) -> KnownWord { k_sub(self, rhs) }
}
pub assume_specification[ <KnownWord as core::ops::Sub<KnownWord>>::sub ](a: KnownWord, b: KnownWord) -> (r: KnownWord);
pub uninterp spec fn k_div(a: KnownWord, b: KnownWord) -> KnownWord;
impl vstd::std_specs::ops::DivSpecImpl<KnownWord> for KnownWord {
    open spec fn obeys_div_spec() -> bool { true }
    open spec fn div_req(self, rhs: KnownWord) -> bool { true }
    open spec fn div_spec(self, rhs: KnownWord) -> KnownWord { k_div(self, rhs) }
}
pub assume_specification[ <KnownWord as core::ops::Div<KnownWord>>::div ](a: KnownWord, b: KnownWord) -> (r: KnownWord);
pub uninterp spec fn k_rem(a: KnownWord, b: KnownWord) -> KnownWord;
impl vstd::std_specs::ops::RemSpecImpl<KnownWord> for KnownWord {
    open spec fn obeys_rem_spec() -> bool { true }
    open spec fn rem_req(self, rhs: KnownWord) -> bool { true }
    open spec fn rem_spec(self, rhs: KnownWord) -> KnownWord { k_rem(self, rhs) }
}
pub assume_specification[ <KnownWord as core::ops::Rem<KnownWord>>::rem ](a: KnownWord, b: KnownWord) -> (r: KnownWord);
pub uninterp spec fn k_bitand(a: KnownWord, b: KnownWord) -> KnownWord;
impl vstd::std_specs::ops::BitAndSpecImpl<KnownWord> for KnownWord {
    open spec fn obeys_bitand_spec() -> bool { true }
    open spec fn bitand_req(self, rhs: KnownWord) -> bool { true }
    open spec fn bitand_spec(self, rhs: KnownWord) -> KnownWord { k_bitand(self, rhs) }
}
pub assume_specification[ <KnownWord as core::ops::BitAnd<KnownWord>>::bitand ](a: KnownWord, b: KnownWord) -> (r: KnownWord);
pub uninterp spec fn k_bitor(a: KnownWord, b: KnownWord) -> KnownWord;
impl vstd::std_specs::ops::BitOrSpecImpl<KnownWord> for KnownWord {
    open spec fn obeys_bitor_spec() -> bool { true }
    open spec fn bitor_req(self, rhs: KnownWord) -> bool { true }
    open spec fn bitor_spec(self, rhs: KnownWord) -> KnownWord { k_bitor(self, rhs) }
}
pub assume_specification[ <KnownWord as core::ops::BitOr<KnownWord>>::bitor ](a: KnownWord, b: KnownWord) -> (r: KnownWord);
pub uninterp spec fn k_bitxor(a: KnownWord, b: KnownWord) -> KnownWord;
impl vstd::std_specs::ops::BitXorSpecImpl<KnownWord> for KnownWord {
    open spec fn obeys_bitxor_spec() -> bool { true }
    open spec fn bitxor_req(self, rhs: KnownWord) -> bool { true }
    open spec fn bitxor_spec(self, rhs: KnownWord) -> KnownWord { k_bitxor(self, rhs) }
}
pub assume_specification[ <KnownWord as core::ops::BitXor<KnownWord>>::bitxor ](a: KnownWord, b: KnownWord) -> (r: KnownWord);
pub uninterp spec fn k_shl(a: KnownWord, b: KnownWord) -> KnownWord;
impl vstd::std_specs::ops::ShlSpecImpl<KnownWord> for KnownWord {
    open spec fn obeys_shl_spec() -> bool { true }
    open spec fn shl_req(self, rhs: KnownWord) -> bool { true }
    open spec fn shl_spec(self, rhs: KnownWord) -> KnownWord { k_shl(self, rhs) }
}
pub assume_specification[ <KnownWord as core::ops::Shl<KnownWord>>::shl ](a: KnownWord, b: KnownWord) -> (r: KnownWord);
pub uninterp spec fn k_shr(a: KnownWord, b: KnownWord) -> KnownWord;
impl vstd::std_specs::ops::ShrSpecImpl<KnownWord> for KnownWord {
    open spec fn obeys_shr_spec() -> bool { true }
    open spec fn shr_req(self, rhs: KnownWord) -> bool { true }
    open spec fn shr_spec(self, rhs: KnownWord) -> KnownWord { k_shr(self, rhs) }
}
pub assume_specification[ <KnownWord as core::ops::Shr<KnownWord>>::shr ](a: KnownWord, b: KnownWord) -> (r: KnownWord);
pub uninterp spec fn k_not(a: KnownWord) -> KnownWord;
impl vstd::std_specs::ops::NotSpecImpl for KnownWord {
    open spec fn obeys_not_spec() -> bool { true }
    open spec fn not_req(self) -> bool { true }
    open spec fn not_spec(self) -> KnownWord { k_not(self) }
}
pub assume_specification[ <KnownWord as core::ops::Not>::not ](a: KnownWord) -> (r: KnownWord);
pub uninterp spec fn k_from_bool(b: bool) -> KnownWord;
pub assume_specification[ <KnownWord as core::convert::From<bool>>::from ](b: bool) -> (r: KnownWord) ensures r == k_from_bool(b);
pub assume_specification[ <KnownWord as core::cmp::PartialEq>::eq ](a: &KnownWord, b: &KnownWord) -> (r: bool) ensures r == (*a == *b);

pub enum Provenance { Synthetic, Execution, Bytecode }

pub type BoxedVal<AuxData> = Arc<SymbolicValue<AuxData>>;
pub type SVD<AuxData> = SymbolicValueData<AuxData>;
pub type RuntimeBoxedVal = BoxedVal<()>;
pub type RSVD = SVD<()>;
pub type RSV = SymbolicValue<()>;

pub struct SymbolicValue<AuxData> {
    instruction_pointer: u32,

    provenance: Provenance,

    data: SymbolicValueData<AuxData>,

    aux_data: AuxData,

    size: usize,
}
pub struct PackedSpan<AuxData> {
    pub offset: usize,

    pub size: usize,

    pub value: BoxedVal<AuxData>,
}
pub enum SymbolicValueData<AuxData> {
    Value { id: Uuid },

    KnownData { value: KnownWord },

    Add { left: BoxedVal<AuxData>, right: BoxedVal<AuxData> },

    Multiply { left: BoxedVal<AuxData>, right: BoxedVal<AuxData> },

    Subtract { left: BoxedVal<AuxData>, right: BoxedVal<AuxData> },

    Divide { dividend: BoxedVal<AuxData>, divisor: BoxedVal<AuxData> },

    SignedDivide { dividend: BoxedVal<AuxData>, divisor: BoxedVal<AuxData> },

    Modulo { dividend: BoxedVal<AuxData>, divisor: BoxedVal<AuxData> },

    SignedModulo { dividend: BoxedVal<AuxData>, divisor: BoxedVal<AuxData> },

    Exp { value: BoxedVal<AuxData>, exponent: BoxedVal<AuxData> },

    SignExtend { size: BoxedVal<AuxData>, value: BoxedVal<AuxData> },

    CallWithValue {
        gas:           BoxedVal<AuxData>,
        address:       BoxedVal<AuxData>,
        value:         BoxedVal<AuxData>,
        argument_data: BoxedVal<AuxData>,
        ret_offset:    BoxedVal<AuxData>,
        ret_size:      BoxedVal<AuxData>,
    },

    CallWithoutValue {
        gas:           BoxedVal<AuxData>,
        address:       BoxedVal<AuxData>,
        argument_data: BoxedVal<AuxData>,
        ret_offset:    BoxedVal<AuxData>,
        ret_size:      BoxedVal<AuxData>,
    },

    Sha3 { data: BoxedVal<AuxData> },

    Address,

    Balance { address: BoxedVal<AuxData> },

    Origin,

    Caller,

    CallValue,

    GasPrice,

    ExtCodeHash { address: BoxedVal<AuxData> },

    BlockHash { block_number: BoxedVal<AuxData> },

    CoinBase,

    BlockTimestamp,

    BlockNumber,

    Prevrandao,

    GasLimit,

    ChainId,

    SelfBalance,

    BaseFee,

    Gas,

    Log { data: BoxedVal<AuxData>, topics: Vec<BoxedVal<AuxData>> },

    Create { value: BoxedVal<AuxData>, data: BoxedVal<AuxData> },

    Create2 {
        value: BoxedVal<AuxData>,
        salt:  BoxedVal<AuxData>,
        data:  BoxedVal<AuxData>,
    },

    SelfDestruct { target: BoxedVal<AuxData> },

    LessThan { left: BoxedVal<AuxData>, right: BoxedVal<AuxData> },

    GreaterThan { left: BoxedVal<AuxData>, right: BoxedVal<AuxData> },

    SignedLessThan { left: BoxedVal<AuxData>, right: BoxedVal<AuxData> },

    SignedGreaterThan { left: BoxedVal<AuxData>, right: BoxedVal<AuxData> },

    Equals { left: BoxedVal<AuxData>, right: BoxedVal<AuxData> },

    IsZero { number: BoxedVal<AuxData> },

    And { left: BoxedVal<AuxData>, right: BoxedVal<AuxData> },

    Or { left: BoxedVal<AuxData>, right: BoxedVal<AuxData> },

    Xor { left: BoxedVal<AuxData>, right: BoxedVal<AuxData> },

    Not { value: BoxedVal<AuxData> },

    LeftShift { shift: BoxedVal<AuxData>, value: BoxedVal<AuxData> },

    RightShift { shift: BoxedVal<AuxData>, value: BoxedVal<AuxData> },

    ArithmeticRightShift { shift: BoxedVal<AuxData>, value: BoxedVal<AuxData> },

    CallData { id: Uuid, offset: BoxedVal<AuxData>, size: BoxedVal<AuxData> },

    CallDataSize,

    CodeCopy { offset: BoxedVal<AuxData>, size: BoxedVal<AuxData> },

    ExtCodeSize { address: BoxedVal<AuxData> },

    ExtCodeCopy {
        address: BoxedVal<AuxData>,
        offset:  BoxedVal<AuxData>,
        size:    BoxedVal<AuxData>,
    },

    ReturnData { offset: BoxedVal<AuxData>, size: BoxedVal<AuxData> },

    Return { data: BoxedVal<AuxData> },

    Revert { data: BoxedVal<AuxData> },

    UnwrittenStorageValue { key: BoxedVal<AuxData> },

    SLoad { key: BoxedVal<AuxData>, value: BoxedVal<AuxData> },

    StorageSlot { key: BoxedVal<AuxData> },

    StorageWrite { key: BoxedVal<AuxData>, value: BoxedVal<AuxData> },

    Concat { values: Vec<BoxedVal<AuxData>> },

    MappingIndex {
        slot:       BoxedVal<AuxData>,
        key:        BoxedVal<AuxData>,
        projection: Option<usize>,
    },

    DynamicArrayIndex { slot: BoxedVal<AuxData>, index: BoxedVal<AuxData> },

    SubWord { value: BoxedVal<AuxData>, offset: usize, size: usize },

    Shifted { offset: usize, value: BoxedVal<AuxData> },

    Packed { elements: Vec<PackedSpan<AuxData>> },
}

impl<AuxData> SymbolicValue<AuxData> {
    pub closed spec fn sz(&self) -> usize { self.size }
    pub closed spec fn dt(&self) -> SymbolicValueData<AuxData> { self.data }
    pub fn size(&self) -> (r: usize) ensures r == self.sz() { self.size }
    pub fn data(&self) -> (r: &SymbolicValueData<AuxData>) ensures *r == self.dt() { &self.data }
pub fn as_word(&self) -> (r: Option<KnownWord>) ensures r == aw(*self) {
        match &self.data {
            SymbolicValueData::KnownData { value } => Some(*value),
            _ => None,
        }
    }
}
impl<AuxData> SymbolicValueData<AuxData> {
    pub fn new_known(value: KnownWord) -> (r: Self) ensures r == (SymbolicValueData::<AuxData>::KnownData { value }) {
        SymbolicValueData::KnownData { value }
    }
    #[verifier::external_body]
    pub fn new_value() -> (r: Self) ensures r is Value { unimplemented!() }
    #[verifier::external_body]
    pub fn child_size(&self) -> (r: usize) ensures r == spec_child_size(*self) { unimplemented!() }
}
pub uninterp spec fn spec_child_size<A>(d: SymbolicValueData<A>) -> usize;

impl RSV {
pub fn new(
        instruction_pointer: u32,
        data: RSVD,
        provenance: Provenance,
        value_size_limit: Option<usize>,
    ) -> (r: RuntimeBoxedVal)
        requires spec_child_size(data) < usize::MAX,
        ensures
            r.sz() == spec_child_size(r.dt()) + 1,
            match value_size_limit { Some(limit) => (r.dt() == data) == (spec_child_size(data) + 1 <= limit), None => r.dt() == data },
    {
        let size = data.child_size() + 1;
        let data = if let Some(limit) = value_size_limit {
            if size > limit {
                RSVD::new_value()
            } else {
                data
            }
        } else {
            data
        };

        Arc::new(Self {
            instruction_pointer,
            provenance,
            data,
            aux_data: (),
            size,
        })
    }
}
impl<AuxData> SymbolicValue<AuxData> {
    #[verifier::external_body]
    pub fn transform_data(
        &self,
        transform: impl Fn(&SymbolicValueData<AuxData>) -> Option<SymbolicValueData<AuxData>> + Copy,
    ) -> (r: Arc<Self>)
        ensures *r == tx(*self)
    { unimplemented!() }
}
pub uninterp spec fn tx<A>(v: SymbolicValue<A>) -> SymbolicValue<A>;

impl<AuxData> SymbolicValue<AuxData> {
    #[verifier::external_body]
    pub fn tx_exec(&self) -> (r: Arc<Self>) ensures *r == tx(*self) { unimplemented!() }
}
pub open spec fn aw<A>(v: SymbolicValue<A>) -> Option<KnownWord> { match v.dt() { SymbolicValueData::KnownData { value } => Some(value), _ => None } }
impl<AuxData> Clone for SymbolicValueData<AuxData> {
    #[verifier::external_body]
    fn clone(&self) -> (r: Self) ensures r == *self { unimplemented!() }
}

impl<AuxData> SymbolicValue<AuxData> {
    #[verifier::external_body]
    pub fn transform_data2<F: Fn(&SymbolicValueData<AuxData>) -> Option<SymbolicValueData<AuxData>> + Copy>(self: Arc<Self>, transform: F) -> (r: Arc<Self>)
    { unimplemented!() }
}
fn guard_mapping_accesses(data: &RSVD) -> (r: Option<RSVD>)
    ensures r is Some ==> (*data is StorageWrite || *data is SLoad || *data is UnwrittenStorageValue),
            r is Some && *data is StorageWrite ==> r->Some_0 is StorageWrite,
            r is Some && *data is SLoad ==> r->Some_0 is SLoad,
            r is Some && *data is UnwrittenStorageValue ==> r->Some_0 is UnwrittenStorageValue,
{
            match data {
                RSVD::StorageWrite { key, value } => Some(RSVD::StorageWrite {
                    key:   key.clone().transform_data(insert_mapping_accesses),
                    value: value.clone().transform_data(insert_mapping_accesses),
                }),
                RSVD::SLoad { key, value } => Some(RSVD::SLoad {
                    key:   key.clone().transform_data(insert_mapping_accesses),
                    value: value.clone().transform_data(insert_mapping_accesses),
                }),
                RSVD::UnwrittenStorageValue { key } => Some(RSVD::UnwrittenStorageValue {
                    key: key.clone().transform_data(insert_mapping_accesses),
                }),
                _ => None,
            }
        }
#[verifier::external_body]
fn insert_mapping_accesses(data: &RSVD) -> Option<RSVD> { unimplemented!() }
}
fn main() {}
