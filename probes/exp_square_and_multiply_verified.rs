use vstd::prelude::*;
use vstd::arithmetic::power::*;
use vstd::arithmetic::div_mod::*;
use vstd::arithmetic::mul::*;
mod ethnum {
    #[derive(Clone, Copy, PartialEq, Eq)]
    pub struct U256(pub [u128; 2]);
    impl U256 {
        pub fn wrapping_mul(self, _r: U256) -> U256 { unimplemented!() }
        pub fn is_odd(self) -> bool { unimplemented!() }
        pub fn half(self) -> U256 { unimplemented!() }
        pub fn is_zero(self) -> bool { unimplemented!() }
        pub fn one() -> U256 { unimplemented!() }
    }
}
use ethnum::U256;
verus! {
#[verifier::external_type_specification] #[verifier::external_body] pub struct ExU256(U256);
pub uninterp spec fn u(x: U256) -> nat;
pub open spec fn M() -> nat { 0x1_0000000000000000_0000000000000000_0000000000000000_0000000000000000nat }
pub broadcast axiom fn u_range(x: U256) ensures #[trigger] u(x) < M();
pub assume_specification[ U256::wrapping_mul ](a: U256, b: U256) -> (r: U256) ensures u(r) == (u(a) * u(b)) % M();
// stand-ins for `e & 1 != 0`, `e >>= 1`, `e != 0`, `U256::from(1u8)` (each is an A-ETHNUM contract in the real unit)
pub assume_specification[ U256::is_odd ](a: U256) -> (r: bool) ensures r == (u(a) % 2 == 1);
pub assume_specification[ U256::half ](a: U256) -> (r: U256) ensures u(r) == u(a) / 2;
pub assume_specification[ U256::is_zero ](a: U256) -> (r: bool) ensures r == (u(a) == 0);
pub assume_specification[ U256::one ]() -> (r: U256) ensures u(r) == 1;

pub open spec fn evm_exp(a: nat, e: nat) -> nat { (pow(a as int, e) % (M() as int)) as nat }

proof fn lemma_step(r: nat, b: nat, e: nat)
    requires e > 0
    ensures
        e % 2 == 1 ==> (r * pow(b as int, e)) % (M() as int) == ((((r * b) % M()) as int) * pow((((b * b) % M()) as int), e / 2)) % (M() as int),
        e % 2 == 0 ==> (r * pow(b as int, e)) % (M() as int) == ((r as int) * pow((((b * b) % M()) as int), e / 2)) % (M() as int),
{
    let m = M() as int;
    let bi = b as int;
    let h = e / 2;
    // pow(b, 2h) == pow(b*b, h)
    lemma_pow_multiplies(bi, 2, h);
    assert(pow(bi, 2) == bi * bi) by { reveal(pow); lemma_pow1(bi); assert(pow(bi, 2) == bi * pow(bi, 1)); }
    // pow(bb mod m, h) ≡ pow(bb, h)  (mod m)
    lemma_pow_mod_noop(bi * bi, h, m);
    if e % 2 == 1 {
        assert(e == 2 * h + 1);
        lemma_pow_adds(bi, 1, 2 * h);
        lemma_pow1(bi);
        assert(pow(bi, e) == bi * pow(bi * bi, h)) by { assert(pow(bi, (1 + 2 * h) as nat) == pow(bi, 1) * pow(bi, (2 * h) as nat)); }
        // (r * b * X) mod m == ((r*b mod m) * (X' )) mod m where X' ≡ X
        let x = pow(bi * bi, h);
        let x2 = pow((bi * bi) % m, h);
        assert(x % m == x2 % m);
        assert((r * (bi * x)) == (r * bi) * x) by(nonlinear_arith);
        lemma_mul_mod_noop_general(r * bi, x, m);
        lemma_mul_mod_noop_general(((r * bi) % m), x2, m);
        lemma_mul_mod_noop_general(r * bi, x2, m);
    } else {
        assert(e == 2 * h);
        let x = pow(bi * bi, h);
        let x2 = pow((bi * bi) % m, h);
        assert(pow(bi, e) == x);
        assert(x % m == x2 % m);
        lemma_mul_mod_noop_general(r as int, x, m);
        lemma_mul_mod_noop_general(r as int, x2, m);
    }
}

/// the body of the repaired `KnownWord::exp` over the abstract word
pub fn exp_loop(a: U256, e: U256) -> (res: U256)
    ensures u(res) == evm_exp(u(a), u(e))
{
    broadcast use u_range;
    let mut result = U256::one();
    let mut base = a;
    let mut exponent = e;
    proof {
        assert((1 * pow(u(a) as int, u(e))) % (M() as int) == pow(u(a) as int, u(e)) % (M() as int)) by { lemma_mul_basics(pow(u(a) as int, u(e))); }
    }
    while !exponent.is_zero()
        invariant
            (u(result) * pow(u(base) as int, u(exponent))) % (M() as int) == pow(u(a) as int, u(e)) % (M() as int),
        decreases u(exponent)
    {
        proof { lemma_step(u(result), u(base), u(exponent)); }
        if exponent.is_odd() {
            result = result.wrapping_mul(base);
        }
        base = base.wrapping_mul(base);
        exponent = exponent.half();
    }
    proof {
        lemma_pow0(u(base) as int);
        assert(u(result) * 1 == u(result)) by(nonlinear_arith);
        lemma_small_mod(u(result), M());
        lemma_pow_positive(u(a) as int + 1, u(e));
    }
    result
}
}
fn main() {}
