use storage_layout_extractor as sle;
use sle::{
    data::{combine::Combine, disjoint_set::DisjointSet},
    disassembly::InstructionStream,
    vm::{Config, VM},
    watchdog::LazyWatchdog,
};

#[derive(Clone, Debug, Default, Eq, PartialEq)]
struct Bag(Vec<u8>);
impl Combine for Bag {
    fn combine(self, other: Self) -> Self { let mut v = self.0; v.extend(other.0); v.sort(); Bag(v) }
    fn identity() -> Self { Bag(vec![]) }
}

#[test]
fn probes2() {
    // D14
    let code: Vec<u8> = vec![0x5b, 0x36, 0x60, 0x00, 0x57, 0x00];
    let is = InstructionStream::try_from(code.as_slice()).unwrap();
    let mut vm = VM::new(is, Config::default(), LazyWatchdog.in_rc()).unwrap();
    let r = vm.execute();
    let res = vm.consume();
    let mut maxc = 0; let mut n = 0;
    for st in &res.states { n += 1; for ip in 0..code.len() as u32 { maxc = maxc.max(st.visited_instructions().visit_count(ip).unwrap()); } }
    println!("D14 exec ok={} states={} max visit count={} (limit 10)", r.is_ok(), n, maxc);
    let mut per0 = vec![]; for st in &res.states { per0.push(st.visited_instructions().visit_count(0).unwrap()); }
    println!("D14 visit_count(0) per state = {:?}", per0);

    // DisjointSet re-insert
    let mut ds: DisjointSet<usize, Bag> = DisjointSet::new();
    ds.insert(1); ds.insert(2);
    ds.add_data(&1, Bag(vec![1])); ds.add_data(&2, Bag(vec![2]));
    ds.union(&1, &2);
    println!("DS find(2) after union = {}", ds.find(&2));
    ds.insert(2);
    println!("DS find(2) after re-insert = {} data(2)={:?}", ds.find(&2), ds.get_data(&2));
    // union(a,a)
    let mut ds: DisjointSet<usize, Bag> = DisjointSet::new();
    ds.insert(1); ds.add_data(&1, Bag(vec![7]));
    ds.union(&1, &1);
    println!("DS union(1,1) data = {:?}", ds.get_data(&1));
    // union of already joined
    let mut ds: DisjointSet<usize, Bag> = DisjointSet::new();
    ds.insert(1); ds.insert(2); ds.add_data(&1, Bag(vec![1])); ds.add_data(&2, Bag(vec![2]));
    ds.union(&1, &2); ds.union(&2, &1);
    println!("DS union twice data = {:?} sets={:?}", ds.get_data(&1).cloned(), ds.sets());
}
