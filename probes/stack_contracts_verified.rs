use vstd::prelude::*;
verus! {
pub assume_specification<T> [<[T]>::swap] (s: &mut [T], a: usize, b: usize)
    requires a < old(s)@.len(), b < old(s)@.len(),
    ensures final(s)@ == old(s)@.update(a as int, old(s)@[b as int]).update(b as int, old(s)@[a as int]);
pub const MAXIMUM_STACK_DEPTH: usize = 1024;
pub struct RuntimeBoxedVal(u64);
impl Clone for RuntimeBoxedVal { #[verifier::external_body] fn clone(&self) -> (r: Self) ensures r == *self { unimplemented!() } }
pub enum Error { StackDepthExceeded { requested: usize }, NoSuchStackFrame { depth: i64 } }
pub type StackResult<T> = std::result::Result<T, Error>;
pub struct Stack { data: Vec<RuntimeBoxedVal> }
impl Stack {
pub closed spec fn view(&self) -> Seq<RuntimeBoxedVal> { self.data@ }
    pub fn push(&mut self, data: RuntimeBoxedVal) -> (r: StackResult<()>)
        ensures old(self)@.len() < 1024 ==> r is Ok && final(self)@ == old(self)@.push(data),
                old(self)@.len() >= 1024 ==> r is Err && final(self)@ == old(self)@,
    {
        if self.data.len() + 1 > MAXIMUM_STACK_DEPTH {
            return Err(Error::StackDepthExceeded {
                requested: self.data.len() + 1,
            });
        }
        self.data.push(data);
        Ok(())
    }
pub fn pop(&mut self) -> (r: StackResult<RuntimeBoxedVal>)
        ensures old(self)@.len() > 0 ==> r is Ok && r->Ok_0 == old(self)@.last() && final(self)@ == old(self)@.drop_last(),
                old(self)@.len() == 0 ==> r is Err && final(self)@ == old(self)@,
    {
        self.data.pop().ok_or(Error::NoSuchStackFrame { depth: 0 })
    }
pub fn read(&self, depth: u32) -> StackResult<&RuntimeBoxedVal> {
        self.check_frame_at(depth)?;

        // This is a safe unsigned subtraction as `check_frame_at will have returned
        // error if `depth` exceeds the current size.
        let index = self.top_frame_index()? - depth as usize;

        // This is safe as `check_frame_at` will have returned if no such stack depth
        // can be found.
        Ok(&self.data[index])
    }
pub fn duplicate(&mut self, frame: u32) -> (r: StackResult<()>)
        ensures (frame as int) < old(self)@.len() && old(self)@.len() < 1024 ==> r is Ok && final(self)@ == old(self)@.push(old(self)@[old(self)@.len() - 1 - frame]),
                (frame as int) >= old(self)@.len() ==> r is Err && final(self)@ == old(self)@,
    {
        self.check_frame_at(frame)?;
        let index = self.top_frame_index()? - frame as usize;

        // This is safe as the access is guarded by `check_frame_at`.
        let value = self.data[index].clone();

        self.push(value)
    }
pub fn swap(&mut self, frame: u32) -> (r: StackResult<()>)
        ensures (frame as int) < old(self)@.len() ==> r is Ok && final(self)@ == old(self)@.update(old(self)@.len() - 1, old(self)@[old(self)@.len() - 1 - frame]).update(old(self)@.len() - 1 - frame, old(self)@.last()),
                (frame as int) >= old(self)@.len() ==> r is Err && final(self)@ == old(self)@,
    {
        let top_frame = self.top_frame_index()?;
        self.check_frame_at(0)?;
        self.check_frame_at(frame)?;
        let frame_index = top_frame - frame as usize;

        self.data.swap(top_frame, frame_index);

        Ok(())
    }
pub fn depth(&self) -> usize {
        self.data.len()
    }
fn check_frame_at(&self, depth: u32) -> (r: StackResult<()>)
        ensures r is Ok == ((depth as int) < self@.len())
    {
        let current_depth = self.data.len();

        if depth as usize >= current_depth {
            return Err(Error::NoSuchStackFrame {
                depth: i64::from(depth),
            });
        }

        Ok(())
    }
fn top_frame_index(&self) -> (r: StackResult<usize>)
        ensures self@.len() > 0 ==> r is Ok && r->Ok_0 == self@.len() - 1, self@.len() == 0 ==> r is Err
    {
        if self.data.is_empty() {
            return Err(Error::NoSuchStackFrame { depth: -1 });
        }

        Ok(self.data.len() - 1)
    }
}
}
fn main() {}
