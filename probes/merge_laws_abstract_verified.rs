use vstd::prelude::*;
verus! {
#[derive(Copy, Clone, PartialEq, Eq, Structural)]
pub enum WordUse { Bytes, Numeric, UnsignedNumeric, SignedNumeric, Bool, Address, Selector, Function }

pub open spec fn leq(a: WordUse, b: WordUse) -> bool {
    a == b || a == WordUse::Bytes
    || (a == WordUse::Numeric && (b == WordUse::UnsignedNumeric || b == WordUse::SignedNumeric || b == WordUse::Address))
    || (a == WordUse::UnsignedNumeric && b == WordUse::Address)
}
pub open spec fn use_merge(a: WordUse, b: WordUse) -> Option<WordUse> { if leq(a, b) { Some(b) } else if leq(b, a) { Some(a) } else { None } }
pub open spec fn signed(u: WordUse) -> bool { u == WordUse::SignedNumeric }

/// abstraction of TypeExpression: conflict payloads and packed details forgotten
pub enum A {
    Any, Bytes,
    Word { width: Option<usize>, usage: WordUse },
    Fixed { element: int, length: int },
    Map { key: int, value: int },
    Dyn { element: int },
    Conflict,
}

/// expression part of merge on the non-packed fragment, transcribed from the contract that the
/// real `merge` is proved against (unit `merge`)
pub open spec fn sm(l: A, r: A) -> A {
    if l == r { l } else {
    match (l, r) {
        (A::Conflict, _) => A::Conflict,
        (_, A::Conflict) => A::Conflict,
        (A::Word { width: wl, usage: ul }, A::Word { width: wr, usage: ur }) => {
            if wl is Some && wr is Some && wl != wr { A::Conflict }
            else {
                let w = if wl is Some { wl } else { wr };
                match use_merge(ul, ur) { Some(u) => A::Word { width: w, usage: u }, None => A::Conflict }
            }
        },
        (A::Word { usage, .. }, A::Bytes) => if !signed(usage) { A::Bytes } else { A::Conflict },
        (A::Bytes, A::Word { usage, .. }) => if !signed(usage) { A::Bytes } else { A::Conflict },
        (A::Dyn { .. }, A::Bytes) => A::Bytes,
        (A::Bytes, A::Dyn { .. }) => A::Bytes,
        (A::Word { usage, .. }, A::Dyn { .. }) => if signed(usage) { A::Conflict } else { r },
        (A::Dyn { .. }, A::Word { usage, .. }) => if signed(usage) { A::Conflict } else { l },
        (A::Dyn { .. }, A::Dyn { .. }) => l,
        (A::Fixed { length: ll, .. }, A::Fixed { length: lr, .. }) => if ll == lr { l } else { A::Conflict },
        (A::Map { .. }, A::Map { .. }) => l,
        (_, A::Any) => l,
        (A::Any, _) => r,
        _ => A::Conflict,
    } }
}
/// equalities emitted by merge(l, r): is the unordered pair {x,y} emitted?
pub open spec fn em(l: A, r: A, x: int, y: int) -> bool {
    l != r && match (l, r) {
        (A::Dyn { element: a }, A::Dyn { element: b }) => (x == a && y == b) || (x == b && y == a),
        (A::Fixed { element: a, length: ll }, A::Fixed { element: b, length: lr }) => ll == lr && ((x == a && y == b) || (x == b && y == a)),
        (A::Map { key: k1, value: v1 }, A::Map { key: k2, value: v2 }) =>
            (x == k1 && y == k2) || (x == k2 && y == k1) || (x == v1 && y == v2) || (x == v2 && y == v1),
        _ => false,
    }
}
/// representative-insensitive view of a result: constructor + (for words) payload; variables are
/// compared modulo the emitted equalities, so only the shape is kept here
pub open spec fn shape(a: A) -> A {
    match a {
        A::Fixed { length, .. } => A::Fixed { element: 0, length },
        A::Map { .. } => A::Map { key: 0, value: 0 },
        A::Dyn { .. } => A::Dyn { element: 0 },
        _ => a,
    }
}

proof fn symmetry(a: A, b: A)
    ensures shape(sm(a, b)) == shape(sm(b, a)),
            forall|x: int, y: int| em(a, b, x, y) == em(b, a, x, y),
{}

/// the three recorded classes of D12
pub open spec fn clash(w1: A, w2: A) -> bool { w1 is Word && w2 is Word && !signed(w1->usage) && !signed(w2->usage) && sm(w1, w2) is Conflict }
pub open spec fn absorber(x: A) -> bool { x is Bytes || x is Dyn }
pub open spec fn known_d12(a: A, b: A, c: A) -> bool {
    ||| (absorber(a) && clash(b, c)) ||| (absorber(b) && clash(a, c)) ||| (absorber(c) && clash(a, b))
    ||| (a is Bytes && b is Dyn && c is Dyn) ||| (b is Bytes && a is Dyn && c is Dyn) ||| (c is Bytes && a is Dyn && b is Dyn)
}

proof fn assoc_expr(a: A, b: A, c: A)
    ensures shape(sm(sm(a, b), c)) == shape(sm(a, sm(b, c))) || known_d12(a, b, c),
{}

pub open spec fn el(a: A, b: A, c: A, x: int, y: int) -> bool { em(a, b, x, y) || em(sm(a, b), c, x, y) }
pub open spec fn er(a: A, b: A, c: A, x: int, y: int) -> bool { em(b, c, x, y) || em(a, sm(b, c), x, y) }
/// x and y are connected by at most two emitted pairs
pub open spec fn conn2(f: spec_fn(int, int) -> bool, x: int, y: int) -> bool {
    x == y || f(x, y) || exists|z: int| #[trigger] f(x, z) && f(z, y)
}
/// the variables mentioned by an abstract expression (candidates for the middle point)
proof fn assoc_eqs(a: A, b: A, c: A, x: int, y: int)
    requires !(sm(sm(a, b), c) is Conflict), !(sm(a, sm(b, c)) is Conflict), !known_d12(a, b, c),
    ensures
        el(a, b, c, x, y) ==> conn2(|p: int, q: int| er(a, b, c, p, q), x, y),
        er(a, b, c, x, y) ==> conn2(|p: int, q: int| el(a, b, c, p, q), x, y),
{
    let fr = |p: int, q: int| er(a, b, c, p, q);
    let fl = |p: int, q: int| el(a, b, c, p, q);
    // candidate middle points: the component variables of the three operands
    match (a, b, c) {
        (A::Map { key: k1, value: v1 }, A::Map { key: k2, value: v2 }, A::Map { key: k3, value: v3 }) => {
            assert(fr(k1, k2) == er(a, b, c, k1, k2));
            if el(a, b, c, x, y) { assert(fr(x, k2) && fr(k2, y) || fr(x, y) || x == y || fr(x, k1) && fr(k1, y) || fr(x, v1) && fr(v1, y) || fr(x, v2) && fr(v2, y) || fr(x, k3) && fr(k3, y) || fr(x, v3) && fr(v3, y)); }
            if er(a, b, c, x, y) { assert(fl(x, k2) && fl(k2, y) || fl(x, y) || x == y || fl(x, k1) && fl(k1, y) || fl(x, v1) && fl(v1, y) || fl(x, v2) && fl(v2, y) || fl(x, k3) && fl(k3, y) || fl(x, v3) && fl(v3, y)); }
        },
        (A::Dyn { element: e1 }, A::Dyn { element: e2 }, A::Dyn { element: e3 }) => {
            if el(a, b, c, x, y) { assert(fr(x, y) || x == y || fr(x, e1) && fr(e1, y) || fr(x, e2) && fr(e2, y) || fr(x, e3) && fr(e3, y)); }
            if er(a, b, c, x, y) { assert(fl(x, y) || x == y || fl(x, e1) && fl(e1, y) || fl(x, e2) && fl(e2, y) || fl(x, e3) && fl(e3, y)); }
        },
        (A::Fixed { element: e1, .. }, A::Fixed { element: e2, .. }, A::Fixed { element: e3, .. }) => {
            if el(a, b, c, x, y) { assert(fr(x, y) || x == y || fr(x, e1) && fr(e1, y) || fr(x, e2) && fr(e2, y) || fr(x, e3) && fr(e3, y)); }
            if er(a, b, c, x, y) { assert(fl(x, y) || x == y || fl(x, e1) && fl(e1, y) || fl(x, e2) && fl(e2, y) || fl(x, e3) && fl(e3, y)); }
        },
        _ => {},
    }
}
}
fn main() {}
