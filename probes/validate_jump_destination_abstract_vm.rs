use vstd::prelude::*;
use std::sync::Arc;
use std::rc::Rc;
mod ext {
    #[derive(Clone, Copy, PartialEq, Eq)] pub struct U256(pub [u128;2]);
    impl U256 { pub fn as_u32(self) -> u32 { unimplemented!() } }
    pub struct VM; pub struct ExecutionThread;
    pub trait Opcode {}
}
use ext::{U256, VM, ExecutionThread, Opcode};
verus! {
#[verifier::external_type_specification] #[verifier::external_body] pub struct ExU256(U256);
#[verifier::external_type_specification] #[verifier::external_body] pub struct ExVM(VM);
#[verifier::external_type_specification] #[verifier::external_body] pub struct ExET(ExecutionThread);
#[verifier::external_trait_specification] pub trait ExOpcode { type ExternalTraitSpecificationFor: Opcode; }

pub uninterp spec fn u(x: U256) -> nat;
pub assume_specification[ U256::as_u32 ](a: U256) -> (r: u32) ensures r as nat == u(a) % 0x1_0000_0000;

pub type DynOpcode = Rc<dyn Opcode>;

// --- stand-ins for the value tree (in the real unit these are the extracted types) ---
pub struct KnownWord { value: U256 }
impl KnownWord { pub fn value_le(&self) -> (r: U256) ensures u(r) == self.v() { self.value } pub closed spec fn v(self) -> nat { u(self.value) } }
pub enum RSVD { Value { id: u8 }, KnownData { value: KnownWord }, Other }
pub struct RSV { data: RSVD }
pub type RuntimeBoxedVal = Arc<RSV>;
pub uninterp spec fn fold(v: RSV) -> RSV;
impl RSV {
    pub closed spec fn dt(&self) -> RSVD { self.data }
    pub fn data(&self) -> (r: &RSVD) ensures *r == self.dt() { &self.data }
    #[verifier::external_body]
    pub fn constant_fold(&self) -> (r: Arc<RSV>) ensures *r == fold(*self) { unimplemented!() }
}

// --- errors (extracted) ---
pub enum Error { NoConcreteJumpDestination, NonExistentJumpTarget { offset: u32 }, InvalidJumpTarget { offset: u32 }, Other }
pub struct Located { pub location: u32, pub payload: Error }
impl Error { pub fn locate(self, instruction_pointer: u32) -> (r: Located) ensures r.location == instruction_pointer, r.payload == self { Located { location: instruction_pointer, payload: self } } }

// --- abstract VM (A-CALLEE) ---
pub uninterp spec fn vm_ip(vm: VM) -> u32;
pub uninterp spec fn vm_len(vm: VM) -> nat;
pub uninterp spec fn vm_is_jumpdest(vm: VM, i: nat) -> bool;
pub uninterp spec fn th_vm(t: ExecutionThread) -> VM;
pub uninterp spec fn op_is_jumpdest(o: DynOpcode) -> bool;
#[verifier::external_body]
pub fn vm_instruction_pointer(vm: &mut VM) -> (r: Result<u32, Located>) ensures *final(vm) == *old(vm), r is Ok ==> r->Ok_0 == vm_ip(*old(vm)) { unimplemented!() }
#[verifier::external_body]
pub fn thread_instruction(vm: &VM, ip: u32) -> (r: Option<DynOpcode>)
    ensures r is Some == ((ip as nat) < vm_len(*vm)), r is Some ==> op_is_jumpdest(r->Some_0) == vm_is_jumpdest(*vm, ip as nat) { unimplemented!() }
#[verifier::external_body]
pub fn opcode_is_jumpdest(o: &DynOpcode) -> (r: bool) ensures r == op_is_jumpdest(*o) { unimplemented!() }

pub fn validate_jump_destination(counter: &RuntimeBoxedVal, vm: &mut VM) -> (res: Result<u32, Located>)
    ensures
        *final(vm) == *old(vm),
        res is Ok ==> fold(**counter).dt() is KnownData
            && fold(**counter).dt()->value.v() == res->Ok_0 as nat          // the FULL 256-bit value
            && (res->Ok_0 as nat) < vm_len(*old(vm)) && vm_is_jumpdest(*old(vm), res->Ok_0 as nat),
{
    let instruction_pointer = vm_instruction_pointer(vm)?;
    let jump_target = match counter.constant_fold().data() {
        RSVD::KnownData { value, .. } => value.value_le().as_u32(),
        _ => {
            return Err(Error::NoConcreteJumpDestination.locate(instruction_pointer));
        }
    };

    // We need to check that the jump target is valid.
    let target_instruction = match thread_instruction(vm, jump_target) { Some(t) => t, None => return Err(
        Error::NonExistentJumpTarget {
            offset: jump_target,
        }
        .locate(instruction_pointer)) };

    if !opcode_is_jumpdest(&target_instruction) {
        return Err(Error::InvalidJumpTarget {
            offset: jump_target,
        }
        .locate(instruction_pointer));
    }

    Ok(jump_target)
}
}
fn main() {}
