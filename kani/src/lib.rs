//! Kani partner harnesses (thorough tier).  They run the REAL crate with the REAL ethnum on fully
//! symbolic 256-bit operands (two u128 limbs each), loop-free, so a pass is a complete proof over the
//! whole 2^512 domain — and a failure comes with a concrete counterexample.  Their job is to cross-check
//! the A-ETHNUM assumptions the Verus units rest on, for the operations CBMC finishes (div, rem, pow,
//! signed div do not finish and stay assumed).  Oracles are written on 128-bit limbs.
#![allow(dead_code)]
#[cfg(kani)]
mod proofs {
    use ethnum::U256;
    use storage_layout_extractor::vm::value::known::KnownWord;

    fn any_u256() -> U256 { U256::from_words(kani::any(), kani::any()) }
    fn kw(x: U256) -> KnownWord { KnownWord::from_le(x) }
    fn limbs(x: KnownWord) -> (u128, u128) { x.value_le().into_words() }

    #[kani::proof]
    fn kw_add_is_mod_2_256() {
        let (a, b) = (any_u256(), any_u256());
        let (ah, al) = a.into_words();
        let (bh, bl) = b.into_words();
        let (lo, c) = al.overflowing_add(bl);
        let hi = ah.wrapping_add(bh).wrapping_add(c as u128);
        assert!(limbs(kw(a) + kw(b)) == (hi, lo));
    }

    #[kani::proof]
    fn kw_sub_is_mod_2_256() {
        let (a, b) = (any_u256(), any_u256());
        let (ah, al) = a.into_words();
        let (bh, bl) = b.into_words();
        let (lo, br) = al.overflowing_sub(bl);
        let hi = ah.wrapping_sub(bh).wrapping_sub(br as u128);
        assert!(limbs(kw(a) - kw(b)) == (hi, lo));
    }

    #[kani::proof]
    fn kw_bitwise_on_limbs() {
        let (a, b) = (any_u256(), any_u256());
        let (ah, al) = a.into_words();
        let (bh, bl) = b.into_words();
        assert!(limbs(kw(a) & kw(b)) == (ah & bh, al & bl));
        assert!(limbs(kw(a) | kw(b)) == (ah | bh, al | bl));
        assert!(limbs(kw(a) ^ kw(b)) == (ah ^ bh, al ^ bl));
        assert!(limbs(!kw(a)) == (!ah, !al));
    }

    #[kani::proof]
    fn kw_comparisons_on_limbs() {
        let (a, b) = (any_u256(), any_u256());
        let (ah, al) = a.into_words();
        let (bh, bl) = b.into_words();
        let lt = ah < bh || (ah == bh && al < bl);
        let eq = ah == bh && al == bl;
        let one = |c: bool| if c { (0u128, 1u128) } else { (0, 0) };
        assert!(limbs(kw(a).lt(kw(b))) == one(lt));
        assert!(limbs(kw(a).gt(kw(b))) == one(!lt && !eq));
        assert!(limbs(kw(a).eq(kw(b))) == one(eq));
        assert!(limbs(kw(a).is_zero()) == one(ah == 0 && al == 0));
        // signed: flip the sign bit and compare unsigned
        let (sah, sbh) = (ah ^ (1u128 << 127), bh ^ (1u128 << 127));
        let slt = sah < sbh || (sah == sbh && al < bl);
        assert!(limbs(kw(a).signed_lt(kw(b))) == one(slt));
        assert!(limbs(kw(a).signed_gt(kw(b))) == one(!slt && !eq));
    }

    /// shifts never panic, are zero / sign-fill from 256 on, and agree with limb shifts below 128
    #[kani::proof]
    fn kw_shifts_total_and_evm_at_256() {
        let (v, s) = (any_u256(), any_u256());
        let (vh, vl) = v.into_words();
        let l = limbs(kw(v) << kw(s));
        let r = limbs(kw(v) >> kw(s));
        let a = limbs(kw(v).sar(kw(s)));
        if s >= U256::new(256) {
            assert!(l == (0, 0) && r == (0, 0));
            assert!(a == if vh >> 127 == 1 { (u128::MAX, u128::MAX) } else { (0, 0) });
        } else if s == U256::ZERO {
            assert!(l == (vh, vl) && r == (vh, vl) && a == (vh, vl));
        } else if s < U256::new(128) {
            let k = s.as_u32();
            assert!(l == ((vh << k) | (vl >> (128 - k)), vl << k));
            assert!(r == (vh >> k, (vl >> k) | (vh << (128 - k))));
            assert!(a == ((((vh as i128) >> k) as u128), (vl >> k) | (vh << (128 - k))));
        }
    }

    /// multiplication: exact on 64x64-bit operands, identities on the full domain
    #[kani::proof]
    fn kw_mul_small_exact_and_identities() {
        let a = any_u256();
        assert!(limbs(kw(a) * kw(U256::ONE)) == a.into_words());
        assert!(limbs(kw(a) * kw(U256::ZERO)) == (0, 0));
        let (x, y): (u64, u64) = (kani::any(), kani::any());
        assert!(limbs(kw(U256::new(x as u128)) * kw(U256::new(y as u128))) == (0, (x as u128) * (y as u128)));
    }

    /// division and modulo by zero are zero (EVM), never a panic
    #[kani::proof]
    fn kw_div_mod_by_zero_is_zero() {
        let a = any_u256();
        assert!(limbs(kw(a) / kw(U256::ZERO)) == (0, 0));
        assert!(limbs(kw(a) % kw(U256::ZERO)) == (0, 0));
        assert!(limbs(kw(a).signed_div(kw(U256::ZERO))) == (0, 0));
        assert!(limbs(kw(a).signed_rem(kw(U256::ZERO))) == (0, 0));
    }
}
