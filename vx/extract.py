"""Source scanner and item locator.

Everything here works on text spans of the repository's .rs files.  Items are located by a
*path* of header segments ("impl<K, V> VectorMap<K, V>|fn insert"), never by line number.
A lost or ambiguous anchor raises Undecided -> exit 2 (never a violation).
"""
import re


class Undecided(Exception):
    """Raised when the machinery cannot decide (lost anchor, unsupported text, tool limit)."""


def blank(src):
    """Return src with comments, string and char literals blanked (same length, newlines kept)."""
    out = list(src)
    i, n = 0, len(src)

    def fill(a, b):
        for k in range(a, b):
            if out[k] != '\n':
                out[k] = ' '

    while i < n:
        c = src[i]
        if src.startswith('//', i):
            j = src.find('\n', i)
            j = n if j < 0 else j
            fill(i, j)
            i = j
        elif src.startswith('/*', i):
            depth, j = 1, i + 2
            while j < n and depth:
                if src.startswith('/*', j):
                    depth += 1
                    j += 2
                elif src.startswith('*/', j):
                    depth -= 1
                    j += 2
                else:
                    j += 1
            fill(i, j)
            i = j
        elif c == 'r' and re.match(r'r#*"', src[i:i + 8]) and (i == 0 or not (src[i - 1].isalnum() or src[i - 1] == '_')):
            m = re.match(r'r(#*)"', src[i:i + 8])
            close = '"' + m.group(1)
            j = src.find(close, i + len(m.group(0)))
            j = n if j < 0 else j + len(close)
            fill(i + 1, j - 1)
            i = j
        elif c == '"':
            j = i + 1
            while j < n and src[j] != '"':
                if src[j] == '\\':
                    j += 1
                j += 1
            fill(i + 1, j)
            i = j + 1
        elif c == "'":
            m = (re.match(r"'(\\x[0-9a-fA-F]{2}|\\u\{[0-9a-fA-F]+\}|\\.|[^\\'])'", src[i:i + 14]))
            if m:
                fill(i + 1, i + len(m.group(0)) - 1)
                i += len(m.group(0))
            else:
                i += 1  # lifetime
        else:
            i += 1
    return ''.join(out)


_OPEN = {'{': '}', '(': ')', '[': ']'}
_CLOSE = {v: k for k, v in _OPEN.items()}


def match_close(scan, i):
    """scan[i] is an opening bracket; return the index of its partner."""
    o = scan[i]
    c = _OPEN[o]
    d = 0
    n = len(scan)
    while i < n:
        ch = scan[i]
        if ch == o:
            d += 1
        elif ch == c:
            d -= 1
            if d == 0:
                return i
        i += 1
    raise Undecided('unbalanced bracket')


def depth_map(scan, a, b):
    """Relative brace depth for each position in [a,b)."""
    d = 0
    res = []
    for k in range(a, b):
        ch = scan[k]
        if ch == '}':
            d -= 1
        res.append(d)
        if ch == '{':
            d += 1
    return res


def _segment_regex(seg):
    toks = re.findall(r"[A-Za-z0-9_]+|'[a-z_]+|::|->|=>|[^\sA-Za-z0-9_]", seg)
    parts = []
    for k, t in enumerate(toks):
        if k:
            prev = toks[k - 1]
            if re.match(r"[A-Za-z0-9_']", prev[-1]) and re.match(r'[A-Za-z0-9_]', t[0]):
                parts.append(r'\s+')
            else:
                parts.append(r'\s*')
        parts.append(re.escape(t))
    return re.compile(r'(?<![A-Za-z0-9_])' + ''.join(parts) + r'(?![A-Za-z0-9_])')


def body_open(scan, i, end):
    """From position i (inside an item header) find the first '{' or ';' at bracket depth 0."""
    d = 0
    while i < end:
        ch = scan[i]
        if ch in '([':
            d += 1
        elif ch in ')]':
            d -= 1
        elif d == 0 and ch in '{;':
            return i
        i += 1
    raise Undecided('no body for item')


class Source:
    def __init__(self, path, text):
        self.path = path
        self.text = text
        self.scan = blank(text)

    def line_of(self, pos):
        return self.text.count('\n', 0, pos) + 1

    def locate(self, path):
        """path: 'seg|seg|...' each optionally suffixed '#n' (1-based ordinal).
        Returns (item_start, open_pos, close_pos): item text is text[item_start:close_pos+1];
        header is text[item_start:open_pos]; body is text[open_pos:close_pos+1]
        (open_pos==close_pos and text[open_pos]==';' for body-less items)."""
        a, b = 0, len(self.text)
        res = None
        for seg in path.split('|'):
            seg = seg.strip()
            ordinal = None
            m = re.match(r'(.*)#(\d+)$', seg)
            if m:
                seg, ordinal = m.group(1).strip(), int(m.group(2))
            rx = _segment_regex(seg)
            dm = depth_map(self.scan, a, b)
            hits = [mm for mm in rx.finditer(self.scan, a, b)]
            # a header match must be followed by a body / ';' and must not be e.g. a use of the name
            top = [mm for mm in hits if dm[mm.start() - a] == 0]
            cand = top if top else hits
            if not cand:
                raise Undecided(f'lost anchor: {self.path}: {path!r} (segment {seg!r})')
            if ordinal is not None:
                if ordinal > len(cand):
                    raise Undecided(f'lost anchor: {self.path}: {path!r} ordinal {ordinal}')
                mm = cand[ordinal - 1]
            else:
                if len(cand) > 1:
                    raise Undecided(f'ambiguous anchor: {self.path}: {path!r} (segment {seg!r}, {len(cand)} matches)')
                mm = cand[0]
            o = body_open(self.scan, mm.end(), b)
            if self.scan[o] == ';':
                c = o
            else:
                c = match_close(self.scan, o)
            res = (mm.start(), o, c)
            a, b = o + 1, c
        start, o, c = res
        return self._extend_back(start), o, c

    def _extend_back(self, start):
        """Extend an item start backwards over qualifiers, attributes and doc comments."""
        text = self.text
        # qualifiers on the same line
        ls = text.rfind('\n', 0, start) + 1
        prefix = text[ls:start]
        if re.fullmatch(r'\s*((pub(\s*\([^)]*\))?|unsafe|const|async|default|extern(\s*"[^"]*")?)\s+)*', prefix):
            start = ls + (len(prefix) - len(prefix.lstrip()))
        # attribute / doc lines above
        while True:
            ls = text.rfind('\n', 0, start - 1 if start else 0)
            prev_ls = text.rfind('\n', 0, ls) + 1 if ls > 0 else 0
            if ls <= 0:
                break
            line = text[prev_ls:ls]
            st = line.strip()
            if st.startswith('///') or st.startswith('#[') or st.startswith('#!['):
                start = prev_ls + (len(line) - len(line.lstrip()))
                continue
            # tail of a multi-line attribute: ')]'
            if st.endswith(')]') and not st.startswith('#['):
                # walk up to the '#[' that opened it
                k = prev_ls
                found = None
                for _ in range(12):
                    kls = text.rfind('\n', 0, k - 1) + 1 if k > 0 else 0
                    l2 = text[kls:k - 1] if k > 0 else ''
                    if l2.strip().startswith('#['):
                        found = kls + (len(l2) - len(l2.lstrip()))
                        break
                    if k == 0:
                        break
                    k = kls
                if found is not None:
                    start = found
                    continue
            break
        return start


ATTR_DROP = re.compile(r'^\s*#\[(must_use|allow\(|inline|derive\(|derivative\(|serde\(|doc\b|cfg_attr\(|error\(|repr\()')


def strip_attrs(text):
    """R-ATTR: drop doc comments and the listed non-executable attributes (possibly multi-line)."""
    out = []
    dropped = 0
    lines = text.split('\n')
    i = 0
    while i < len(lines):
        l = lines[i]
        if re.match(r'\s*///', l) or re.match(r'\s*//!', l):
            dropped += 1
            i += 1
            continue
        if ATTR_DROP.match(l):
            # swallow until brackets balance
            depth = 0
            while i < len(lines):
                s = blank(lines[i])
                depth += s.count('[') - s.count(']')
                i += 1
                if depth <= 0:
                    break
            dropped += 1
            continue
        out.append(l)
        i += 1
    return '\n'.join(out), dropped
