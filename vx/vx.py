#!/usr/bin/env python3
"""vx — contract-based deductive verification driver.

  vx.py check <PROPERTY> [quick|thorough]     decide one property (exit 0 / 1 / 2)
  vx.py unit <unit> [--keep]                  run one unit, print its diagnostics
  vx.py gen <unit>                            print the generated Verus file

Exit codes: 0 all obligations discharged; 1 a named obligation failed (VIOLATION line);
2 undecided (lost anchor, rustc-stage error, resource limit, tool crash) — never an alarm.
"""
import concurrent.futures
import hashlib
import json
import os
import re
import shutil
import subprocess
import sys
import tempfile
import time

HERE = os.path.dirname(os.path.abspath(__file__))
sys.path.insert(0, HERE)
from extract import Undecided  # noqa: E402
from gen import Generator  # noqa: E402

VERIF = os.path.dirname(HERE)
REPO = os.environ.get('VX_REPO', '/repo')
UNITS = os.path.join(VERIF, 'units')
BUILD = os.path.join(VERIF, 'build')

# closed list of verification-stage diagnostics that may become a violation
VIOLATION_MSGS = [
    ('postcondition not satisfied', 'postcondition'),
    ('precondition not satisfied', 'precondition'),
    ('invariant not satisfied before loop', 'invariant-entry'),
    ('invariant not satisfied at end of loop body', 'invariant-preserved'),
    ('invariant not satisfied', 'invariant'),
    ('loop invariant not', 'invariant'),
    ('assertion failed', 'assertion'),
    ('unable to prove post-condition of closure', 'closure-postcondition'),
    ('unable to prove assertion', 'assertion'),
    ('may fail to meet its declared type invariant', 'type-invariant'),
    ('possible arithmetic underflow/overflow', 'overflow'),
    ('possible division by zero', 'div-by-zero'),
    ('possible bit shift underflow/overflow', 'shift-overflow'),
    ('index out of bounds', 'index'),
    ('decreases not satisfied', 'termination'),
    ('could not prove termination', 'termination'),
    ('unreachable', 'unreachable'),
    ('panic', 'panic'),
    ('recommendation not met', None),  # a note, ignored
]
RESOURCE_MSGS = ['resource limit', 'rlimit', 'timed out', 'timeout', 'Resource limit']

CANARY = '''
verus! {
// vacuity canary: must be REJECTED by the verifier on every run
proof fn vx_canary_must_fail() ensures false {}
}
'''

TRUST_RX = re.compile(r'(assume\s*\(|admit\s*\(|external_body|assume_specification|#\[verifier::external|axiom|#\[verifier::trusted|unsafe\s)')


class UnitResult:
    def __init__(self, name):
        self.name = name
        self.status = 'ok'      # ok | failed | undecided
        self.reason = ''
        self.failures = []      # dicts
        self.funcs = []
        self.verified = 0
        self.errors = 0
        self.fn_times = {}
        self.rules = {}
        self.dropped = []
        self.trusted = []
        self.gen_path = None
        self.gen_lines = []
        self.gen_sha = None
        self.wall = 0.0
        self.smt_ms = 0
        self.cmd = ''
        self.raw_err = ''
        self.labels = {}        # label -> props


def unit_list():
    """units that take part in checks: those with unit.json {"enabled": true} (a unit under construction
    can still be run with `vx.py unit <name>`)."""
    out = []
    for d in sorted(os.listdir(UNITS)):
        if os.path.exists(os.path.join(UNITS, d, 'unit.rs')) and unit_cfg(d).get('enabled'):
            out.append(d)
    return out


def unit_props(name):
    """properties served by a unit: union of props= in its template."""
    txt = open(os.path.join(UNITS, name, 'unit.rs'), encoding='utf-8').read()
    props = set()
    for m in re.finditer(r'props=([A-Z0-9,]+)', txt):
        props.update(m.group(1).split(','))
    for m in re.finditer(r'//@ob\s+([^\n]*)', txt):
        for lab in m.group(1).split():
            if re.match(r'C\d\d\.', lab):
                props.add(lab[:3])
    return props


def run_unit(name, seed=0, rlimit=None, keep=False, extra_args=()):
    r = UnitResult(name)
    t0 = time.time()
    tmpl = os.path.join(UNITS, name, 'unit.rs')
    g = Generator(REPO, tmpl)
    try:
        text = g.generate()
    except Undecided as e:
        r.status = 'undecided'
        r.reason = str(e)
        r.wall = time.time() - t0
        return r
    text += CANARY
    r.funcs = g.funcs
    r.rules = g.rules_total
    r.dropped = g.dropped
    os.makedirs(BUILD, exist_ok=True)
    scratch = tempfile.mkdtemp(prefix=f'vx_{name}_')
    gen_path = os.path.join(scratch, f'{name}.rs')
    open(gen_path, 'w', encoding='utf-8').write(text)
    try:
        shutil.copy(gen_path, os.path.join(BUILD, f'{name}.rs'))   # a copy for the reader; never read back (checks may run concurrently)
    except OSError:
        pass
    r.gen_path = os.path.join(BUILD, f'{name}.rs')
    r.gen_lines = text.split('\n')
    r.gen_sha = hashlib.sha256(text.encode()).hexdigest()[:16]
    gen_lines = text.split('\n')
    # trusted-base scan of the generated file: every assumed item, with the item it sits on
    for ln, l in enumerate(gen_lines, 1):
        code = l.split('//')[0]
        m = TRUST_RX.search(code)
        if m:
            what = l.strip()
            if re.fullmatch(r'(#\[[^\]]*\]\s*)+', what):
                # the attribute is on its own line: name the item that follows
                for k in range(ln, min(ln + 4, len(gen_lines))):
                    nxt = gen_lines[k].strip()
                    if nxt and not nxt.startswith('#[') and not nxt.startswith('//'):
                        what = what + ' ' + nxt
                        break
            r.trusted.append(f'{name}: {what[:170]}')
    # labels
    for ln, l in enumerate(gen_lines, 1):
        m = re.search(r'//@ob\s+(.*)$', l)
        if m:
            for lab in m.group(1).split():
                r.labels[lab] = ln
    cfg = unit_cfg(name)
    rl = rlimit or cfg.get('rlimit', 20)
    cmd = ['verus', gen_path, '--output-json', '--time', '--multiple-errors', str(cfg.get('multiple_errors', 20)),
           '--error-format=json', '--rlimit', str(rl), '--triggers-mode', 'silent']
    if seed:
        cmd += ['--smt-option', f'smt.random_seed={seed}']
    cmd += list(extra_args)
    r.cmd = ' '.join(cmd).replace(scratch, '<scratch>')
    try:
        p = subprocess.run(cmd, cwd=scratch, capture_output=True, text=True, timeout=cfg.get('timeout', 600))
    except subprocess.TimeoutExpired:
        r.status = 'undecided'
        r.reason = 'verus timeout'
        shutil.rmtree(scratch, ignore_errors=True)
        r.wall = time.time() - t0
        return r
    finally:
        pass
    r.raw_err = p.stderr
    shutil.rmtree(scratch, ignore_errors=True)
    try:
        js = json.loads(p.stdout)
    except Exception:
        js = None
    diags = []
    for l in p.stderr.split('\n'):
        l = l.strip()
        if not l.startswith('{'):
            continue
        try:
            diags.append(json.loads(l))
        except Exception:
            pass
    if js is None:
        r.status = 'undecided'
        r.reason = 'verus produced no JSON result: ' + first_error(diags, p.stderr)
        r.wall = time.time() - t0
        return r
    vr = js.get('verification-results', {})
    r.verified = vr.get('verified', 0)
    r.errors = vr.get('errors', 0)
    try:
        smt = js['times-ms']['smt']
        r.smt_ms = smt.get('total', 0)
        for mod in smt.get('smt-run-module-times', []):
            for fb in mod.get('function-breakdown', []):
                fn = fb['function'].split('::', 1)[-1]
                r.fn_times[fn] = {'ms': fb.get('time', 0), 'rlimit': fb.get('rlimit', 0), 'success': fb.get('success'), 'mode': fb.get('mode:')}
    except Exception:
        pass
    if vr.get('encountered-vir-error') or ('verified' not in vr):
        r.status = 'undecided'
        r.reason = 'rustc/VIR-stage error in generated file: ' + first_error(diags, p.stderr)
        r.wall = time.time() - t0
        return r
    # classify diagnostics
    canary_failed = False
    for d in diags:
        if d.get('level') != 'error':
            continue
        msg = d.get('message', '')
        if msg.startswith('aborting due to'):
            continue
        spans = [sp for sp in d.get('spans', []) if os.path.basename(sp.get('file_name', '')) == f'{name}.rs']
        foreign = [sp for sp in d.get('spans', []) if os.path.basename(sp.get('file_name', '')) != f'{name}.rs']
        prim = [s for s in spans if s.get('is_primary')] or spans
        line = prim[0]['line_start'] if prim else 0
        line_end = prim[0]['line_end'] if prim else 0
        all_lines = sorted({s['line_start'] for s in spans})
        # canary?
        if any('vx_canary_must_fail' in gen_lines[s['line_start'] - 1] or
               any('vx_canary_must_fail' in gen_lines[k] for k in range(max(0, s['line_start'] - 3), min(len(gen_lines), s['line_end'])))
               for s in spans):
            canary_failed = True
            continue
        kind = None
        for pat, k in VIOLATION_MSGS:
            if pat in msg:
                kind = k
                break
        if d.get('code'):
            r.status = 'undecided'
            r.reason = f"rustc-stage error {d['code'].get('code')}: {msg} (line {line})"
            break
        if any(x in msg for x in RESOURCE_MSGS):
            r.status = 'undecided'
            r.reason = f'resource limit: {msg} (line {line})'
            break
        if kind is None:
            if 'recommendation not met' in msg:
                continue
            r.status = 'undecided'
            r.reason = f'unclassified diagnostic: {msg} (line {line})'
            break
        # attribute to function and label
        fid, region = None, None
        for s in spans:
            t = g.out[s['line_start'] - 1] if s['line_start'] - 1 < len(g.out) else (None, None, None)
            if t[1]:
                fid, region = t[1], t[2]
                if s.get('is_primary'):
                    break
        labels = []
        for s in spans:
            for k in range(s['line_start'], s['line_end'] + 1):
                if k - 1 < len(gen_lines):
                    m = re.search(r'//@ob\s+(.*)$', gen_lines[k - 1])
                    if m and (s['line_end'] - s['line_start'] < 6):
                        labels += m.group(1).split()
        func = next((f for f in g.funcs if f.id == fid), None)
        # enclosing template function name when not in an extracted function
        encl = fid or enclosing_fn(gen_lines, line)
        props = sorted({lab[:3] for lab in labels if re.match(r'C\d\d\.', lab)}) or (func.props if func else list(g.unit_props))
        r.failures.append({
            'unit': name, 'function': encl, 'extracted': bool(func), 'kind': kind, 'message': msg,
            'labels': labels, 'props': props, 'gen_line': line,
            'clause': '\n'.join(gen_lines[line - 1:line_end]).strip()[:400] if line else '',
            'src': f'{func.file}:{func.src_lines[0]}-{func.src_lines[1]}' if func else None,
            'rendered': d.get('rendered', '')[:3000],
        })
    if r.status == 'ok':
        if not canary_failed:
            r.status = 'undecided'
            r.reason = 'vacuity canary was accepted: the generated file is inconsistent'
        elif r.failures:
            r.status = 'failed'
        elif r.errors != 1:
            r.status = 'undecided'
            r.reason = f'verus reported {r.errors} errors but only the canary was classified'
    r.errors = max(0, r.errors - 1) if canary_failed else r.errors
    r.wall = time.time() - t0
    if keep:
        print(p.stderr[-3000:])
    return r


def enclosing_fn(lines, ln):
    for k in range(ln - 1, -1, -1):
        m = re.match(r'\s*(?:pub\s+)?(?:open\s+|closed\s+)?(?:broadcast\s+)?(?:proof|spec|exec)?\s*fn\s+([A-Za-z0-9_]+)', lines[k])
        if m:
            return m.group(1)
    return None


def first_error(diags, stderr):
    for d in diags:
        if d.get('level') == 'error':
            sp = d.get('spans') or [{}]
            return f"{d.get('message')} (line {sp[0].get('line_start')})"
    return stderr.strip()[-400:]


def unit_cfg(name):
    p = os.path.join(UNITS, name, 'unit.json')
    if os.path.exists(p):
        return json.load(open(p))
    return {}


# ----------------------------------------------------------------------------------------------
def load_findings():
    p = os.path.join(VERIF, 'known_findings.txt')
    out = []
    if os.path.exists(p):
        for l in open(p, encoding='utf-8'):
            l = l.strip()
            if l.startswith('finding:'):
                d = {'raw': l}
                for m in re.finditer(r'(\w+)=(\S+)', l):
                    d.setdefault(m.group(1), m.group(2))
                out.append(d)
    return out


def props_text(pid):
    for l in open(os.path.join(VERIF, 'properties.jsonl'), encoding='utf-8'):
        p = json.loads(l)
        if p['id'] == pid:
            return p
    return None


def check(pid, tier):
    t0 = time.time()
    seed = int(os.environ.get('VERIF_SEED', '0') or 0)
    units = [u for u in unit_list() if pid in unit_props(u)]
    if not units:
        print(f'UNDECIDED property={pid}: no unit serves this property')
        return 2
    seeds = [0] if tier == 'quick' else [0, seed or 1, (seed or 1) + 7]
    jobs = [(u, s) for u in units for s in seeds]
    results = []
    with concurrent.futures.ThreadPoolExecutor(max_workers=min(12, len(jobs))) as ex:
        futs = {ex.submit(run_unit, u, s): (u, s) for u, s in jobs}
        for fu in concurrent.futures.as_completed(futs):
            results.append((futs[fu], fu.result()))
    results.sort(key=lambda x: (x[0][0], x[0][1]))
    base = [r for (u, s), r in results if s == 0]
    undecided = [r for r in base if r.status == 'undecided']
    failures = []
    for r in base:
        for f in r.failures:
            if pid in f['props']:
                failures.append(f)
    # thorough: a seed variation that flips is an instability, reported as undecided (never a violation)
    unstable = []
    for (u, s), r in results:
        if s != 0:
            b = next(x for x in base if x.name == u)
            if (r.status != b.status) or (len(r.failures) != len(b.failures)):
                unstable.append(f'{u} seed={s}: {r.status}/{len(r.failures)} vs {b.status}/{len(b.failures)}')
    # partner engines (Kani etc.) registered per unit
    partner_reports = []
    try:
        import partners
        partner_reports = partners.run(pid, tier, units, base)
    except ImportError:
        pass
    for pr in partner_reports:
        failures += pr.get('failures', [])

    findings = [f for f in load_findings() if f.get('property') == pid]
    for f in findings:
        rest = re.sub(r'^property=\S+\s*', '', f['raw'][len('finding:'):].strip())
        print(f"KNOWN-FINDING: property={pid} {rest}")

    # witness drivers (concrete runs of the real crate; bounded sampling, never counted as proof). They run on
    # every check: they attach a failing input to a rejected obligation, decide units the verifier could not
    # (undecided), and stand in — labelled bounded — for the functions no contract reaches (VM::execute/advance,
    # Storage, Memory, the lifting pipeline as a whole).  VERIF_TIER scales their case counts.
    wit = None
    if True:
        try:
            import witness
            os.environ['VERIF_TIER'] = tier
            wit = witness.for_property(pid, REPO, seed)
        except Exception as e:   # the witness phase is best-effort
            wit = {'ok': False, 'witnesses': [], 'cases': 0, 'log': f'witness phase error: {e}', 'wall': 0, 'cmd': ''}
        known_obs = {f.get('obligation') for f in findings}
        fresh = [w for w in wit['witnesses'] if w['obligation'] not in known_obs]
        used = set()
        for f in failures:
            keys = [lab.split('.', 1)[1] if '.' in lab else lab for lab in f['labels']] + [str(f['function']).split('::')[-1]]
            for k, w in enumerate(fresh):
                if any(key and (key in w['obligation'] or w['obligation'] in key or w['obligation'].split('.')[-1] == key.split('.')[-1]) for key in keys):
                    f['witness'] = {'found': True, 'input': w['input'], 'got': w['got'], 'want': w['want'], 'driver_obligation': w['obligation'],
                                    'command': f"cd /verif && python3 vx/witness.py {pid}"}
                    used.add(k)
                    break
        used_obs = {fresh[k]['obligation'] for k in used}
        # a failing input for the property that no rejected obligation accounts for is a violation in its own right
        seen_ob = set()
        for k, w in enumerate(fresh):
            if k in used or w['obligation'] in seen_ob or w['obligation'] in used_obs:
                continue
            seen_ob.add(w['obligation'])
            failures.append({'unit': 'witness', 'function': w['obligation'], 'extracted': False, 'kind': 'concrete-counterexample',
                             'message': f"real code violates the property on a concrete input: got {w['got']}, want {w['want']}",
                             'labels': [f"{pid}.witness.{w['obligation']}"], 'props': [pid], 'gen_line': 0, 'clause': w['input'], 'src': None,
                             'rendered': json.dumps(w, indent=1),
                             'witness': {'found': True, 'input': w['input'], 'got': w['got'], 'want': w['want'], 'driver_obligation': w['obligation'],
                                         'command': f"cd /verif && python3 vx/witness.py {pid}"}})

    # obligations
    obligations = 0
    functions = []
    samples = []
    trusted = []
    rules = {}
    dropped = []
    smt_ms = 0
    checker_cmds = []
    for r in base:
        checker_cmds.append(r.cmd)
        smt_ms += r.smt_ms
        for fn in r.funcs:
            if pid not in fn.props and not any(lab.startswith(pid + '.') for lab in fn.labels):
                pass
        for fn in r.funcs:
            if fn.kind not in ('fn', 'body'):
                continue
            mine = pid in fn.props
            if not mine:
                continue
            n = fn.nclauses + 1   # +1: the implicit safety obligations of the body (overflow, bounds, callee preconditions)
            obligations += n
            short = fn.id.split('::')[-1]
            tm = next((v for k, v in r.fn_times.items() if k.endswith('::' + short) or k == short), None)
            functions.append({'unit': r.name, 'function': fn.id, 'source': f'{fn.file}:{fn.src_lines[0]}-{fn.src_lines[1]}',
                              'sha256_16': fn.sha, 'explicit_clauses': fn.nclauses, 'rewrites': fn.rules,
                              'smt_ms': tm['ms'] if tm else None, 'verified': tm['success'] if tm else None, 'backend': 'verus/z3'})
        # lemma-level obligations carrying this property's labels (proof fns in the template)
        for lab, ln in r.labels.items():
            if lab.startswith(pid + '.'):
                samples.append({'label': lab, 'unit': r.name, 'clause': (r.gen_lines[ln - 1].strip()[:200] if 0 < ln <= len(r.gen_lines) else '')})
        # labelled clauses of this property that are not already counted through a function whose props include pid:
        # lemmas / client harnesses written in the template, and clauses carrying another property's label
        counted_ranges = [fn.gen_lines for fn in r.funcs if fn.kind in ('fn', 'body') and pid in fn.props and fn.gen_lines]
        for lab, ln in r.labels.items():
            if lab.startswith(pid + '.') and not any(a <= ln <= b for a, b in counted_ranges):
                obligations += 1
        trusted += r.trusted
        for k, v in r.rules.items():
            rules[k] = rules.get(k, 0) + v
        dropped += [f'{r.name}: {d}' for d in r.dropped]
    for pr in partner_reports:
        obligations += pr.get('obligations', 0)
    failed_n = len(failures)
    discharged = max(0, obligations - failed_n)

    exit_code = 0
    lines_out = []
    driver_gap = (wit or {}).get('excluded_relevant') or []
    if undecided or unstable or driver_gap:
        exit_code = 2
    if failures:
        exit_code = 1
    replay_paths = []
    if failures:
        os.makedirs(os.path.join(VERIF, 'replay'), exist_ok=True)
        for k, f in enumerate(failures):
            name = (f['labels'][0] if f['labels'] else f"{f['unit']}.{f['function']}.{f['kind']}").replace('/', '_')
            rp = os.path.join(VERIF, 'replay', f'{pid}_{name}_{k}.json')
            w = f.get('witness') or {'found': False, 'note': 'the witness drivers found no concrete failing input for this obligation'}
            doc = {'property': pid, 'failed_obligation': f['labels'] or [f"{f['function']}:{f['kind']}"], 'unit': f['unit'],
                   'function': f['function'], 'source': f['src'], 'kind': f['kind'], 'message': f['message'],
                   'clause': f['clause'], 'verifier_output': f['rendered'], 'witness': w,
                   'reproduce': f'cd /verif && ./check {pid} quick'}
            json.dump(doc, open(rp, 'w'), indent=1)
            tail = '' if (w and w.get('found')) else ' no-failing-input-found'
            lines_out.append(f'VIOLATION property={pid} replay={rp}{tail}')
            replay_paths.append(rp)
    for r in undecided:
        lines_out.append(f'UNDECIDED property={pid} unit={r.name}: {r.reason}')
    for u in unstable:
        lines_out.append(f'UNDECIDED property={pid} unstable: {u}')
    for d in driver_gap:
        lines_out.append(f"UNDECIDED property={pid} witness driver {d} does not compile against this tree and was left out: {(wit.get('excluded_because') or '')[:300]!r}")

    p = props_text(pid) or {}
    cov = {
        'obligations': obligations,
        'discharged': discharged,
        'checker_cmd': ' ; '.join(checker_cmds),
        'trusted_base': sorted(set(trusted)),
        'samples': samples[:12] or [{'function': fn['function']} for fn in functions[:5]],
        'functions_under_contract': functions,
        'units': [{'unit': r.name, 'status': r.status, 'reason': r.reason, 'verus_verified_queries': r.verified, 'verus_errors': r.errors,
                   'generated_sha256_16': r.gen_sha, 'wall_s': round(r.wall, 2), 'smt_ms': r.smt_ms} for r in base],
        'rewrites_applied': rules,
        'extraction_dropped': dropped,
        'solver_time_ms': smt_ms,
        'partners': [{k: v for k, v in pr.items() if k != 'failures'} for pr in partner_reports],
        'seed_variations': [f'{u}:{s}:{r.status}' for (u, s), r in results if s != 0],
        'known_findings': [f['raw'] for f in findings],
        'witness_drivers': ({'ran': True, 'built': wit['ok'], 'cases': wit['cases'], 'counterexamples': len(wit['witnesses']), 'wall_s': round(wit['wall'], 1),
                             'cmd': wit['cmd'], 'note': 'concrete boundary/random inputs against the real crate; bounded sampling, NOT counted in obligations/discharged',
                             'excluded_drivers_not_compiling': wit.get('excluded_drivers', []), 'log_tail': ('' if wit['ok'] else wit['log'][-800:])} if wit else {'ran': False}),
        'explanation': coverage_note(pid, units),
        'exit_code': exit_code,
    }
    ev = {'property_id': pid, 'tier': tier, 'seed': seed, 'level': 'proof', 'coverage': cov,
          'assumptions': assumptions_for(pid, units), 'wall_s': round(time.time() - t0, 2), 'violations': len(failures)}
    os.makedirs(os.path.join(VERIF, 'evidence'), exist_ok=True)
    json.dump(ev, open(os.path.join(VERIF, 'evidence', f'{pid}.json'), 'w'), indent=1)
    for l in lines_out:
        print(l)
    print(f'{pid} {tier}: units={",".join(units)} obligations={obligations} discharged={discharged} '
          f'failed={failed_n} undecided={len(undecided)} wall={time.time()-t0:.1f}s exit={exit_code}')
    return exit_code


def coverage_note(pid, units=()):
    """the property's note plus the notes filed under the names of the units that took part (lists of strings)"""
    p = os.path.join(VERIF, 'units', 'coverage_notes.json')
    if not os.path.exists(p):
        return ''
    try:
        d = json.load(open(p))
    except Exception:
        return ''
    out = [d.get(pid, '')]
    for u in units:
        n = d.get(u)
        if n:
            out.append(f'[unit {u}] ' + (' '.join(n) if isinstance(n, list) else n))
    return ' '.join(x for x in out if x)


def assumptions_for(pid, units):
    p = os.path.join(VERIF, 'units', 'assumptions.json')
    out = []
    if os.path.exists(p):
        try:
            d = json.load(open(p))
        except Exception:
            d = {}
        out += d.get('*', [])
        for u in units:
            out += d.get(u, [])
    return out


def main():
    if len(sys.argv) < 2:
        print(__doc__)
        return 2
    cmd = sys.argv[1]
    if cmd == 'selftest':
        p = subprocess.run(['verus', '--version'], capture_output=True, text=True)
        print(p.stdout.strip().split('\n')[0] if p.returncode == 0 else p.stderr)
        return p.returncode
    if cmd == 'check':
        tier = sys.argv[3] if len(sys.argv) > 3 else os.environ.get('VERIF_TIER', 'quick')
        try:
            return check(sys.argv[2], tier)
        except Exception as e:   # an error of the machinery itself is never a verdict about the code
            import traceback
            traceback.print_exc()
            print(f'UNDECIDED property={sys.argv[2]}: internal error of the checker: {type(e).__name__}: {e}')
            return 2
    if cmd == 'gen':
        g = Generator(REPO, os.path.join(UNITS, sys.argv[2], 'unit.rs'))
        print(g.generate())
        return 0
    if cmd == 'unit':
        r = run_unit(sys.argv[2], keep='--keep' in sys.argv)
        print(f'unit {r.name}: status={r.status} verified={r.verified} errors={r.errors} wall={r.wall:.1f}s {r.reason}')
        for f in r.failures:
            print(f"  FAIL {f['function']} [{f['kind']}] labels={f['labels']} props={f['props']} line={f['gen_line']}: {f['clause'][:120]}")
        if r.status == 'undecided' and '--raw' in sys.argv:
            n = 0
            for l in r.raw_err.split('\n'):
                if l.startswith('{'):
                    try:
                        d = json.loads(l)
                    except Exception:
                        continue
                    if d.get('level') == 'error' and d.get('rendered') and n < 6:
                        print(d['rendered'][:1500])
                        n += 1
            if n == 0:
                print(r.raw_err[-3000:])
        return {'ok': 0, 'failed': 1, 'undecided': 2}[r.status]
    return 2


if __name__ == '__main__':
    sys.exit(main())
