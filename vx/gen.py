"""Template processor: splices contracts from /verif/units/<u>/unit.rs around functions that are
re-extracted from the repository's working tree on every run.

Directive grammar (lines starting with //@ inside a unit template):

  //@unit props=C19,C01                       unit-wide default property ids
  //@extract file=<rel> path="<seg|seg>" [kind=fn|type|header|body] [props=..] [id=..]
  //@ret <name>                               name the return value:  -> T   becomes  -> (name: T)
  //@spec                                     following lines go between signature and body
  //@loop <n> [kind=while|for|loop]           following lines go before the body of the n-th loop; a different loop form is a lost anchor
  //@proof before|after|entry|exit "<text>" [#k]     ghost lines spliced at a statement anchor
  //@rw <RULE> [count=n|any] [optional]  //@old ... //@new ...      declared syntactic rewrite (fail-closed; `optional`: 0 matches = text kept verbatim)
  //@hoist <fn> [<fn> ...]                    R-HOIST: the nested fn items of this function — exactly the
                                              named set, fail-closed — are removed from its body because the
                                              unit supplies each of them as a top-level item (its own //@extract
                                              of the same nested fn, or a declared stand-in)
  //@end

Clause labels: a trailing comment  //@ob C19.vm.insert.len [C01.x]  on a clause line.
"""
import hashlib
import os
import re
import sys
import shlex

from extract import Source, Undecided, blank, body_open, depth_map, match_close, strip_attrs

LOOP_RX = re.compile(r'(?<![A-Za-z0-9_])(while|for|loop)(?![A-Za-z0-9_])')


class Func:
    def __init__(self):
        self.id = None
        self.file = None
        self.path = None
        self.kind = 'fn'
        self.props = []
        self.src_lines = None
        self.sha = None
        self.gen_lines = None
        self.rules = {}
        self.nclauses = 0
        self.labels = []


def _short_seg(seg):
    seg = re.sub(r'#\d+$', '', seg.strip())
    seg = re.sub(r'^(fn|struct|enum|trait|mod)\s+', '', seg)
    m = re.match(r'impl\s*(<[^>]*>)?\s*(.*)$', seg)
    if m:
        seg = re.sub(r'<[^>]*>', '', m.group(2)).strip().replace(' for ', '_for_')
    return seg


def _kv(s):
    d = {}
    for tok in shlex.split(s):
        if '=' in tok:
            k, v = tok.split('=', 1)
            d[k] = v
        else:
            d.setdefault('_', []).append(tok)
    return d


def _ws_regex(old):
    """whitespace-insensitive exact-text pattern; `$1`..`$9` are wildcards (shortest match) that the
    replacement may reuse — the matched repository text is carried over verbatim, never retyped."""
    toks = re.findall(r"\$\d|[A-Za-z0-9_]+|\S", old)
    parts = []
    for k, t in enumerate(toks):
        if k:
            prev = toks[k - 1]
            if re.match(r'[A-Za-z0-9_]', prev[-1]) and re.match(r'[A-Za-z0-9_]', t[0]):
                parts.append(r'\s+')
            else:
                parts.append(r'\s*')
        if re.fullmatch(r'\$\d', t):
            parts.append(f'(?P<g{t[1]}>.+?)')
        else:
            parts.append(re.escape(t))
    return re.compile(''.join(parts), re.S)


def count_clauses(spec_text):
    """Count top-level comma separated clauses after requires/ensures/invariant/decreases keywords."""
    s = blank(spec_text)
    n = 0
    depth = 0
    cur = False
    i = 0
    kw = re.compile(r'(?<![A-Za-z0-9_])(requires|ensures|invariant|invariant_except_break|decreases|recommends|returns)(?![A-Za-z0-9_])')
    while i < len(s):
        m = kw.match(s, i) if depth == 0 else None
        if m:
            if cur:
                n += 1
            cur = False
            i = m.end()
            continue
        ch = s[i]
        if ch in '([{':
            depth += 1
            cur = True
        elif ch in ')]}':
            depth -= 1
        elif ch == ',' and depth == 0:
            if cur:
                n += 1
            cur = False
        elif ch == '|' and depth == 0:
            cur = True
        elif not ch.isspace():
            cur = True
        i += 1
    if cur:
        n += 1
    return n


def loop_body_open(scan, m):
    """index of the `{` that opens the body of the loop whose keyword match is `m` (None if there is none).
    `while let PAT = e {` and `for PAT in e {` may carry struct patterns with braces before the body: the body brace
    is searched only after the `=` resp. `in` that ends the pattern (at bracket depth 0)."""
    k = m.end()
    kw = m.group(1)
    rest = scan[k:]
    need = None
    if kw == 'while' and re.match(r'\s*let(?![A-Za-z0-9_])', rest):
        need = '='
    elif kw == 'for':
        need = 'in'
    d = 0
    while k < len(scan):
        ch = scan[k]
        if ch in '([':
            d += 1
        elif ch in ')]':
            d -= 1
        elif need is not None:
            if ch == '{':
                d += 1
            elif ch == '}':
                d -= 1
            elif d == 0 and need == '=' and ch == '=' and scan[k - 1] not in '=!<>' and scan[k + 1:k + 2] not in ('=', '>'):
                need = None
            elif d == 0 and need == 'in' and scan[k:k + 2] == 'in' and not (scan[k - 1].isalnum() or scan[k - 1] == '_') and not (scan[k + 2:k + 3].isalnum() or scan[k + 2:k + 3] == '_'):
                need = None
                k += 1
        elif ch == '{' and d == 0:
            return k
        k += 1
    return None


class Generator:
    def __init__(self, repo, template_path):
        self.repo = repo
        self.template_path = template_path
        self.sources = {}
        self.out = []          # list of (text, func_id, region)
        self.funcs = []
        self.unit_props = []
        self.rules_total = {}
        self.dropped = []
        self.trusted = []

    def src(self, rel):
        if rel not in self.sources:
            p = os.path.join(self.repo, rel)
            if not os.path.exists(p):
                raise Undecided(f'lost anchor: file {rel} missing')
            self.sources[rel] = Source(rel, open(p, encoding='utf-8').read())
        return self.sources[rel]

    def emit(self, text, fid=None, region='tmpl'):
        for l in text.split('\n'):
            self.out.append((l, fid, region))

    def generate(self):
        lines = open(self.template_path, encoding='utf-8').read().split('\n')
        i = 0
        while i < len(lines):
            l = lines[i]
            st = l.strip()
            if st.startswith('//@unit'):
                d = _kv(st[len('//@unit'):])
                self.unit_props = d.get('props', '').split(',') if d.get('props') else []
                i += 1
            elif st.startswith('//@include'):
                inc = os.path.join(os.path.dirname(os.path.dirname(self.template_path)), st[len('//@include'):].strip())
                inc_lines = open(inc, encoding='utf-8').read().split('\n')
                lines[i:i + 1] = inc_lines
            elif st.startswith('//@dropped'):
                self.dropped.append(st[len('//@dropped'):].strip())
                i += 1
            elif st.startswith('//@extract'):
                j = i + 1
                block = []
                while j < len(lines) and lines[j].strip() != '//@end':
                    block.append(lines[j])
                    j += 1
                if j >= len(lines):
                    raise Undecided(f'template error: //@extract without //@end at line {i+1}')
                self.do_extract(_kv(st[len('//@extract'):]), block)
                i = j + 1
            else:
                self.emit(l)
                i += 1
        text = '\n'.join(t for t, _, _ in self.out)
        return text

    # ------------------------------------------------------------------
    def do_extract(self, d, block):
        f = Func()
        f.file = d['file']
        f.path = d['path']
        f.kind = d.get('kind', 'fn')
        f.props = d['props'].split(',') if d.get('props') else list(self.unit_props)
        f.id = d.get('id') or (f.file.split('/')[-1][:-3] + '::' + '::'.join(
            _short_seg(s) for s in f.path.split('|')[-2:]))
        src = self.src(f.file)
        start, o, c = src.locate(f.path)
        item = src.text[start:c + 1]
        f.src_lines = (src.line_of(start), src.line_of(c))
        f.sha = hashlib.sha256(item.encode()).hexdigest()[:16]

        # parse the block into sections
        ret = None
        spec = []
        loops = {}
        loop_kinds = {}
        proofs = []
        rws = []
        hoist = None
        cur = None
        for bl in block:
            bs = bl.strip()
            if bs.startswith('//@ret'):
                ret = bs.split()[1]
                cur = None
            elif bs.startswith('//@spec'):
                cur = spec
            elif bs.startswith('//@loop'):
                n = int(bs.split()[1])
                cur = loops.setdefault(n, [])
                # `kind=while|for|loop`: the loop form the invariants were written for; another form is a lost anchor
                # (the invariants would be spliced into a loop they do not describe: undecided, never a failed proof)
                km = re.search(r'kind=(while|for|loop)', bs)
                if km:
                    loop_kinds[n] = km.group(1)
            elif bs.startswith('//@proof'):
                m = re.match(r'//@proof\s+(before|after|entry|exit|loopstart|afterloop)(?:\s+"((?:[^"\\]|\\.)*)")?(?:\s+#(\d+))?\s*$', bs)
                if not m:
                    raise Undecided(f'template error: bad //@proof directive: {bs}')
                pr = {'where': m.group(1), 'anchor': (m.group(2) or '').replace('\\"', '"'), 'nth': int(m.group(3)) if m.group(3) else None, 'lines': []}
                proofs.append(pr)
                cur = pr['lines']
            elif bs.startswith('//@rw'):
                dd = _kv(bs[len('//@rw'):])
                # `optional`: when the pattern is absent (0 matches) nothing is rewritten and the text goes to the
                # verifier verbatim — still fail-closed (Verus either accepts the original construct or the unit is
                # undecided), but an edit that removes the rewritten construct reaches the contracts instead of exit 2
                rw = {'rule': dd['_'][0], 'count': (None if dd.get('count') == 'any' else int(dd.get('count', 1))), 'old': [], 'new': [],
                      'optional': 'optional' in dd['_'][1:]}
                rws.append(rw)
                cur = None
            elif bs.startswith('//@hoist'):
                hoist = bs.split()[1:]
                cur = None
            elif bs.startswith('//@old'):
                cur = rws[-1]['old']
            elif bs.startswith('//@new'):
                cur = rws[-1]['new']
            elif bs.startswith('//@'):
                raise Undecided(f'template error: unknown directive {bs}')
            else:
                if cur is not None:
                    cur.append(bl)

        def bump(rule, n=1):
            f.rules[rule] = f.rules.get(rule, 0) + n
            self.rules_total[rule] = self.rules_total.get(rule, 0) + n

        if f.kind in ('type', 'item'):
            text, nd = strip_attrs(item)
            if nd:
                bump('R-ATTR', nd)
            text = self.apply_rws(text, rws, bump, f)
            g0 = len(self.out) + 1
            self.emit(text, f.id, 'body')
            f.gen_lines = (g0, len(self.out))
            self.funcs.append(f)
            return
        header = src.text[start:o]
        body = src.text[o:c + 1]
        header, nd = strip_attrs(header)
        if nd:
            bump('R-ATTR', nd)
        if f.kind == 'header':
            header = self.apply_rws(header, rws, bump, f)
            g0 = len(self.out) + 1
            self.emit(header.rstrip() + ' {', f.id, 'body')
            f.gen_lines = (g0, len(self.out))
            self.funcs.append(f)
            return
        if src.text[o] == ';':
            raise Undecided(f'{f.id}: item has no body')
        # rewrites first (on header+body as one text so that both can be touched)
        marker = '\n/*@@BODY@@*/'
        whole = self.apply_rws(header + marker + body, rws, bump, f)
        if marker not in whole:
            raise Undecided(f'{f.id}: rewrite destroyed the header/body boundary')
        header, body = whole.split(marker, 1)
        if hoist is not None:
            body, nh = self.hoist_nested(body, hoist, f)
            bump('R-HOIST', nh)
        # name the return value
        if ret:
            hs = blank(header)
            k = hs.rfind('->')
            if k < 0:
                raise Undecided(f'{f.id}: //@ret given but no return type')
            m = re.search(r'\swhere\s', hs[k:])
            e = k + m.start() if m else len(header.rstrip())
            ty = header[k + 2:e].strip()
            header = header[:k] + f'-> ({ret}: {ty})' + header[e:]
            bump('R-SIG')
        # loops
        if loops:
            body = self.splice_loops(body, loops, f, loop_kinds)
            bump('R-SIG', len(loops))
        # proof splices
        for pr in proofs:
            body = self.splice_proof(body, pr, f)
            bump('R-PROOF')
        spec_text = '\n'.join(spec)
        if spec_text.strip():
            bump('R-SIG')
        f.nclauses = count_clauses(spec_text) + sum(count_clauses('\n'.join(v)) for v in loops.values()) \
            + sum(len(re.findall(r'(?<![A-Za-z0-9_])assert\s*(\(|forall)', '\n'.join(p['lines']))) for p in proofs)
        g0 = len(self.out) + 1
        if f.kind == 'body':
            # template supplies its own signature lines just before the directive
            self.emit(spec_text, f.id, 'spec') if spec_text.strip() else None
        else:
            self.emit(header.rstrip(), f.id, 'sig')
            if spec_text.strip():
                self.emit(spec_text, f.id, 'spec')
        self.emit(body, f.id, 'body')
        f.gen_lines = (g0, len(self.out))
        self.funcs.append(f)

    def apply_rws(self, text, rws, bump, f):
        for rw in rws:
            old = '\n'.join(rw['old']).strip()
            new = '\n'.join(rw['new']).strip('\n')
            rx = _ws_regex(old)
            hits = list(rx.finditer(text))
            if rw.get('optional') and not hits:
                continue
            # `count=any`: every occurrence (at least one) is rewritten the same way — for call abstractions whose
            # replacement is faithful per occurrence, so that an edit removing or adding an occurrence reaches the verifier
            if (rw['count'] is None and not hits) or (rw['count'] is not None and len(hits) != rw['count']):
                raise Undecided(f"{f.id}: rewrite {rw['rule']} expected {rw['count'] or 'at least one'} match(es) of {old[:60]!r}, found {len(hits)}")
            # fail-closed: a `$n` wildcard may only capture bracket-balanced text, so that with a pattern
            # `head => { $1 } tail` the capture is exactly the block's contents and can never run over the
            # closing bracket and swallow a neighbouring item (e.g. an inserted match arm)
            for m in hits:
                for gname, cap in m.groupdict().items():
                    depth = 0
                    for ch in blank(cap or ''):
                        depth += (ch in '([{') - (ch in ')]}')
                        if depth < 0:
                            break
                    if depth != 0:
                        raise Undecided(f"{f.id}: rewrite {rw['rule']}: wildcard ${gname[1:]} captured bracket-unbalanced text")
                    # ... and, unless it stands for the whole contents of a `{ $n }` block in the pattern, it may not run over a
                    # statement boundary (a `;` outside brackets): `= $1.into_iter()` must not swallow the statement before it
                    pm = re.search(r'(\S)\s*\$' + gname[1:] + r'\s*(\S)?', old)
                    whole_block = bool(pm and pm.group(1) == '{' and pm.group(2) == '}')
                    if not whole_block:
                        depth = 0
                        for ch in blank(cap or ''):
                            depth += (ch in '([{') - (ch in ')]}')
                            if ch == ';' and depth == 0:
                                raise Undecided(f"{f.id}: rewrite {rw['rule']}: wildcard ${gname[1:]} would capture text across a statement boundary")
            text = rx.sub(lambda m: re.sub(r'\$(\d)', lambda g: m.group('g' + g.group(1)), new), text)
            bump(rw['rule'], len(hits))
        return text

    def hoist_nested(self, body, names, f):
        """R-HOIST: drop the nested `fn` items (direct children of the body block) from `body`.
        The set of nested fns must be exactly `names`; anything else is a lost anchor."""
        scan = blank(body)
        dm = depth_map(scan, 0, len(scan))
        found = []
        for m in re.finditer(r'(?<![A-Za-z0-9_])fn\s+([A-Za-z0-9_]+)', scan):
            if dm[m.start()] != 1:
                continue
            o = body_open(scan, m.end(), len(scan))
            if scan[o] != '{':
                continue
            c = match_close(scan, o)
            found.append((m.group(1), Source('', body)._extend_back(m.start()), c))
        if sorted(n for n, _, _ in found) != sorted(names):
            raise Undecided(f"{f.id}: lost anchor: //@hoist expects nested fns {sorted(names)}, body has {sorted(n for n, _, _ in found)}")
        for _, a, c in sorted(found, key=lambda x: -x[1]):
            body = body[:a] + body[c + 1:]
        return body, len(found)

    def splice_loops(self, body, loops, f, kinds=None):
        scan = blank(body)
        hits = []
        for m in LOOP_RX.finditer(scan):
            # skip `for` in `impl X for Y` / HRTB — inside fn bodies these do not occur; skip labels' ticks
            hits.append(m)
        inserts = []
        for n, lines in loops.items():
            if n > len(hits):
                raise Undecided(f'{f.id}: lost anchor: loop {n} (function has {len(hits)} loops)')
            m = hits[n - 1]
            want = (kinds or {}).get(n)
            if want and m.group(1) != want:
                raise Undecided(f'{f.id}: lost anchor: loop {n} is a `{m.group(1)}` loop, its invariants were written for a `{want}` loop')
            if os.environ.get('VX_LOOPKINDS'):
                sys.stderr.write(f'LOOPKIND {f.id} {n} {m.group(1)}\n')
            k = loop_body_open(scan, m)
            if k is None:
                raise Undecided(f'{f.id}: loop {n} has no body')
            inserts.append((k, '\n' + '\n'.join(lines) + '\n'))
        for k, t in sorted(inserts, reverse=True):
            body = body[:k] + t + body[k:]
        return body

    def splice_proof(self, body, pr, f):
        text = '\n'.join(pr['lines'])
        if pr['where'] == 'entry':
            k = body.index('{') + 1
            return body[:k] + '\n' + text + body[k:]
        if pr['where'] == 'exit':
            k = body.rindex('}')
            return body[:k] + text + '\n' + body[k:]
        if pr['where'] in ('loopstart', 'afterloop'):
            scan = blank(body)
            # loops are counted in the body as extracted plus any text spliced so far; ghost text never contains loops
            hits = list(LOOP_RX.finditer(scan))
            n = pr['nth'] or 1
            if n > len(hits):
                raise Undecided(f"{f.id}: lost anchor: loop {n} for proof splice")
            k = loop_body_open(scan, hits[n - 1])
            if k is None:
                raise Undecided(f'{f.id}: loop {n} has no body')
            if pr['where'] == 'loopstart':
                return body[:k + 1] + '\n' + text + body[k + 1:]
            c = match_close(scan, k)
            return body[:c + 1] + '\n' + text + body[c + 1:]
        rx = _ws_regex(pr['anchor'])
        hits = list(rx.finditer(body))
        if not hits:
            raise Undecided(f"{f.id}: lost anchor: proof splice at {pr['anchor']!r}")
        if pr['nth'] is None and len(hits) > 1:
            raise Undecided(f"{f.id}: ambiguous proof anchor {pr['anchor']!r} ({len(hits)} matches)")
        if (pr['nth'] or 1) > len(hits):
            raise Undecided(f"{f.id}: lost anchor: proof splice ordinal {pr['nth']} at {pr['anchor']!r}")
        m = hits[(pr['nth'] or 1) - 1]
        # splice exactly at the anchor (not at the line boundary) so that the ghost text lands in the same
        # block as the statement even when the statement sits inside a one-line block
        if pr['where'] == 'before':
            return body[:m.start()] + '\n' + text + '\n' + body[m.start():]
        return body[:m.end()] + '\n' + text + '\n' + body[m.end():]
