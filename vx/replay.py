#!/usr/bin/env python3
"""Replay a violation file: print the failed obligation, run the recorded concrete witness command
(if the witness search found a failing input) and re-run the property's check."""
import json
import subprocess
import sys

doc = json.load(open(sys.argv[1]))
print('property        :', doc['property'])
print('failed obligation:', doc['failed_obligation'])
print('function        :', doc['function'], doc.get('source'))
print('verifier said   :', doc['message'])
print(doc.get('verifier_output', '')[:2000])
w = doc.get('witness') or {}
if w.get('found'):
    print('failing input   :', w.get('input'))
    if w.get('command'):
        print('replaying against the real code:', w['command'])
        subprocess.run(w['command'], shell=True)
else:
    print('no failing input was found for this obligation (no-failing-input-found)')
sys.exit(subprocess.run(['./check', doc['property'], 'quick']).returncode)
