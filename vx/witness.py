"""Witness drivers: concrete inputs run against the real crate (a scratch copy of the repository's
working tree + /verif/witness/*.rs as an integration test).  Not proof — used to attach a failing input
to a rejected obligation, to decide units the verifier could not (undecided), and as a conformance check
of the contracts in the thorough tier."""
import os
import re
import shutil
import subprocess
import tempfile
import time

VERIF = os.path.dirname(os.path.dirname(os.path.abspath(__file__)))


def run(repo, filt='', seed=0, timeout=1500):
    """returns dict(ok, witnesses=[{property, obligation, input, got, want}], cases=int, log=str, wall=float, cmd=str)"""
    t0 = time.time()
    scratch = tempfile.mkdtemp(prefix='vx_wit_')
    dst = os.path.join(scratch, 'repo')
    try:
        subprocess.run(['rsync', '-a', '--exclude', 'target', '--exclude', '.git', repo.rstrip('/') + '/', dst + '/'], check=True)
        wdst = os.path.join(dst, 'tests', 'vx_witness')
        os.makedirs(wdst, exist_ok=True)
        for f in os.listdir(os.path.join(VERIF, 'witness')):
            if f.endswith('.rs'):
                shutil.copy(os.path.join(VERIF, 'witness', f), os.path.join(wdst, f))
        env = dict(os.environ, CARGO_TARGET_DIR=os.path.join(scratch, 'target'), CARGO_NET_OFFLINE='true', VERIF_SEED=str(seed), VERIF_TIER=os.environ.get('VERIF_TIER', 'quick'),
                   RUSTFLAGS='-Awarnings')
        if env['VERIF_TIER'] == 'thorough':
            env['VX_C14_D13'] = '1'   # replay the recorded non-terminating judgement sets (4 x 5 s)
        cmd = ['cargo', 'test', '--offline', '--test', 'vx_witness', '--', '--nocapture', '--test-threads', '8']
        if filt:
            for k, fl in enumerate(filt.split()):
                cmd.insert(cmd.index('--') + 1 + k, fl)
        p = subprocess.run(cmd, cwd=dst, env=env, capture_output=True, text=True, timeout=timeout)
        out = p.stdout + '\n' + p.stderr
        excluded = []
        first_errors = ''
        if 'could not compile' in out and 'test result:' not in out:
            # a driver that no longer compiles against this tree (API changed by the edit under test, or a driver under
            # construction) must not take the others with it: drop the offending driver modules and retry once
            bad = sorted(set(re.findall(r'--> tests/vx_witness/(\w+)\.rs', out)) - {'main'})
            if bad:
                mainp = os.path.join(wdst, 'main.rs')
                m = open(mainp).read()
                for b in bad:
                    m = re.sub(r'(?m)^mod %s;\s*$' % re.escape(b), '', m)
                    try:
                        os.remove(os.path.join(wdst, b + '.rs'))
                    except OSError:
                        pass
                # drivers that import a dropped one go too
                for f in os.listdir(wdst):
                    if f.endswith('.rs') and f != 'main.rs' and any(re.search(r'\b%s::' % re.escape(b), open(os.path.join(wdst, f)).read()) for b in bad):
                        m = re.sub(r'(?m)^mod %s;\s*$' % re.escape(f[:-3]), '', m)
                        os.remove(os.path.join(wdst, f))
                        bad.append(f[:-3])
                open(mainp, 'w').write(m)
                excluded = bad
                first_errors = '\n'.join(re.findall(r'(?m)^error.*(?:\n.*){0,6}', out)[:3])[:1500]
                p = subprocess.run(cmd, cwd=dst, env=env, capture_output=True, text=True, timeout=timeout)
                out = p.stdout + '\n' + p.stderr
        wits = []
        for l in out.split('\n'):
            m = re.match(r'WITNESS property=(\S+) obligation=(\S+) input=(.*?) got=(.*?) want=(.*)$', l.strip())
            if m:
                wits.append({'property': m.group(1), 'obligation': m.group(2), 'input': m.group(3)[:600], 'got': m.group(4)[:300], 'want': m.group(5)[:300]})
        # a test binary killed by a signal (native stack overflow, abort) takes every test with it: report the
        # last input announced with a RUNNING line as the culprit
        if 'test result:' not in out and re.search(r'overflowed its stack|SIGABRT|SIGSEGV|signal: \d+|process abort', out):
            running = re.findall(r'RUNNING (\S+) (.*)', out)
            culprit = running[-1] if running else ('?', 'unknown input (no RUNNING line)')
            wits.append({'property': 'C01', 'obligation': 'process.killed_by_signal', 'input': culprit[1][:600],
                         'got': 'the process was killed (' + (re.search(r'overflowed its stack|SIGABRT|SIGSEGV|signal: \d+', out).group(0)) + ')', 'want': 'layout or error'})
        cases = sum(int(m.group(1)) for m in re.finditer(r'CASES \S+ (\d+)', out))
        built = 'test result:' in out or bool(wits)
        return {'ok': built, 'witnesses': wits, 'cases': cases, 'log': out[-3000:], 'wall': time.time() - t0, 'excluded_drivers': excluded, 'excluded_because': first_errors,
                'cmd': 'cargo test --offline --test vx_witness -- ' + filt + ' (scratch copy of the working tree + /verif/witness)'}
    except subprocess.TimeoutExpired:
        return {'ok': False, 'witnesses': [], 'cases': 0, 'log': 'timeout', 'wall': time.time() - t0, 'cmd': ''}
    finally:
        shutil.rmtree(scratch, ignore_errors=True)


# drivers of other properties that also decide sentences of this one (they emit witnesses under both ids)
RELATED = {'C10': ['c08_'], 'C08': ['c10_push', 'c10_dis', 'c03_config'], 'C05': ['c08_'], 'C17': ['c03_gas', 'c03_config'], 'C03': ['c14_named', 'c14_random', 'c17_gas', 'c01_cyclic'], 'C01': ['c10_dis', 'c19_', 'c06_', 'c09_', 'c12_out_of_range'],
           'C18': ['c03_config'], 'C13': ['c03_config'], 'C07': ['c08_valid_targets'], 'C14': ['c01_cyclic']}


def for_property(pid, repo, seed=0):
    filt = ' '.join([pid.lower() + '_'] + RELATED.get(pid, []))
    r = run(repo, filt, seed)
    # a run of this property's drivers that was killed by a signal (native stack overflow, abort) is a failure to terminate
    # normally: it counts for the termination properties too, not only for C01
    for w in r['witnesses']:
        if w['obligation'] == 'process.killed_by_signal' and pid in ('C03', 'C14'):
            w['property'] = pid
    r['witnesses'] = [w for w in r['witnesses'] if w['property'] == pid]
    # drivers of this property that had to be left out because they do not compile against the tree under test
    r['excluded_relevant'] = [d for d in r.get('excluded_drivers', []) if any(fl.startswith(d + '_') or fl.rstrip('_') == d or fl.startswith(d) for fl in filt.split())]
    return r


if __name__ == '__main__':
    import sys
    pid = sys.argv[1] if len(sys.argv) > 1 else ''
    r = for_property(pid, os.environ.get('VX_REPO', '/repo'), int(os.environ.get('VERIF_SEED', '0') or 0)) if pid else run(os.environ.get('VX_REPO', '/repo'))
    print(f"built={r['ok']} cases={r['cases']} wall={r['wall']:.1f}s")
    for w in r['witnesses']:
        print('WITNESS', w)
    if not r['ok']:
        print(r['log'])
