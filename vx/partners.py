"""Partner engine (thorough tier): Kani harnesses on the real crate + real ethnum.  Loop-free harnesses over
fully symbolic operands are complete proofs; they cross-check the A-ETHNUM assumptions of the Verus units.
A Kani failure is a violation WITH a concrete counterexample; a tool problem (timeout, build) is reported in
the evidence and never as a violation."""
import os
import re
import shutil
import subprocess
import tempfile
import time

VERIF = os.path.dirname(os.path.dirname(os.path.abspath(__file__)))
HARNESSES = {
    'C09': ['kw_add_is_mod_2_256', 'kw_sub_is_mod_2_256', 'kw_bitwise_on_limbs', 'kw_comparisons_on_limbs',
            'kw_shifts_total_and_evm_at_256', 'kw_mul_small_exact_and_identities', 'kw_div_mod_by_zero_is_zero'],
}
HARNESSES['C07'] = HARNESSES['C09']
HARNESSES['C01'] = ['kw_shifts_total_and_evm_at_256', 'kw_div_mod_by_zero_is_zero']


def run(pid, tier, units, base):
    if tier != 'thorough' or pid not in HARNESSES:
        return []
    repo = os.environ.get('VX_REPO', '/repo')
    t0 = time.time()
    scratch = tempfile.mkdtemp(prefix='vx_kani_')
    rep = {'engine': 'kani 0.68 / cbmc', 'harnesses': {}, 'obligations': 0, 'failures': [], 'note': ''}
    try:
        dst = os.path.join(scratch, 'repo')
        subprocess.run(['rsync', '-a', '--exclude', 'target', '--exclude', '.git', repo.rstrip('/') + '/', dst + '/'], check=True)
        crate = os.path.join(scratch, 'partners')
        shutil.copytree(os.path.join(VERIF, 'kani', 'src'), os.path.join(crate, 'src'))
        toml = open(os.path.join(VERIF, 'kani', 'Cargo.toml.in')).read().replace('__REPO__', dst)
        open(os.path.join(crate, 'Cargo.toml'), 'w').write(toml)
        shutil.copy(os.path.join(repo, 'Cargo.lock'), os.path.join(crate, 'Cargo.lock'))
        env = dict(os.environ, CARGO_NET_OFFLINE='true', CARGO_TARGET_DIR=os.path.join(scratch, 'target'))
        for h in HARNESSES[pid]:
            th = time.time()
            try:
                p = subprocess.run(['cargo', 'kani', '--harness', h], cwd=crate, env=env, capture_output=True, text=True, timeout=900)
                out = p.stdout + p.stderr
            except subprocess.TimeoutExpired:
                rep['harnesses'][h] = {'status': 'timeout', 'wall_s': round(time.time() - th, 1)}
                continue
            if 'VERIFICATION:- SUCCESSFUL' in out:
                m = re.search(r'\*\* 0 of (\d+) failed', out)
                rep['harnesses'][h] = {'status': 'proved', 'checks': int(m.group(1)) if m else None, 'wall_s': round(time.time() - th, 1)}
                rep['obligations'] += 1
            elif 'VERIFICATION:- FAILED' in out:
                failed = re.findall(r'Failed Checks: (.*)', out)
                rep['harnesses'][h] = {'status': 'FAILED', 'failed_checks': failed[:5], 'wall_s': round(time.time() - th, 1)}
                rep['obligations'] += 1
                rep['failures'].append({'unit': 'kani', 'function': h, 'extracted': False, 'kind': 'kani-counterexample',
                                        'message': 'Kani harness failed on the real crate: ' + '; '.join(failed[:3]),
                                        'labels': [f'{pid}.kani.{h}'], 'props': [pid], 'gen_line': 0, 'clause': h, 'src': None,
                                        'rendered': out[-3000:]})
            else:
                rep['harnesses'][h] = {'status': 'tool-error', 'tail': out[-400:], 'wall_s': round(time.time() - th, 1)}
    except Exception as e:  # never an alarm
        rep['note'] = f'partner engine error: {e}'
    finally:
        shutil.rmtree(scratch, ignore_errors=True)
    rep['wall_s'] = round(time.time() - t0, 1)
    return [rep]
