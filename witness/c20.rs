//! C20: layout entries survive a JSON round trip; slot indices are 0x-prefixed 64-digit hex words read back exactly.
use ethnum::U256;
use storage_layout_extractor::{
    layout::StorageSlot,
    tc::abi::{AbiType, StructElement},
    utility::U256Wrapper,
};

use crate::{boundary_words, witness, Rng};

fn leaves() -> Vec<AbiType> {
    vec![
        AbiType::Any,
        AbiType::Number { size: None },
        AbiType::Number { size: Some(64) },
        AbiType::UInt { size: Some(256) },
        AbiType::UInt { size: None },
        AbiType::Int { size: Some(8) },
        AbiType::Address,
        AbiType::Selector,
        AbiType::Function,
        AbiType::Bool,
        AbiType::Bytes { length: Some(32) },
        AbiType::Bytes { length: None },
        AbiType::Bits { length: Some(7) },
        AbiType::DynBytes,
        AbiType::InfiniteType,
        AbiType::conflict(),
        AbiType::ConflictedType { conflicts: vec!["a".into(), "b \"q\"".into()], reasons: vec![] },
        AbiType::ConflictedType { conflicts: vec![], reasons: vec!["r".into()] },
        AbiType::ConflictedType { conflicts: vec!["x".into()], reasons: vec!["y".into()] },
    ]
}

fn tree(rng: &mut Rng, depth: u32) -> AbiType {
    let ls = leaves();
    if depth == 0 || rng.below(4) == 0 {
        return ls[rng.below(ls.len() as u64) as usize].clone();
    }
    let bw = boundary_words();
    match rng.below(4) {
        0 => AbiType::Array { size: U256Wrapper(bw[rng.below(bw.len() as u64) as usize]), tp: Box::new(tree(rng, depth - 1)) },
        1 => AbiType::DynArray { tp: Box::new(tree(rng, depth - 1)) },
        2 => AbiType::Mapping { key_type: Box::new(tree(rng, depth - 1)), value_type: Box::new(tree(rng, depth - 1)) },
        _ => AbiType::Struct { elements: (0..1 + rng.below(3)).map(|i| StructElement::new(((i * 64 + rng.below(4) * 101) % 256) as usize, tree(rng, depth - 1))).collect() },
    }
}

#[test]
fn c20_slot_json_round_trip() {
    let mut cases = 0u64;
    let bw = boundary_words();
    // every boundary index: exact text form and exact read-back
    for &ix in &bw {
        let slot = StorageSlot::new(U256Wrapper(ix), 0, AbiType::Any);
        let txt = serde_json::to_string(&slot).unwrap();
        let want = format!("\"0x{:064x}\"", ix);
        if !txt.contains(&want) { witness("C20", "hex.serialize.emits_0x_plus_64_be_hex_digits", format!("index {ix:#x}"), txt.clone(), format!("contains {want}")); }
        match serde_json::from_str::<StorageSlot>(&txt) {
            Ok(back) if back == slot && back.index.0 == ix => {}
            Ok(back) => witness("C20", "hex.deserialize.reads_back_exactly", format!("index {ix:#x}"), format!("{:#x}", back.index.0), format!("{ix:#x}")),
            Err(e) => witness("C20", "hex.deserialize.reads_back_exactly", format!("index {ix:#x} json {txt}"), format!("Err({e})"), "Ok(equal entry)".into()),
        }
        cases += 1;
    }
    // every offset 0..=255 with a sub-byte type, and a struct whose elements are not in ascending offset order
    for off in 0..256usize {
        let slot = StorageSlot::new(U256Wrapper(U256::MAX), off, AbiType::Bits { length: Some(3) });
        let txt = serde_json::to_string(&slot).unwrap();
        match serde_json::from_str::<StorageSlot>(&txt) {
            Ok(back) if back == slot => {}
            other => witness("C20", "json.round_trip_equal", format!("offset {off}: {txt}"), format!("{other:?}").chars().take(200).collect(), "Ok(equal entry)".into()),
        }
        cases += 1;
    }
    {
        let t = AbiType::Struct { elements: vec![StructElement::new(128, AbiType::UInt { size: Some(128) }), StructElement::new(0, AbiType::Address)] };
        let slot = StorageSlot::new(U256Wrapper(U256::ONE), 0, AbiType::Mapping { key_type: Box::new(AbiType::Address), value_type: Box::new(t) });
        let txt = serde_json::to_string(&slot).unwrap();
        match serde_json::from_str::<StorageSlot>(&txt) {
            Ok(back) if back == slot && serde_json::to_string(&back).unwrap() == txt => {}
            other => witness("C20", "json.round_trip_equal", txt.clone(), format!("{other:?}").chars().take(300).collect(), "Ok(equal entry)".into()),
        }
        cases += 1;
    }
    // every leaf type and random nested types up to depth 5, random/boundary indices, offsets 0..255
    let mut rng = Rng::seeded(20);
    let mut types = leaves();
    for _ in 0..300 * crate::scale() { types.push(tree(&mut rng, 5)); }
    for t in types {
        let ix = if rng.below(2) == 0 { bw[rng.below(bw.len() as u64) as usize] } else { rng.word() };
        let slot = StorageSlot::new(U256Wrapper(ix), rng.below(256) as usize, t);
        let txt = match serde_json::to_string(&slot) { Ok(t) => t, Err(e) => { witness("C20", "json.serialises", format!("{slot:?}"), format!("Err({e})"), "Ok".into()); continue } };
        match serde_json::from_str::<StorageSlot>(&txt) {
            // conflicted types compare equal regardless of payload, so compare the re-serialised text as well
            Ok(back) => {
                let txt2 = serde_json::to_string(&back).unwrap_or_default();
                if back != slot || txt2 != txt { witness("C20", "json.round_trip_equal", txt.chars().take(300).collect(), txt2.chars().take(300).collect(), "the same entry".into()); }
            }
            Err(e) => witness("C20", "json.round_trip_equal", txt.chars().take(300).collect(), format!("Err({e})"), "Ok(equal entry)".into()),
        }
        cases += 1;
    }
    let _ = U256::ZERO;
    println!("CASES c20_round_trip {cases}");
}

/// every way of reading the JSON back, not only `from_str` on the text just written: through a `serde_json::Value`, from a
/// reader, from bytes, from text whose strings carry legal JSON escapes, and pretty-printed text; and every width an integral
/// / bytes / bits type can carry (1..=256), at every offset 0..=255
#[test]
fn c20_every_reading_path_and_every_width_round_trips() {
    let mut cases = 0u64;
    let bw = boundary_words();
    let mut slots: Vec<StorageSlot> = vec![];
    for (i, &ix) in bw.iter().enumerate() {
        slots.push(StorageSlot::new(U256Wrapper(ix), (i * 37) % 256, AbiType::Array { size: U256Wrapper(bw[(i + 3) % bw.len()]), tp: Box::new(AbiType::Bits { length: Some(1 + i % 7) }) }));
    }
    for w in 1..=256usize {
        let t = match w % 5 { 0 => AbiType::Number { size: Some(w) }, 1 => AbiType::UInt { size: Some(w) }, 2 => AbiType::Int { size: Some(w) }, 3 => AbiType::Bits { length: Some(w) }, _ => AbiType::Bytes { length: Some(w) } };
        slots.push(StorageSlot::new(U256Wrapper(U256::from(w as u64)), w - 1, t.clone()));
        slots.push(StorageSlot::new(U256Wrapper(U256::MAX - U256::from(w as u64)), 256 - w, AbiType::Mapping { key_type: Box::new(t.clone()), value_type: Box::new(AbiType::Struct { elements: vec![StructElement::new(w - 1, t)] }) }));
    }
    for slot in &slots {
        let txt = serde_json::to_string(slot).unwrap();
        let mut ways: Vec<(&str, Result<StorageSlot, String>)> = vec![];
        ways.push(("from_str", serde_json::from_str::<StorageSlot>(&txt).map_err(|e| e.to_string())));
        ways.push(("from_slice", serde_json::from_slice::<StorageSlot>(txt.as_bytes()).map_err(|e| e.to_string())));
        ways.push(("from_reader", serde_json::from_reader::<_, StorageSlot>(std::io::Cursor::new(txt.clone().into_bytes())).map_err(|e| e.to_string())));
        ways.push(("to_value / from_value", serde_json::to_value(slot).map_err(|e| e.to_string()).and_then(|v| serde_json::from_value::<StorageSlot>(v).map_err(|e| e.to_string()))));
        ways.push(("from_str of the Value parsed from the text", serde_json::from_str::<serde_json::Value>(&txt).map_err(|e| e.to_string()).and_then(|v| serde_json::from_value::<StorageSlot>(v).map_err(|e| e.to_string()))));
        ways.push(("pretty-printed text", serde_json::to_string_pretty(slot).map_err(|e| e.to_string()).and_then(|t| serde_json::from_str::<StorageSlot>(&t).map_err(|e| e.to_string()))));
        // the same text with the first hex digit after every "0x written as a JSON \u escape (a legal spelling of the same string)
        let escaped = txt.replace("\"0x0", "\"0x\\u0030").replace("\"0xf", "\"0x\\u0066");
        ways.push(("text with \\u escapes inside the hex strings", serde_json::from_str::<StorageSlot>(&escaped).map_err(|e| e.to_string())));
        for (how, r) in ways {
            cases += 1;
            match r {
                Ok(back) if back == *slot => {}
                Ok(back) => witness("C20", "json.round_trip_equal", format!("{how}: {txt}"), format!("{back:?}"), format!("{slot:?}")),
                Err(e) => witness("C20", "json.round_trip_equal", format!("{how}: {txt}"), format!("Err({e})"), "the entry that was written".into()),
            }
        }
    }
    println!("CASES c20_reading_paths {cases}");
}
