//! C17: strict mode surfaces execution errors; permissive tolerates bad jump targets (JUMP and JUMPI alike).
use crate::{c08::{analyze, Out}, witness};

#[test]
fn c17_strict_vs_permissive() {
    std::panic::set_hook(Box::new(|_| {}));
    // bad jump targets: non-JUMPDEST, out of range, in push data, symbolic — via JUMP and via JUMPI
    let tail = [0x60u8, 0x01, 0x60, 0x05, 0x55, 0x00];
    let mut progs: Vec<(String, Vec<u8>)> = vec![];
    let big = |n: usize, top: u8| { let mut v = vec![0x5f + n as u8, top]; v.extend(std::iter::repeat(0u8).take(n - 1)); v };
    for (tname, target) in [("out-of-range", vec![0x60u8, 0xff]), ("non-jumpdest", vec![0x60, 0x01]), ("symbolic", vec![0x36]),
                            ("out-of-range 2^32", big(5, 1)), ("out-of-range 2^64", big(9, 1)), ("out-of-range 2^255", big(32, 0x80)), ("out-of-range 2^256-1", { let mut v = vec![0x7f]; v.extend([0xffu8; 32]); v })] {
        // JUMPI: PUSH1 1 <target> JUMPI tail
        let mut p = vec![0x60, 0x01];
        p.extend(&target);
        p.push(0x57);
        p.extend(tail);
        progs.push((format!("JUMPI {tname}"), p));
        // JUMP behind a JUMPI so that another path survives: CALLDATASIZE PUSH1 <dest> JUMPI <target> JUMP ; JUMPDEST tail
        let mut p = vec![0x36, 0x60, 0x00, 0x57];
        p.extend(&target);
        p.push(0x56);
        let dest = p.len() as u8;
        p[2] = dest;
        p.push(0x5b);
        p.extend(tail);
        progs.push((format!("JUMP {tname}"), p));
    }
    let n = progs.len();
    for (name, code) in progs {
        let strict = analyze(&code, false);
        let perm = analyze(&code, true);
        match perm {
            Out::Err(e) => witness("C17", "ctl.permissive_tolerates_bad_jump", format!("{name}: {code:02x?}"), format!("Err {e}"), "Ok".into()),
            Out::Panic => witness("C01", "analyze.panic", format!("{name}: {code:02x?}"), "PANIC".into(), "no panic".into()),
            Out::Ok(_) => {}
        }
        match strict {
            // a symbolic target reached by JUMP is not an error by design: the branch is halted quietly (Jump::execute)
            Out::Ok(_) if name != "JUMP symbolic" => {
                witness("C17", "ctl.strict_surfaces_errors", format!("{name}: {code:02x?}"), "Ok".into(), "Err listing the jump error".into())
            }
            Out::Panic => witness("C01", "analyze.panic", format!("{name} strict: {code:02x?}"), "PANIC".into(), "no panic".into()),
            _ => {}
        }
    }
    // a tolerated bad JUMP still ENDS its path: what lies behind it is never executed, so it cannot raise further errors
    for (name, code) in [("bad JUMP followed by POP on an empty stack", vec![0x60u8, 0x04, 0x56, 0x50, 0x00]),
                         ("bad JUMP followed by ADD", vec![0x60, 0x01, 0x60, 0x00, 0x55, 0x60, 0x03, 0x56, 0x01, 0x00]),
                         ("bad JUMP (2^255) followed by SSTORE", { let mut v = vec![0x7f, 0x80]; v.extend([0u8; 31]); v.extend([0x56, 0x55, 0x00]); v }),
                         ("JUMP into push data followed by SWAP1", vec![0x60, 0x04, 0x56, 0x60, 0x5b, 0x90, 0x00])] {
        if let Out::Err(e) = analyze(&code, true) { witness("C17", "ctl.permissive_tolerates_bad_jump", format!("{name}: {code:02x?}"), format!("Err {e}"), "Ok: the path ends at the bad jump".into()); }
    }
    // other execution errors still fail in permissive mode: stack underflow (POP on empty stack)
    for (name, code) in [("stack underflow", vec![0x50u8, 0x00]), ("JUMP on an empty stack", vec![0x56, 0x00]), ("JUMPI with one operand", vec![0x60, 0x04, 0x57, 0x00, 0x5b, 0x00]),
                         ("JUMPI on an empty stack behind a fork", vec![0x36, 0x60, 0x05, 0x57, 0x00, 0x5b, 0x57, 0x00])] {
        if let Out::Ok(_) = analyze(&code, true) { witness("C17", "ctl.permissive_still_fails_on_other_errors", format!("{name}: {code:02x?}"), "Ok".into(), "Err".into()); }
    }
    println!("CASES c17_programs {n}");
}

/// errors of one run, as (location, kind) strings, through the VM API
fn vm_errors(code: &[u8], permissive: bool, gas_limit: usize) -> Option<Vec<String>> {
    use storage_layout_extractor::{disassembly::InstructionStream, vm::{Config, VM}, watchdog::LazyWatchdog};
    let code = code.to_vec();
    std::panic::catch_unwind(move || {
        let is = InstructionStream::try_from(code.as_slice()).ok()?;
        let mut vm = VM::new(is, Config::default().with_permissive_errors(permissive).with_gas_limit(gas_limit), LazyWatchdog.in_rc()).ok()?;
        let r = vm.execute();
        Some(match r { Ok(()) => vec![], Err(es) => es.payloads().iter().map(|e| format!("{}:{:?}", e.location, e.payload)).collect() })
    }).ok().flatten()
}

/// whatever permissive mode still reports, strict mode reports too (permissive only drops jump-target kinds);
/// running out of gas is an error in both modes, also on the last instruction of a thread
#[test]
fn c17_strict_lists_at_least_what_permissive_lists() {
    std::panic::set_hook(Box::new(|_| {}));
    let programs: Vec<Vec<u8>> = vec![
        vec![0x60, 0x01, 0x60, 0xff, 0x57, 0x00],                                  // JUMPI to a non-existent target
        vec![0x60, 0x01, 0x60, 0x01, 0x57, 0x00],                                  // JUMPI to a non-JUMPDEST
        vec![0x60, 0xff, 0x56],                                                    // JUMP out of range
        vec![0x36, 0x60, 0x08, 0x57, 0x60, 0xff, 0x56, 0x00, 0x5b, 0x50, 0x00],   // fork; one arm bad JUMP, other arm underflow
        vec![0x5f, 0x5f],
        vec![0x5f, 0xff, 0x00],
        vec![0x36, 0x56, 0x5b, 0x00],
        vec![0x5f, 0x50, 0x5f, 0x50, 0x5f, 0x50, 0x00],
    ];
    let mut cases = 0;
    for code in &programs {
        let Some(big) = vm_errors(code, true, 1_000_000) else { continue };
        for gas in [1usize, 2, 3, 5, 10, 20, 50, 1_000_000] {
            let (Some(strict), Some(perm)) = (vm_errors(code, false, gas), vm_errors(code, true, gas)) else { continue };
            for e in &perm {
                if !strict.contains(e) { witness("C17", "ctl.strict_lists_every_error", format!("code={code:02x?} gas_limit={gas}"), format!("strict lists {strict:?}"), format!("also {e} (reported in permissive mode)")); }
            }
            // gas: with a limit of 1 every program here consumes more than the limit on some thread
            if gas <= 1 && !perm.iter().any(|e| e.contains("GasLimitExceeded")) {
                witness("C17", "ctl.gas_exhaustion_is_an_error_in_both_modes", format!("code={code:02x?} gas_limit={gas}"), format!("permissive errors {perm:?}"), "GasLimitExceeded".into());
            }
            cases += 1;
        }
        let _ = big;
    }
    println!("CASES c17_lists {cases}");
}

/// straight-line programs: the path's minimum gas is the sum of the opcodes' `min_gas_cost`; with any smaller limit
/// the run must report GasLimitExceeded — in both modes, and also when the crossing instruction is the last one
#[test]
fn c17_gas_exhaustion_reported_at_every_limit_below_the_path_cost() {
    use storage_layout_extractor::disassembly::InstructionStream;
    std::panic::set_hook(Box::new(|_| {}));
    // a forked path is charged for what ran before the fork: prefix 9 + suffix 107 > 110, each side alone is within the limit
    {
        let code = vec![0x60u8, 0x00, 0x35, 0x60, 0x07, 0x57, 0x00, 0x5b, 0x60, 0x01, 0x60, 0x00, 0x55, 0x00];
        for permissive in [false, true] {
            if let Some(errs) = vm_errors(&code, permissive, 110) {
                if !errs.iter().any(|e| e.contains("GasLimitExceeded")) {
                    witness("C17", "ctl.gas_exhaustion_is_an_error_in_both_modes", format!("code={code:02x?} gas_limit=110 permissive={permissive} (forked path costs 9 + 107)"), format!("errors {errs:?}"), "GasLimitExceeded".into());
                    witness("C03", "limits.fork.inherits_gas", format!("code={code:02x?} gas_limit=110"), format!("errors {errs:?}"), "GasLimitExceeded on the forked path".into());
                }
            }
        }
    }
    let programs: Vec<Vec<u8>> = vec![
        vec![0x5f, 0x5f],
        vec![0x5f, 0x50, 0x5f, 0x50, 0x00],
        vec![0x5f, 0xff, 0x00],
        vec![0x36, 0x50, 0x5b, 0x5b, 0x36, 0x50],
        vec![0x60, 0x01, 0x60, 0x02, 0x01, 0x50],
        vec![0x60, 0x01, 0x60, 0x00, 0x55],
    ];
    let mut cases = 0;
    for code in &programs {
        let Ok(is) = InstructionStream::try_from(code.as_slice()) else { continue };
        let t = is.new_thread(0).unwrap();
        // cost of the instructions executed before the path ends (halting opcodes end it)
        let mut total = 0usize;
        let mut ip = 0usize;
        while ip < code.len() {
            let op = t.instruction(ip as u32).unwrap();
            total += op.min_gas_cost();
            if [0x00u8, 0xf3, 0xfd, 0xfe, 0xff].contains(&code[ip]) { break; }
            ip += if (0x60..=0x7f).contains(&code[ip]) { 1 + (code[ip] - 0x5f) as usize } else { 1 };
        }
        for limit in (0..total).chain([total, total + 1]) {
            for permissive in [false, true] {
                let Some(errs) = vm_errors(code, permissive, limit) else { continue };
                let exceeded = errs.iter().any(|e| e.contains("GasLimitExceeded"));
                if exceeded != (limit < total) {
                    witness("C17", "ctl.gas_exhaustion_is_an_error_in_both_modes", format!("code={code:02x?} path cost {total} gas_limit={limit} permissive={permissive}"), format!("errors {errs:?}"), if limit < total { "GasLimitExceeded".into() } else { "no gas error".into() });
                    witness("C03", "limits.gas_limit_respected", format!("code={code:02x?} path cost {total} gas_limit={limit} permissive={permissive}"), format!("errors {errs:?}"), if limit < total { "GasLimitExceeded".into() } else { "no gas error".into() });
                }
                cases += 1;
            }
        }
    }
    println!("CASES c17_gas_limits {cases}");
}

/// a jump whose constant target is a 0x5b byte inside the data of a PUSH cut short by the end of the code (not an
/// instruction boundary, so not a JUMPDEST): strict mode lists exactly one error, at the jump; permissive mode lists none
#[test]
fn c17_jump_into_cut_short_push_data() {
    std::panic::set_hook(Box::new(|_| {}));
    let mut cases = 0;
    for n in [2usize, 5, 32] {
        // `present` < n bytes of the immediate exist: the push is cut short
        for present in 1..n.min(4) {
            for jumpi in [false, true] {
                // [PUSH1 1]? PUSH1 t JUMP|JUMPI STOP PUSHn 5b..      (t = offset of the first data byte)
                let mut code: Vec<u8> = if jumpi { vec![0x60, 0x01] } else { vec![] };
                code.extend([0x60, 0x00]);
                let jump_at = code.len();
                code.push(if jumpi { 0x57 } else { 0x56 });
                code.push(0x00);
                code.push(0x5f + n as u8);
                let t = code.len();
                code.extend(std::iter::repeat(0x5b).take(present));
                code[jump_at - 1] = t as u8;
                cases += 1;
                let (Some(strict), Some(perm)) = (vm_errors(&code, false, 1_000_000), vm_errors(&code, true, 1_000_000)) else {
                    witness("C17", "ctl.bad_target_in_cut_short_push", format!("{code:02x?}"), "PANIC or no disassembly".into(), "errors of both modes".into());
                    continue;
                };
                if strict.len() != 1 || !strict[0].starts_with(&format!("{jump_at}:")) {
                    witness("C17", "ctl.strict_surfaces_errors", format!("jump into the data of a cut-short PUSH{n}: {code:02x?}"), format!("strict errors {strict:?}"), format!("exactly one jump-target error located at {jump_at}"));
                }
                if !perm.is_empty() {
                    witness("C17", "ctl.permissive_tolerates_bad_jump", format!("jump into the data of a cut-short PUSH{n}: {code:02x?}"), format!("permissive errors {perm:?}"), "none".into());
                }
            }
        }
    }
    println!("CASES c17_cut_short_push {cases}");
}

/// a stack overflow (the 1025th item, by PUSH or by any DUPn) is an execution error in BOTH modes, located at the overflowing
/// instruction; an underflow by each of DUPn / SWAPn / POP likewise
#[test]
fn c17_stack_overflow_and_underflow_are_errors_in_both_modes() {
    std::panic::set_hook(Box::new(|_| {}));
    let mut progs: Vec<(String, Vec<u8>, usize, &str)> = vec![];
    for tail in [0x5fu8, 0x80, 0x81, 0x8f, 0x30, 0x36] {
        let mut code: Vec<u8> = std::iter::repeat(0x5fu8).take(1024).collect();
        code.extend([tail, 0x00]);
        progs.push((format!("1024 x PUSH0 then opcode {tail:#04x}"), code, 1024, "StackDepthExceeded"));
    }
    for (tail, have) in [(0x80u8, 0usize), (0x81, 1), (0x8f, 15), (0x90, 1), (0x9f, 16), (0x50, 0), (0x01, 1), (0x55, 1)] {
        let mut code: Vec<u8> = std::iter::repeat(0x5fu8).take(have).collect();
        code.extend([tail, 0x00]);
        progs.push((format!("{have} items then opcode {tail:#04x}"), code, have, "NoSuchStackFrame"));
    }
    let n = progs.len();
    for (what, code, at, kind) in progs {
        for permissive in [false, true] {
            let Some(errs) = vm_errors(&code, permissive, 10_000_000) else { continue };
            if !errs.iter().any(|e| e.starts_with(&format!("{at}:")) && e.contains(kind)) {
                witness("C17", "ctl.stack_errors_surface_in_both_modes", format!("{what} (permissive={permissive}): code of {} bytes ending {:02x?}", code.len(), &code[code.len().saturating_sub(4)..]), format!("errors {errs:?}"), format!("{kind} located at {at}"));
            }
        }
    }
    println!("CASES c17_stack_errors {n}");
}
