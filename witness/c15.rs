//! C15: compatible evidence joins to its most specific type; contradictions conflict.
//!
//! Judgement sets are generated from a hidden ground-truth typing: every variable has a true (finite) type; the
//! judgements are weakenings of it (a less specific usage, an unknown width, `any`, the same constructor over
//! other variables of the right component types, a sub-range of a packed layout) plus equalities between
//! same-typed variables.  The evidence is SPREAD: a class of variables joined by the equalities and by the
//! component unification of constructors carries the full truth only collectively (checked by the driver's own
//! congruence closure before the run).  After the REAL `unify`, every variable must resolve — structurally, through
//! its components — to the true type and never to a conflict (`join.compatible_is_most_specific`).  Then one
//! contradictory judgement is injected into one class (two different widths / incompatible usages such as
//! address vs signed / mapping vs dynamic array / mapping or array vs a sized word): every member of that class
//! must resolve to a conflict (`join.contradiction_is_conflict`).
use std::{collections::BTreeMap, time::Duration};

use ethnum::U256;
use storage_layout_extractor::{
    data::vector_map::ToUniqueIndex,
    tc::expression::{WordUse, TE},
};

use crate::{
    c14::{minimise, run, show_js, show_use, Outcome, Run, Uf, J, T},
    scale, witness, Rng,
};

/// ground-truth types
#[derive(Clone, Debug, PartialEq, Eq)]
enum G {
    Any,
    Bytes,
    Word(Option<usize>, WordUse),
    Map(Box<G>, Box<G>),
    Dyn(Box<G>),
    Fix(Box<G>, u64),
    /// gap-free layout from bit 0: (element, offset, size)
    Packed(Vec<(G, usize, usize)>),
}

fn show_g(g: &G) -> String {
    match g {
        G::Any => "any".into(),
        G::Bytes => "dynbytes".into(),
        G::Word(w, u) => format!("{}<{}>", show_use(u), w.map_or("?".to_string(), |w| w.to_string())),
        G::Map(k, v) => format!("map<{},{}>", show_g(k), show_g(v)),
        G::Dyn(e) => format!("dyn<{}>", show_g(e)),
        G::Fix(e, n) => format!("fix<{};{n}>", show_g(e)),
        G::Packed(s) => format!("packed({})", s.iter().map(|(g, o, z)| format!("{}@[{o},{})", show_g(g), o + z)).collect::<Vec<_>>().join(",")),
    }
}

/// the usage lattice of the property: bytesN below everything, num below uint/int/address, uint below address
fn below(u: WordUse) -> Vec<WordUse> {
    match u {
        WordUse::Bytes => vec![WordUse::Bytes],
        WordUse::Numeric => vec![WordUse::Bytes, WordUse::Numeric],
        WordUse::UnsignedNumeric => vec![WordUse::Bytes, WordUse::Numeric, WordUse::UnsignedNumeric],
        WordUse::SignedNumeric => vec![WordUse::Bytes, WordUse::Numeric, WordUse::SignedNumeric],
        WordUse::Address => vec![WordUse::Bytes, WordUse::Numeric, WordUse::UnsignedNumeric, WordUse::Address],
        other => vec![WordUse::Bytes, other],
    }
}
fn compatible(a: WordUse, b: WordUse) -> bool { below(a).contains(&b) || below(b).contains(&a) }
const USES: [WordUse; 8] = [WordUse::Bytes, WordUse::Numeric, WordUse::UnsignedNumeric, WordUse::SignedNumeric, WordUse::Bool, WordUse::Address, WordUse::Selector, WordUse::Function];

fn gen_word(rng: &mut Rng, size: Option<usize>) -> G {
    match size {
        None => {
            let u = USES[rng.below(8) as usize];
            let w = if u.size().is_some() { u.size() } else if rng.below(5) == 0 { None } else { Some([8, 32, 64, 128, 256, 1, 4, 7, 250, 255][rng.below(10) as usize]) };
            G::Word(w, u)
        }
        Some(z) => {
            let fitting: Vec<WordUse> = USES.iter().copied().filter(|u| u.size().map_or(true, |s| s == z)).collect();
            G::Word(Some(z), fitting[rng.below(fitting.len() as u64) as usize])
        }
    }
}

fn gen_g(rng: &mut Rng, depth: u32) -> G {
    let pick = if depth == 0 { rng.below(10) } else { rng.below(20) };
    match pick {
        0 => G::Bytes,
        1 => G::Any,
        2..=9 => gen_word(rng, None),
        10..=12 => G::Map(Box::new(gen_g(rng, 0)), Box::new(gen_g(rng, depth - 1))),
        13 | 14 => G::Dyn(Box::new(gen_g(rng, depth - 1))),
        15 | 16 => G::Fix(Box::new(gen_g(rng, depth - 1)), 2 + rng.below(3)),
        _ => {
            let mut spans = Vec::new();
            let mut at = 0usize;
            let k = 2 + rng.below(3);
            for _ in 0..k {
                let z = [8usize, 16, 32, 64, 96, 160][rng.below(6) as usize];
                if at + z > 256 { break; }
                spans.push((gen_word(rng, Some(z)), at, z));
                at += z;
            }
            G::Packed(spans)
        }
    }
}

struct World {
    g: Vec<G>,
    js: Vec<J>,
    todo: Vec<usize>,
    cap: usize,
}

impl World {
    fn var_of(&mut self, g: &G, rng: &mut Rng) -> usize {
        let same: Vec<usize> = (0..self.g.len()).filter(|i| self.g[*i] == *g).collect();
        if !same.is_empty() && (self.g.len() >= self.cap || rng.below(2) == 0) {
            return same[rng.below(same.len() as u64) as usize];
        }
        self.g.push(g.clone());
        self.todo.push(self.g.len() - 1);
        self.g.len() - 1
    }

    /// the truth of `v` written as a judgement over (possibly new) component variables; `full` = no weakening
    fn evidence(&mut self, v: usize, rng: &mut Rng, full: bool) -> T {
        let g = self.g[v].clone();
        if !full && rng.below(8) == 0 { return T::Any; }
        match &g {
            G::Any => T::Any,
            G::Bytes => T::Bytes,
            G::Word(w, u) => {
                if full { return T::Word(*w, *u); }
                let b = below(*u);
                T::Word(if rng.below(2) == 0 { None } else { *w }, b[rng.below(b.len() as u64) as usize])
            }
            G::Map(k, w) => T::Map(self.var_of(k, rng), self.var_of(w, rng)),
            G::Dyn(e) => T::Dyn(self.var_of(e, rng)),
            G::Fix(e, n) => T::Fix(self.var_of(e, rng), *n),
            G::Packed(spans) => {
                let (lo, hi) = if full || rng.below(2) == 0 { (0, spans.len()) } else { let lo = rng.below(spans.len() as u64) as usize; (lo, lo + 1 + rng.below((spans.len() - lo) as u64) as usize) };
                T::Packed(spans[lo..hi].iter().map(|(e, o, z)| (self.var_of(e, rng), *o, *z)).collect(), false)
            }
        }
    }

    fn drain(&mut self, rng: &mut Rng) {
        while let Some(v) = self.todo.pop() {
            for _ in 0..rng.below(3) {
                let t = self.evidence(v, rng, false);
                self.js.push(J::Is(v, t));
            }
        }
    }
}

/// the driver's congruence closure: classes under the declared equalities + component unification
fn closure(n: usize, js: &[J]) -> Uf {
    let mut uf = Uf::new(n);
    for j in js { if let J::Eq(a, b) = j { uf.union(*a, *b); } }
    let is: Vec<(usize, &T)> = js.iter().filter_map(|j| if let J::Is(v, t) = j { Some((*v, t)) } else { None }).collect();
    loop {
        let mut changed = false;
        for (i, (va, ta)) in is.iter().enumerate() {
            for (vb, tb) in is.iter().skip(i + 1) {
                if uf.find(*va) != uf.find(*vb) { continue; }
                match (ta, tb) {
                    (T::Map(k1, v1), T::Map(k2, v2)) => { changed |= uf.union(*k1, *k2); changed |= uf.union(*v1, *v2); }
                    (T::Dyn(e1), T::Dyn(e2)) | (T::Fix(e1, _), T::Fix(e2, _)) => { changed |= uf.union(*e1, *e2); }
                    (T::Packed(s1, _), T::Packed(s2, _)) => {
                        for (x, xo, xs) in s1 { for (y, yo, ys) in s2 { if (xo, xs) == (yo, ys) { changed |= uf.union(*x, *y); } } }
                    }
                    _ => {}
                }
            }
        }
        if !changed { break; }
    }
    uf
}

/// variables whose class does not yet carry the whole truth collectively
fn deficient(g: &[G], js: &[J]) -> Vec<usize> {
    let n = g.len();
    let mut uf = closure(n, js);
    let mut out = Vec::new();
    for c in 0..n {
        if uf.find(c) != c { continue; }
        let ev: Vec<&T> = js.iter().filter_map(|j| match j { J::Is(v, t) if uf.find(*v) == c => Some(t), _ => None }).collect();
        let ok = match &g[c] {
            G::Any => true,
            G::Bytes => ev.iter().any(|t| matches!(t, T::Bytes)),
            G::Word(w, u) => {
                let width_known = w.is_none() || ev.iter().any(|t| matches!(t, T::Word(Some(_), _)));
                width_known && ev.iter().any(|t| matches!(t, T::Word(_, x) if x == u))
            }
            G::Map(..) => ev.iter().any(|t| matches!(t, T::Map(..))),
            G::Dyn(..) => ev.iter().any(|t| matches!(t, T::Dyn(..))),
            G::Fix(..) => ev.iter().any(|t| matches!(t, T::Fix(..))),
            G::Packed(spans) => spans.iter().all(|(_, o, z)| ev.iter().any(|t| matches!(t, T::Packed(s, _) if s.iter().any(|(_, so, sz)| so == o && sz == z)))),
        };
        if !ok { out.push(c); }
    }
    out
}

fn build(rng: &mut Rng, depth: u32, cap: usize) -> (Vec<G>, Vec<J>) {
    let mut w = World { g: Vec::new(), js: Vec::new(), todo: Vec::new(), cap };
    for _ in 0..1 + rng.below(3) {
        let g = gen_g(rng, depth);
        // several variables of each root type, so that there is something to equate
        for _ in 0..1 + rng.below(3) { w.g.push(g.clone()); w.todo.push(w.g.len() - 1); }
    }
    w.drain(rng);
    // equalities between same-typed variables
    let n = w.g.len();
    for a in 0..n { for b in a + 1..n { if w.g[a] == w.g[b] && rng.below(3) == 0 { w.js.push(if rng.below(2) == 0 { J::Eq(a, b) } else { J::Eq(b, a) }); } } }
    // complete the evidence of every class that does not carry its truth yet
    for _ in 0..200 {
        let d = deficient(&w.g, &w.js);
        let Some(&c) = d.first() else { break };
        let mut uf = closure(w.g.len(), &w.js);
        let members: Vec<usize> = (0..w.g.len()).filter(|v| uf.find(*v) == c).collect();
        let m = members[rng.below(members.len() as u64) as usize];
        let t = w.evidence(m, rng, true);
        // a word's truth is sometimes split into two weakenings that only join to it
        match (&t, rng.below(2)) {
            (T::Word(Some(wd), u), 0) => {
                let m2 = members[rng.below(members.len() as u64) as usize];
                w.js.push(J::Is(m, T::Word(Some(*wd), WordUse::Bytes)));
                w.js.push(J::Is(m2, T::Word(None, *u)));
            }
            _ => w.js.push(J::Is(m, t)),
        }
        w.drain(rng);
    }
    // shuffle
    for i in (1..w.js.len()).rev() { let k = rng.below(i as u64 + 1) as usize; w.js.swap(i, k); }
    (w.g, w.js)
}

/// does the real result for variable id `id` equal the ground truth, structurally?  Err(path: got) otherwise
fn matches_truth(r: &Run, id: usize, g: &G, path: &str) -> Result<(), String> {
    let Some(i) = r.info.get(&id) else { return Err(format!("{path}: variable unknown to the state")) };
    let t = match &i.type_of { Ok(t) => t, Err(e) => return Err(format!("{path}: type_of = Err({e})")) };
    let bad = || Err(format!("{path}: resolved to {}", if matches!(t, TE::Conflict { .. }) { format!("a conflict {t:?}") } else { format!("{t:?}") }));
    match (t, g) {
        (TE::Any, G::Any) | (TE::Bytes, G::Bytes) => Ok(()),
        (TE::Word { width, usage }, G::Word(w, u)) if width == w && usage == u => Ok(()),
        (TE::Mapping { key, value }, G::Map(k, v)) => { matches_truth(r, key.index(), k, &format!("{path}.key"))?; matches_truth(r, value.index(), v, &format!("{path}.value")) }
        (TE::DynamicArray { element }, G::Dyn(e)) => matches_truth(r, element.index(), e, &format!("{path}.element")),
        (TE::FixedArray { element, length }, G::Fix(e, n)) if *length == U256::from(*n) => matches_truth(r, element.index(), e, &format!("{path}.element")),
        (TE::Packed { types, .. }, G::Packed(spans)) => {
            let mut got: Vec<_> = types.clone();
            got.sort_by_key(|s| (s.offset, s.size));
            if got.len() != spans.len() || got.iter().zip(spans).any(|(a, (_, o, z))| a.offset != *o || a.size != *z) { return bad(); }
            for (a, (e, o, _)) in got.iter().zip(spans) { matches_truth(r, a.typ.index(), e, &format!("{path}@{o}"))?; }
            Ok(())
        }
        _ => bad(),
    }
}

fn first_mismatch(g: &[G], r: &Run) -> Option<(usize, String)> {
    (0..g.len()).find_map(|v| matches_truth(r, r.ids[v], &g[v], &format!("v{v}")).err().map(|e| (v, e)))
}

fn truth_line(g: &[G]) -> String { g.iter().enumerate().map(|(i, g)| format!("v{i}={}", show_g(g))).collect::<Vec<_>>().join(", ") }

const BUDGET: Duration = Duration::from_secs(20);

#[test]
fn c15_compatible_evidence_joins_to_the_truth() {
    std::panic::set_hook(Box::new(|_| {}));
    let mut cases = 0u64;
    let mut reported = 0;
    let mut hangs = 0;
    let t0 = std::time::Instant::now();
    for round in 0..2500 * scale() {
        let mut rng = Rng::seeded(15_000 + round);
        let (g, js) = build(&mut rng, if scale() > 1 { 1 + (round % 3) as u32 } else { 1 + (round % 2) as u32 }, if scale() > 1 { 40 } else { 14 });
        if !deficient(&g, &js).is_empty() { println!("NOTE c15: generator left a class without its full evidence (driver bug), round {round}"); continue; }
        cases += 1;
        let n = g.len();
        if round < 8 && std::env::var("VX_C15_SHOW").is_ok() { println!("SAMPLE {} truth: {}", show_js(n, &js), truth_line(&g)); }
        let fails = |cand: &[J]| -> Option<(String, String)> {
            match run(n, cand, false, BUDGET) {
                Outcome::Done(r) => first_mismatch(&g, &r).map(|(v, e)| (e, format!("v{v} : {}", show_g(&g[v])))),
                Outcome::Diverged { .. } => Some(("unify did not terminate within 5 s".into(), "the true types".into())),
                Outcome::Panicked(p) => Some((format!("PANIC {}", &p[..p.len().min(160)]), "the true types".into())),
            }
        };
        if let Some((got0, _)) = fails(&js) {
            reported += 1;
            // a run that does not terminate costs the whole budget: no shrinking, and stop after a few
            let hung = got0.starts_with("unify did not terminate");
            if hung { hangs += 1; }
            if reported <= 4 {
                let small = if hung { js.clone() } else { minimise(&js, 120, |cand| deficient(&g, cand).is_empty() && fails(cand).is_some()) };
                // (the fold order inside `unify` is a fresh hash order on every run: retry before giving up)
                let (got, want) = (0..6).find_map(|_| fails(&small)).or_else(|| fails(&js)).unwrap_or(("(not reproduced on re-run: order dependent)".into(), "the true types".into()));
                witness("C15", "join.compatible_is_most_specific", format!("{} truth: {}", show_js(n, &small), truth_line(&g)), got, want);
            }
        }
        if hangs >= 3 || t0.elapsed() > Duration::from_secs(20 * scale()) { break; }
    }
    println!("CASES c15_compatible {cases}");
}

#[test]
fn c15_injected_contradiction_is_a_conflict() {
    std::panic::set_hook(Box::new(|_| {}));
    let mut cases = 0u64;
    let mut reported: BTreeMap<&'static str, u32> = BTreeMap::new();
    let mut hangs = 0;
    let t0 = std::time::Instant::now();
    for round in 0..2500 * scale() {
        let mut rng = Rng::seeded(15_500 + round);
        let (mut g, js) = build(&mut rng, 1 + (round % 2) as u32, if scale() > 1 { 40 } else { 14 });
        if !deficient(&g, &js).is_empty() { continue; }
        let n0 = g.len();
        // candidates: (variable, kind, injected judgement); fresh component variables are appended to the world
        let mut options: Vec<(usize, &'static str, T)> = Vec::new();
        let (f1, f2) = (n0, n0 + 1);
        for v in 0..n0 {
            match &g[v] {
                G::Word(w, u) => {
                    if let Some(w) = w { let other = [8usize, 32, 64, 128, 160, 256].into_iter().filter(|x| x != w).nth(rng.below(5) as usize).unwrap(); options.push((v, "two different widths", T::Word(Some(other), WordUse::Bytes))); }
                    let inc: Vec<WordUse> = USES.iter().copied().filter(|x| !compatible(*x, *u)).collect();
                    if !inc.is_empty() {
                        let x = if *u == WordUse::Address && rng.below(2) == 0 { WordUse::SignedNumeric } else { inc[rng.below(inc.len() as u64) as usize] };
                        options.push((v, "incompatible usages", T::Word(None, x)));
                    }
                }
                G::Map(..) => {
                    options.push((v, "mapping vs dynamic array", T::Dyn(f1)));
                    options.push((v, "mapping vs fixed array", T::Fix(f1, 3)));
                    options.push((v, "mapping vs sized word", T::Word(Some([8usize, 160, 256][rng.below(3) as usize]), [WordUse::UnsignedNumeric, WordUse::Address, WordUse::Bytes][rng.below(3) as usize])));
                }
                G::Dyn(..) => {
                    options.push((v, "dynamic array vs mapping", T::Map(f1, f2)));
                    // the one word a dynamic array can not absorb: a signed one (of known or unknown width)
                    options.push((v, "dynamic array vs signed word", T::Word(None, WordUse::SignedNumeric)));
                    options.push((v, "dynamic array vs signed word", T::Word(Some(64), WordUse::SignedNumeric)));
                }
                G::Fix(_, len) => { options.push((v, "fixed array vs mapping", T::Map(f1, f2))); options.push((v, "fixed arrays of two lengths", T::Fix(f1, len + 1))); }
                _ => {}
            }
        }
        if options.is_empty() { continue; }
        let (target, kind, inj) = options[rng.below(options.len() as u64) as usize].clone();
        g.push(G::Any);
        g.push(G::Any);
        let n = g.len();
        let mut uf = closure(n, &js);
        let class: Vec<usize> = (0..n0).filter(|v| uf.find(*v) == uf.find(target)).collect();
        let at = class[rng.below(class.len() as u64) as usize];
        let mut js2 = js.clone();
        js2.insert(rng.below(js.len() as u64 + 1) as usize, J::Is(at, inj.clone()));
        cases += 1;
        let injected = J::Is(at, inj.clone());
        // every member of the class (as the driver's closure of the ORIGINAL set sees it) must be a conflict
        let fails = |cand: &[J]| -> Option<(String, String)> {
            match run(n, cand, false, BUDGET) {
                Outcome::Done(r) => class.iter().find_map(|v| match &r.of(*v).type_of {
                    Ok(TE::Conflict { .. }) => None,
                    other => Some((format!("v{v} resolved to {other:?}"), format!("a conflict ({kind}: v{at}:{} against the truth {})", crate::c14::show_t(&inj), show_g(&g[target])))),
                }),
                Outcome::Diverged { .. } => Some(("unify did not terminate within 5 s".into(), "a conflict".into())),
                Outcome::Panicked(p) => Some((format!("PANIC {}", &p[..p.len().min(160)]), "a conflict".into())),
            }
        };
        if let Some((got0, _)) = fails(&js2) {
            let c = reported.entry(kind).or_insert(0);
            *c += 1;
            let hung = got0.starts_with("unify did not terminate");
            if hung { hangs += 1; }
            if *c <= 2 {
                // shrink, keeping the injected judgement, the class intact and its evidence complete
                let small = if hung { js2.clone() } else { minimise(&js2, 120, |cand| {
                    if !cand.contains(&injected) { return false; }
                    let without: Vec<J> = cand.iter().filter(|j| **j != injected).cloned().collect();
                    let mut u2 = closure(n, &without);
                    class.iter().all(|v| u2.find(*v) == u2.find(target)) && deficient(&g, &without).is_empty() && fails(cand).is_some()
                }) };
                let (got, want) = (0..6).find_map(|_| fails(&small)).or_else(|| fails(&js2)).unwrap_or(("(not reproduced on re-run: order dependent)".into(), "a conflict".into()));
                witness("C15", "join.contradiction_is_conflict", format!("{} [{kind}]", show_js(n, &small)), got, want);
            }
        }
        if hangs >= 3 || t0.elapsed() > Duration::from_secs(20 * scale()) { break; }
    }
    println!("CASES c15_contradiction {cases}");
}

/// two towers of nested constructors equated at the top, with half of the evidence at the bottom of each: every
/// nesting level needs its own round of the fixpoint before the bottoms meet and join
#[test]
fn c15_deep_towers_join_at_the_bottom() {
    std::panic::set_hook(Box::new(|_| {}));
    let mut cases = 0;
    for depth in [4usize, 12, 24, 32] {
        for shape in 0..2 {
            let n = 2 * (depth + 1);
            let mut js = vec![J::Eq(0, depth + 1)];
            for i in 0..depth {
                let (a, b) = (i, depth + 1 + i);
                if shape == 0 { js.push(J::Is(a, T::Dyn(a + 1))); js.push(J::Is(b, T::Dyn(b + 1))); }
                else { js.push(J::Is(a, T::Map(depth, a + 1))); js.push(J::Is(b, T::Map(2 * depth + 1, b + 1))); }   // keys: the bottom variables
            }
            js.push(J::Is(depth, T::Word(Some(64), WordUse::Numeric)));
            js.push(J::Is(2 * depth + 1, T::Word(None, WordUse::SignedNumeric)));
            // ground truth of every variable: level i of either tower
            let mut g = vec![G::Any; n];
            let mut t = G::Word(Some(64), WordUse::SignedNumeric);
            for i in (0..=depth).rev() {
                g[i] = t.clone();
                g[depth + 1 + i] = t.clone();
                t = if shape == 0 { G::Dyn(Box::new(t)) } else { G::Map(Box::new(G::Word(Some(64), WordUse::SignedNumeric)), Box::new(t)) };
            }
            match run(n, &js, false, BUDGET) {
                Outcome::Done(r) => if let Some((v, e)) = first_mismatch(&g, &r) {
                    witness("C15", "join.compatible_is_most_specific", format!("towers of depth {depth} ({}) equated at the top; int64 evidence split over the two bottoms", if shape == 0 { "dynamic arrays" } else { "mappings" }), e, format!("v{v} : {}", show_g(&g[v])));
                },
                Outcome::Diverged { .. } => witness("C15", "join.compatible_is_most_specific", format!("towers of depth {depth}"), "unify did not terminate".into(), "the true types".into()),
                Outcome::Panicked(p) => witness("C15", "join.compatible_is_most_specific", format!("towers of depth {depth}"), format!("PANIC {}", &p[..p.len().min(160)]), "the true types".into()),
            }
            cases += 1;
        }
    }
    println!("CASES c15_towers {cases}");
}
