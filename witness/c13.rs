//! C13: the watchdog can stop the analysis at any poll and is polled as often as promised.
//! Bounded stand-in over the property's own quantifier (NOT a proof): a counting `Watchdog` that answers
//! "continue" for polls 0..k and "stop" from poll index k on is handed to the REAL pipeline
//! (`storage_layout_extractor::new(..).analyze()`, and to `VM` / `TypeChecker` phases called one by one for the
//! accounting), for small programs that spend their time in each polled loop, poll intervals {1, 2, 7, 100}
//! and every k below the total number of polls of the run (all of them when the run makes <= 300 polls,
//! stratified - first/last polls, every stage boundary +-2, evenly spaced in between - otherwise).
//!
//! Obligations (names as printed in WITNESS lines):
//!  * `c13.never_stop_equals_unmonitored`  a counting watchdog that never says stop gives the `LazyWatchdog` result
//!  * `c13.stop_at_poll_k_returns_stopped` once some poll answered stop, `analyze` returns an error that contains
//!                                         `StoppedByWatchdog` (execution or unification kind) - never a layout,
//!                                         never a panic, never only other errors
//!  * `c13.bounded_polls_after_stop`       after the first "stop" answer at most `MAX_POLLS_AFTER_STOP` more polls
//!                                         are made (a stop seen by a bulk-copy loop only ends that thread: the VM main
//!                                         loop goes on until ITS next poll or until another copy loop polls)
//!  * `c13.bounded_polls_after_stop.copy_stop_only_ends_thread`  the same bound on the fork-fan programs, where it
//!                                         does not hold on the current tree (see FAN below) - kept under its own name
//!  * `c13.polls_track_work`               polls made by a loop == ceil(iterations / poll_every): VM main loop over a
//!                                         straight-line program of n instructions, every bulk copy of s bytes
//!                                         (iterations = ceil(min(s, limit) / 32)), lifting, variable assignment,
//!                                         inference, layout building; unification at least once per pass
//!  * `c13.poll_count_reproducible`        two identical monitored runs make the same number of polls (the driver's
//!                                         own premise for "poll k of the run")
//!  * `c13.driver_reaches_every_loop`      every one of the ten polled loops was interrupted at least once
use std::{
    collections::BTreeSet,
    panic::{catch_unwind, AssertUnwindSafe},
    rc::Rc,
    sync::atomic::{AtomicUsize, Ordering},
};

use itertools::Itertools;
use storage_layout_extractor::{
    self as sle,
    disassembly::InstructionStream,
    error::{self, execution, unification},
    extractor::{
        chain::{version::EthereumVersion, Chain},
        contract::Contract,
    },
    tc::{self, TypeChecker},
    vm::{
        self,
        value::TCSVD,
        VM,
    },
    watchdog::{DynWatchdog, LazyWatchdog, Watchdog},
    StorageLayout,
};

use crate::{scale, witness};

/// Observed on the current tree over the regular programs below: 0 when the stop is seen by the VM main loop or by
/// a type-checker loop (they return at that very poll), 1 when it is seen by a bulk-copy loop of a program that
/// still has another thread or instruction to run (the copy's error only ends the thread; the main loop - or the
/// next copy loop - polls once more and then gives up).
const MAX_POLLS_AFTER_STOP: usize = 1;

const INTERVALS: [usize; 4] = [1, 2, 7, 100];

// ------------------------------------------------------------------------------------------------------------
// the counting watchdog
// ------------------------------------------------------------------------------------------------------------

/// Answers "continue" to polls 0..stop_from and "stop" to every poll from index `stop_from` on; counts polls.
#[derive(Debug)]
pub struct CountingWatchdog {
    every:      usize,
    stop_from:  Option<usize>,
    polls:      AtomicUsize,
    first_stop: AtomicUsize,
}

impl CountingWatchdog {
    pub fn new(every: usize, stop_from: Option<usize>) -> Rc<Self> {
        Rc::new(Self { every, stop_from, polls: AtomicUsize::new(0), first_stop: AtomicUsize::new(usize::MAX) })
    }
    pub fn in_rc(self: &Rc<Self>) -> DynWatchdog { self.clone() }
    pub fn polls(&self) -> usize { self.polls.load(Ordering::SeqCst) }
    /// index of the first poll that was answered "stop"
    pub fn first_stop(&self) -> Option<usize> {
        let v = self.first_stop.load(Ordering::SeqCst);
        if v == usize::MAX { None } else { Some(v) }
    }
}

impl Watchdog for CountingWatchdog {
    fn should_stop(&self) -> bool {
        let k = self.polls.fetch_add(1, Ordering::SeqCst);
        match self.stop_from {
            Some(s) if k >= s => {
                self.first_stop.fetch_min(k, Ordering::SeqCst);
                true
            }
            _ => false,
        }
    }
    fn poll_every(&self) -> usize { self.every }
}

// ------------------------------------------------------------------------------------------------------------
// programs
// ------------------------------------------------------------------------------------------------------------

#[derive(Default, Clone)]
struct Asm {
    code: Vec<u8>,
    /// number of instructions emitted
    n:    usize,
}
impl Asm {
    fn op(&mut self, b: u8) -> &mut Self { self.code.push(b); self.n += 1; self }
    fn ops(&mut self, bs: &[u8]) -> &mut Self { for b in bs { self.op(*b); } self }
    /// PUSH1..PUSH4 of `v`
    fn push(&mut self, v: u64) -> &mut Self {
        let len = if v < 1 << 8 { 1 } else if v < 1 << 16 { 2 } else if v < 1 << 24 { 3 } else { 4 };
        self.code.push(0x5f + len as u8);
        for i in (0..len).rev() { self.code.push((v >> (8 * i)) as u8); }
        self.n += 1;
        self
    }
    /// PUSHn of the low n bytes all 0xff
    fn push_mask(&mut self, bytes: usize) -> &mut Self {
        self.code.push(0x5f + bytes as u8);
        self.code.extend(std::iter::repeat(0xff).take(bytes));
        self.n += 1;
        self
    }
    fn here(&self) -> u64 { self.code.len() as u64 }
}

const STOP: u8 = 0x00;
const ADD: u8 = 0x01;
const AND: u8 = 0x16;
const SHA3: u8 = 0x20;
const ADDRESS: u8 = 0x30;
const CALLER: u8 = 0x33;
const CALLDATALOAD: u8 = 0x35;
const CALLDATASIZE: u8 = 0x36;
const CALLDATACOPY: u8 = 0x37;
const CODECOPY: u8 = 0x39;
const EXTCODECOPY: u8 = 0x3c;
const RETURNDATACOPY: u8 = 0x3e;
const POP: u8 = 0x50;
const MLOAD: u8 = 0x51;
const MSTORE: u8 = 0x52;
const SLOAD: u8 = 0x54;
const SSTORE: u8 = 0x55;
const JUMP: u8 = 0x56;
const JUMPI: u8 = 0x57;
const GAS: u8 = 0x5a;
const JUMPDEST: u8 = 0x5b;
const CALL: u8 = 0xf1;
const DELEGATECALL: u8 = 0xf4;

/// `single_memory_operation_size_limit` used for every run (the default, 394 bytes, makes 13 iterations)
const MEM_LIMIT: usize = 4096;
/// `CONTRACT_MAXIMUM_SIZE_BYTES`, the bound CODECOPY / EXTCODECOPY use
const CODE_LIMIT: usize = 24_576;

#[derive(Clone, Copy, PartialEq, Eq, Debug)]
enum Copy { CallData, Code, ExtCode, ReturnData, Call, DelegateCall }
impl Copy {
    fn limit(self) -> usize { match self { Copy::Code | Copy::ExtCode => CODE_LIMIT, _ => MEM_LIMIT } }
    fn iterations(self, size: usize) -> usize { (size.min(self.limit()) + 31) / 32 }
    /// emits the instruction with a constant `size` operand, then drops what it leaves on the stack
    fn emit(self, a: &mut Asm, size: u64) {
        match self {
            Copy::CallData => { a.push(size).push(0).push(0).op(CALLDATACOPY); }
            Copy::Code => { a.push(size).push(0).push(0).op(CODECOPY); }
            Copy::ReturnData => { a.push(size).push(0).push(0).op(RETURNDATACOPY); }
            Copy::ExtCode => { a.push(size).push(0).push(0).op(ADDRESS).op(EXTCODECOPY); }
            // retSize retOffset argSize argOffset value address gas
            Copy::Call => { a.push(size).push(0).push(0).push(0).push(0).op(CALLER).op(GAS).op(CALL).op(POP); }
            // retSize retOffset argSize argOffset address gas
            Copy::DelegateCall => { a.push(size).push(0).push(0).push(0).op(CALLER).op(GAS).op(DELEGATECALL).op(POP); }
        }
    }
}

#[derive(Clone)]
struct Prog {
    name:       String,
    code:       Vec<u8>,
    permissive: bool,
    /// number of instructions the VM executes, when the program is straight-line
    straight:   Option<usize>,
    /// iterations of each bulk-copy loop the program runs, when it is straight-line
    copies:     Vec<usize>,
    /// fork-fan program (class `copy_stop_only_ends_thread`)
    fan:        bool,
}

/// storage traffic the type checker has work with: word-sized, masked (packed), mapping and dynamic-array accesses
fn storage_traffic(a: &mut Asm, slots: u64) {
    for i in 0..slots {
        match i % 4 {
            // sstore(i, sload(i) & mask)
            0 => { a.push(i).op(SLOAD).push_mask(20).op(AND).push(i).op(SSTORE); }
            // sstore(i, calldataload(4) & 0xff)
            1 => { a.push(4).op(CALLDATALOAD).push_mask(1).op(AND).push(i).op(SSTORE); }
            // mapping: sstore(keccak(caller ++ i), sload(keccak(caller ++ i)) + 1)
            2 => { a.op(CALLER).push(0).op(MSTORE).push(i).push(0x20).op(MSTORE).push(0x40).push(0).op(SHA3).op(SLOAD).push(1).op(ADD)
                    .op(CALLER).push(0).op(MSTORE).push(i).push(0x20).op(MSTORE).push(0x40).push(0).op(SHA3).op(SSTORE); }
            // dynamic array: sstore(keccak(i) + calldataload(0), caller)
            _ => { a.op(CALLER).push(i).push(0).op(MSTORE).push(0x20).push(0).op(SHA3).push(0).op(CALLDATALOAD).op(ADD).op(SSTORE); }
        }
    }
}

fn programs() -> Vec<Prog> {
    let mut v = vec![];
    // 1. straight-line: VM main loop, and the type checker's five loops through the storage traffic
    let mut a = Asm::default();
    for _ in 0..23 { a.op(JUMPDEST); }
    storage_traffic(&mut a, 12);
    a.op(STOP);
    v.push(Prog { name: "straight-line storage traffic".into(), straight: Some(a.n), code: a.code, permissive: false, copies: vec![], fan: false });
    // 2. looping code: JUMPDEST sstore(0, sload(0) + 1) CALLDATASIZE PUSH1 0 JUMPI STOP (ends through the visit / fork limits)
    let mut a = Asm::default();
    a.op(JUMPDEST).push(1).push(0).op(SLOAD).op(ADD).push(0).op(SSTORE).op(CALLDATASIZE).push(0).op(JUMPI);
    storage_traffic(&mut a, 3);
    a.op(STOP);
    v.push(Prog { name: "loop with storage traffic".into(), straight: None, code: a.code, permissive: true, copies: vec![], fan: false });
    // 3-8. one bulk copy each, with the copied memory then read and stored so that the later stages see it
    for (c, size, permissive) in [(Copy::CallData, 1500u64, false), (Copy::Code, 2100, true), (Copy::ExtCode, 1000, false), (Copy::ReturnData, 5000, true),
                                  (Copy::Call, 1300, false), (Copy::DelegateCall, 700, true)] {
        let mut a = Asm::default();
        a.push(7).push(1).op(SSTORE);
        c.emit(&mut a, size);
        a.push(0x40).op(MLOAD).push(2).op(SSTORE);
        storage_traffic(&mut a, 2);
        a.op(STOP);
        v.push(Prog { name: format!("{c:?} copy of {size} bytes"), straight: Some(a.n), code: a.code, permissive, copies: vec![c.iterations(size as usize)], fan: false });
    }
    // 9. two copies in a row and one in a second thread: CALLDATASIZE PUSH t JUMPI <copy> <copy> STOP JUMPDEST <copy> STOP
    let mut a = Asm::default();
    a.op(CALLDATASIZE);
    let patch = a.code.len() + 1;
    a.push(0xffff).op(JUMPI);
    Copy::CallData.emit(&mut a, 400);
    Copy::Code.emit(&mut a, 300);
    a.push(1).push(0).op(SSTORE).op(STOP);
    let t = a.here();
    a.code[patch] = (t >> 8) as u8;
    a.code[patch + 1] = t as u8;
    a.op(JUMPDEST);
    Copy::ReturnData.emit(&mut a, 500);
    a.push(1).push(1).op(SSTORE).op(STOP);
    v.push(Prog { name: "copies in two threads".into(), straight: None, code: a.code, permissive: false, copies: vec![], fan: false });
    v
}

/// FAN: `width` conditional jumps, each starting a thread that goes straight into a bulk copy.  When the stop is
/// first seen by one of those copy loops, only that thread ends; every other waiting thread runs into its own
/// copy loop and polls again before the VM main loop's counter reaches the next multiple of the interval.
fn fan_program(width: usize) -> Prog {
    // CALLDATASIZE PUSH2 t_i JUMPI  (x width)  STOP   then per target: JUMPDEST <copy 64 bytes> STOP
    let mut a = Asm::default();
    let mut patches = vec![];
    for _ in 0..width {
        a.op(CALLDATASIZE);
        patches.push(a.code.len() + 1);
        a.push(0xffff).op(JUMPI);
    }
    a.push(1).push(0).op(SSTORE).op(STOP);
    for p in patches {
        let t = a.here();
        a.code[p] = (t >> 8) as u8;
        a.code[p + 1] = t as u8;
        a.op(JUMPDEST);
        Copy::CallData.emit(&mut a, 64);
        a.op(STOP);
    }
    Prog { name: format!("fan of {width} threads into CALLDATACOPY"), straight: None, code: a.code, permissive: false, copies: vec![], fan: true }
}

// ------------------------------------------------------------------------------------------------------------
// running the real pipeline
// ------------------------------------------------------------------------------------------------------------

#[derive(Debug, Clone, PartialEq)]
enum Outcome {
    Layout(StorageLayout),
    /// an error that contains StoppedByWatchdog (how many entries, how many of them are the stop)
    Stopped { entries: usize, stops: usize },
    OtherError(String),
    Panic,
}
impl Outcome {
    fn class(&self) -> String {
        match self {
            Outcome::Layout(l) => format!("Ok(layout with {} slots)", l.slots().len()),
            Outcome::Stopped { entries, stops } => format!("Err({entries} errors, {stops} StoppedByWatchdog)"),
            Outcome::OtherError(e) => format!("Err without StoppedByWatchdog: {e}"),
            Outcome::Panic => "PANIC".into(),
        }
    }
}

fn is_stop(e: &error::Error) -> bool {
    matches!(e, error::Error::Execution(execution::Error::StoppedByWatchdog) | error::Error::Unification(unification::Error::StoppedByWatchdog))
}

fn classify(r: std::thread::Result<error::Result<StorageLayout>>) -> Outcome {
    match r {
        Err(_) => Outcome::Panic,
        Ok(Ok(l)) => Outcome::Layout(l),
        Ok(Err(es)) => {
            let stops = es.payloads().iter().filter(|l| is_stop(&l.payload)).count();
            if stops > 0 { Outcome::Stopped { entries: es.len(), stops } } else { Outcome::OtherError(format!("{es:?}").chars().take(200).collect()) }
        }
    }
}

fn vm_config(p: &Prog) -> vm::Config { vm::Config::default().with_memory_max_bytes(MEM_LIMIT).with_permissive_errors(p.permissive) }

/// the whole analysis through the public entry point
fn analyze(p: &Prog, wd: DynWatchdog) -> Outcome {
    let code = p.code.clone();
    let cfg = vm_config(p);
    classify(catch_unwind(AssertUnwindSafe(move || {
        let contract = Contract::new(code, Chain::Ethereum { version: EthereumVersion::Shanghai });
        sle::new(contract, cfg, tc::Config::default(), wd).analyze()
    })))
}

const STAGES: [&str; 6] = ["vm", "lift", "assign_vars", "infer", "unification", "layout"];

/// poll accounting of one never-stopping run, stage by stage (the same calls `analyze` / `TypeChecker::run` make)
#[derive(Debug, Default, Clone)]
struct Account {
    /// polls made by each stage
    polls: [usize; 6],
    /// loop iterations of each stage where the driver can count them independently: unique values entering `lift`,
    /// values entering `assign_vars`, registered values seen by `infer`, constant storage slots seen by the layout loop
    work:  [Option<usize>; 6],
    ok:    bool,
}
impl Account {
    fn total(&self) -> usize { self.polls.iter().sum() }
    /// cumulative poll index at which each stage ends
    fn marks(&self) -> Vec<usize> { self.polls.iter().scan(0, |s, x| { *s += x; Some(*s) }).collect() }
    fn stage_of(&self, k: usize) -> &'static str {
        let m = self.marks();
        for (i, e) in m.iter().enumerate() { if k < *e { return STAGES[i]; } }
        "past the end"
    }
}

fn account(p: &Prog, every: usize) -> Option<Account> {
    let r = catch_unwind(AssertUnwindSafe(|| {
        let wd = CountingWatchdog::new(every, None);
        let mut acc = Account::default();
        let is = InstructionStream::try_from(p.code.as_slice()).ok()?;
        let mut vm = VM::new(is, vm_config(p), wd.in_rc()).ok()?;
        let exec = vm.execute();
        acc.polls[0] = wd.polls();
        if exec.is_err() { return Some(acc); }
        let result = vm.consume();
        acc.work[1] = Some(result.clone().all_values().into_iter().unique().count());
        let mut t = TypeChecker::new(tc::Config::default(), wd.in_rc());
        let mut seen = wd.polls();
        let lifted = t.lift(result).ok()?;
        acc.polls[1] = wd.polls() - seen;
        seen = wd.polls();
        acc.work[2] = Some(lifted.len());
        t.assign_vars(lifted).ok()?;
        acc.polls[2] = wd.polls() - seen;
        seen = wd.polls();
        acc.work[3] = Some(t.state().values().len());
        t.infer().ok()?;
        acc.polls[3] = wd.polls() - seen;
        seen = wd.polls();
        // `TypeChecker::unify` = unification::unify + the layout loop; the split between the two is measured by
        // `unification_polls` on a second, identical run
        let layout = t.unify();
        acc.polls[4] = wd.polls() - seen;
        acc.work[5] = Some(t.state().values().iter().filter(|v| matches!(v.data(), TCSVD::StorageSlot { key } if matches!(key.data(), TCSVD::KnownData { .. }))).count());
        acc.ok = layout.is_ok();
        Some(acc)
    }));
    let mut acc = r.ok().flatten()?;
    if acc.ok {
        let u = unification_polls(p, every)?;
        if u <= acc.polls[4] {
            acc.polls[5] = acc.polls[4] - u;
            acc.polls[4] = u;
        }
    }
    Some(acc)
}

/// polls made by `unification::unify` alone (same pipeline up to `infer`, then the function called directly)
fn unification_polls(p: &Prog, every: usize) -> Option<usize> {
    catch_unwind(AssertUnwindSafe(|| {
        let wd = CountingWatchdog::new(every, None);
        let is = InstructionStream::try_from(p.code.as_slice()).ok()?;
        let mut vm = VM::new(is, vm_config(p), wd.in_rc()).ok()?;
        vm.execute().ok()?;
        let mut t = TypeChecker::new(tc::Config::default(), wd.in_rc());
        let lifted = t.lift(vm.consume()).ok()?;
        t.assign_vars(lifted).ok()?;
        t.infer().ok()?;
        let seen = wd.polls();
        let dynwd = wd.in_rc();
        tc::unification::unify(unsafe { t.state_mut() }, &dynwd).ok()?;
        Some(wd.polls() - seen)
    }))
    .ok()
    .flatten()
}

fn ceil_div(a: usize, b: usize) -> usize { (a + b - 1) / b }

fn hex(code: &[u8]) -> String { code.iter().map(|b| format!("{b:02x}")).collect() }

/// the poll indices at which the stop is injected
fn stop_points(n: usize, marks: &[usize]) -> Vec<usize> {
    if n <= 300 { return (0..n).collect(); }
    let mut s = BTreeSet::new();
    let edge = 24 * scale() as usize;
    for k in 0..edge.min(n) { s.insert(k); s.insert(n - 1 - k); }
    for m in marks { for d in 0..5usize { let k = (m + d).saturating_sub(2); if k < n { s.insert(k); } } }
    let strata = 96 * scale() as usize;
    for i in 0..strata { s.insert(i * n / strata); }
    s.into_iter().collect()
}

/// stop at every selected poll of every (program, interval); returns (cases, max polls after stop, stages interrupted)
fn stop_everywhere(p: &Prog, every: usize, reached: &mut BTreeSet<&'static str>) -> (usize, usize) {
    let input = |k: Option<usize>| format!("program={} code={} poll_every={every} permissive={} stop_from_poll={}", p.name, hex(&p.code), p.permissive, k.map_or("never".into(), |k| k.to_string()));
    // (1) never stopping == unmonitored, and the poll count of the run
    let unmonitored = analyze(p, LazyWatchdog.in_rc());
    let wd = CountingWatchdog::new(every, None);
    let monitored = analyze(p, wd.in_rc());
    let n = wd.polls();
    if !matches!(unmonitored, Outcome::Layout(_)) {
        // the programs are written to be analysable; anything else is a broken premise of this driver (or of the tree)
        witness("C13", "c13.never_stop_equals_unmonitored", input(None), format!("unmonitored run: {}", unmonitored.class()), "Ok(layout)".into());
        return (1, 0);
    }
    if monitored != unmonitored {
        witness("C13", "c13.never_stop_equals_unmonitored", input(None), monitored.class(), format!("the unmonitored result {}", unmonitored.class()));
    }
    let wd2 = CountingWatchdog::new(every, None);
    let again = analyze(p, wd2.in_rc());
    if wd2.polls() != n || again != monitored {
        witness("C13", "c13.poll_count_reproducible", input(None), format!("{} polls, then {} polls", n, wd2.polls()), "the same number of polls and the same result".into());
        return (2, 0);
    }
    let acc = account(p, every).unwrap_or_default();
    if acc.total() != n {
        witness("C13", "c13.poll_count_reproducible", input(None), format!("{} polls stage by stage {:?}", acc.total(), acc.polls), format!("{n} polls as in analyze()"));
    }
    // (2) stop from poll k on
    let mut cases = 2;
    let mut worst = 0;
    for k in stop_points(n, &acc.marks()) {
        let wd = CountingWatchdog::new(every, Some(k));
        let out = analyze(p, wd.in_rc());
        cases += 1;
        let Some(first) = wd.first_stop() else {
            witness("C13", "c13.poll_count_reproducible", input(Some(k)), format!("only {} polls were made", wd.polls()), format!("{n} polls as in the never-stopping run"));
            continue;
        };
        let stage = acc.stage_of(first);
        reached.insert(stage);
        if !matches!(out, Outcome::Stopped { .. }) {
            witness("C13", "c13.stop_at_poll_k_returns_stopped", format!("{} (poll {first} is made by: {stage})", input(Some(k))), out.class(), "Err containing StoppedByWatchdog".into());
        }
        let after = wd.polls() - first - 1;
        worst = worst.max(after);
        if after > MAX_POLLS_AFTER_STOP {
            let ob = if p.fan { "c13.bounded_polls_after_stop.copy_stop_only_ends_thread" } else { "c13.bounded_polls_after_stop" };
            witness("C13", ob, format!("{} (poll {first} is made by: {stage})", input(Some(k))), format!("{after} more polls after the first stop answer; result {}", out.class()),
                    format!("<= {MAX_POLLS_AFTER_STOP} more polls"));
        }
    }
    (cases, worst)
}

#[test]
fn c13_stop_at_every_poll() {
    std::panic::set_hook(Box::new(|_| {}));
    let mut reached = BTreeSet::new();
    let (mut cases, mut worst) = (0, 0);
    for p in programs() {
        for every in INTERVALS {
            let (c, w) = stop_everywhere(&p, every, &mut reached);
            cases += c;
            worst = worst.max(w);
        }
    }
    for s in STAGES {
        if !reached.contains(s) {
            witness("C13", "c13.driver_reaches_every_loop", format!("stage {s}"), "never interrupted by any (program, interval, k)".into(), "interrupted at least once".into());
        }
    }
    println!("INFO c13_stop_at_every_poll max_polls_after_stop={worst}");
    println!("CASES c13_stop_at_every_poll {cases}");
}

/// FAN (see `fan_program`): the bound on polls after the stop, on programs built to defeat it
#[test]
fn c13_stop_in_a_fan_of_copy_threads() {
    std::panic::set_hook(Box::new(|_| {}));
    let mut reached = BTreeSet::new();
    let (mut cases, mut worst) = (0, 0);
    for width in [4usize, 12] {
        let p = fan_program(width);
        for every in [7usize, 100] {
            let (c, w) = stop_everywhere(&p, every, &mut reached);
            cases += c;
            worst = worst.max(w);
        }
    }
    println!("INFO c13_stop_in_a_fan_of_copy_threads max_polls_after_stop={worst}");
    println!("CASES c13_stop_in_a_fan_of_copy_threads {cases}");
}

/// (3) polls track work, loop by loop
#[test]
fn c13_polls_track_work() {
    std::panic::set_hook(Box::new(|_| {}));
    let mut cases = 0;
    // (a) the VM alone: straight-line programs of n instructions; one bulk copy of s bytes per opcode, s over the boundaries
    let mut vm_progs: Vec<Prog> = vec![];
    for n in [1usize, 2, 6, 7, 8, 99, 100, 101, 200, 201, 1000] {
        let mut a = Asm::default();
        for _ in 0..n - 1 { a.op(JUMPDEST); }
        a.op(STOP);
        vm_progs.push(Prog { name: format!("{n} instructions"), straight: Some(a.n), code: a.code, permissive: false, copies: vec![], fan: false });
    }
    for c in [Copy::CallData, Copy::Code, Copy::ExtCode, Copy::ReturnData, Copy::Call, Copy::DelegateCall] {
        let l = c.limit() as u64;
        for s in [0u64, 1, 31, 32, 33, 64, 65, 223, 224, 225, 3199, 3200, 3201, l - 1, l, l + 1, l + 33, 1 << 16, 1 << 31] {
            let mut a = Asm::default();
            c.emit(&mut a, s);
            a.op(STOP);
            vm_progs.push(Prog { name: format!("{c:?} copy of {s} bytes"), straight: Some(a.n), code: a.code, permissive: false, copies: vec![c.iterations(s as usize)], fan: false });
        }
    }
    // two copies in one program: each loop has its own counter
    let mut a = Asm::default();
    Copy::CallData.emit(&mut a, 330);
    Copy::Code.emit(&mut a, 750);
    a.op(STOP);
    vm_progs.push(Prog { name: "CallData copy of 330 bytes then Code copy of 750 bytes".into(), straight: Some(a.n), code: a.code, permissive: false,
                         copies: vec![Copy::CallData.iterations(330), Copy::Code.iterations(750)], fan: false });
    for p in &vm_progs {
        for every in [1usize, 2, 3, 7, 32, 100, 1000] {
            let wd = CountingWatchdog::new(every, None);
            let r = catch_unwind(AssertUnwindSafe(|| {
                let is = InstructionStream::try_from(p.code.as_slice()).unwrap();
                let mut vm = VM::new(is, vm_config(p), wd.in_rc()).unwrap();
                vm.execute().is_ok()
            }))
            .ok();
            cases += 1;
            let n = p.straight.unwrap();
            // `counter % poll_interval == 0` with counter = 0, 1, .., n-1: polls at 0, p, 2p, ..  =>  ceil(n / p), the first one
            // BEFORE any work is done (that is the documented off-by-one: one poll even for a single iteration)
            let want = ceil_div(n, every) + p.copies.iter().map(|it| ceil_div(*it, every)).sum::<usize>();
            if r != Some(true) || wd.polls() != want {
                witness("C13", "c13.polls_track_work", format!("VM::execute program={} code={} poll_every={every} memory limit={MEM_LIMIT}", p.name, hex(&p.code)),
                        format!("{} polls (execute ok: {r:?})", wd.polls()),
                        format!("{want} = ceil({n} instructions / {every}) + sum over copy loops {:?} of ceil(iterations / {every})", p.copies));
            }
        }
    }
    // (b) the whole pipeline stage by stage
    for p in programs() {
        let base = account(&p, 1);
        for every in INTERVALS.into_iter().chain([3, 1000]) {
            cases += 1;
            let input = format!("program={} code={} poll_every={every}", p.name, hex(&p.code));
            let Some(acc) = account(&p, every) else {
                witness("C13", "c13.polls_track_work", input, "the staged run failed".into(), "a layout".into());
                continue;
            };
            if !acc.ok { witness("C13", "c13.polls_track_work", input.clone(), format!("the staged run failed after polls {:?}", acc.polls), "a layout".into()); continue; }
            // VM: exact for straight-line programs; otherwise the main loop is checked against the p = 1 run of the same
            // program (which counts iterations) as a band: every thread's copies poll at least once each
            if let Some(n) = p.straight {
                let want = ceil_div(n, every) + p.copies.iter().map(|it| ceil_div(*it, every)).sum::<usize>();
                if acc.polls[0] != want { witness("C13", "c13.polls_track_work", format!("{input} stage=vm"), format!("{} polls", acc.polls[0]), format!("{want}")); }
            } else if let Some(b) = &base {
                let (lo, hi) = (ceil_div(b.polls[0], every), b.polls[0]);
                if acc.polls[0] < lo || acc.polls[0] > hi { witness("C13", "c13.polls_track_work", format!("{input} stage=vm"), format!("{} polls", acc.polls[0]), format!("between {lo} and {hi} ({} iterations with poll_every=1)", b.polls[0])); }
            }
            for s in [1usize, 2, 3, 5] {
                let w = acc.work[s].unwrap();
                let want = ceil_div(w, every);
                if acc.polls[s] != want {
                    witness("C13", "c13.polls_track_work", format!("{input} stage={}", STAGES[s]), format!("{} polls for {w} iterations", acc.polls[s]), format!("{want} = ceil({w} / {every})"));
                }
            }
            // unification: every pass over the forest starts... the counter only moves on non-empty classes, so the
            // exact count is not a function of anything visible from outside; at least one poll per run and never fewer
            // than a p-th of the iterations counted with poll_every = 1
            if let Some(b) = &base {
                let hi = b.polls[4];
                let lo = 1.max(0);
                if acc.polls[4] < lo || acc.polls[4] > hi {
                    witness("C13", "c13.polls_track_work", format!("{input} stage=unification"), format!("{} polls", acc.polls[4]), format!("between {lo} and {hi}"));
                }
            }
        }
    }
    println!("CASES c13_polls_track_work {cases}");
}
