//! C13: the watchdog can stop the analysis at any poll and is polled as often as promised.
//! Bounded stand-in over the property's own quantifier (NOT a proof): a counting `Watchdog` that answers
//! "continue" for polls 0..k and "stop" from poll index k on is handed to the REAL pipeline
//! (`storage_layout_extractor::new(..).analyze()`; `VM` and the `TypeChecker` phases are also called one by one for
//! the accounting), for small programs that spend their time in each polled loop, poll intervals {1, 2, 7, 100}
//! and every k below the total number of polls of the run (all of them when the run makes <= 300 polls,
//! stratified - first/last polls, every stage boundary +-2, evenly spaced in between - otherwise).
//!
//! Which loop made a given poll is known without touching the repository: every polled loop asks `poll_every()`
//! exactly once right before it starts, so the watchdog records the poll count at each such call; inside the VM
//! phase of a straight-line program the owner is computed from the byte offsets (the main loop makes one iteration
//! per BYTE of code - push data bytes are executed as no-ops - and a copy loop runs inside the iteration of its
//! opcode).
//!
//! Obligations (names as printed in WITNESS lines):
//!  * `c13.never_stop_equals_unmonitored`  a counting watchdog that never says stop gives the `LazyWatchdog` result
//!                                         (also when the run ended before the k-th poll was ever made)
//!  * `c13.stop_at_poll_k_returns_stopped` once some poll answered stop, `analyze` returns an error that contains
//!                                         `StoppedByWatchdog` (execution or unification kind) - never a layout,
//!                                         never a panic, never only other errors
//!  * `c13.single_stop_answer_is_honoured` the same when the watchdog answers stop at poll k ONLY (a loop that
//!                                         swallows one stop answer and goes on is caught here)
//!  * `c13.bounded_polls_after_stop`       polls made after the first "stop" answer: 0 when the VM main loop or a
//!                                         type-checker loop saw it (they return at that very poll), at most
//!                                         `MAX_POLLS_AFTER_COPY_STOP` when a bulk-copy loop saw it (its error only
//!                                         ends the thread; the main loop goes on until ITS next poll or until another
//!                                         copy loop polls)
//!  * `c13.bounded_polls_after_stop.copy_stop_only_ends_thread`  the same bound on the fork-fan programs, where it
//!                                         does NOT hold on the current tree (see `fan_program`) - kept under its own name
//!  * `c13.polls_track_work`               polls made by a loop == ceil(iterations / poll_every): VM main loop over a
//!                                         straight-line program of n code bytes, every bulk copy of s bytes
//!                                         (iterations = ceil(min(s, limit) / 32)), lifting, variable assignment,
//!                                         inference, layout building; unification at least once
//!  * `c13.driver_reaches_every_loop`      with poll_every = 1 every polled loop the program runs was interrupted
//!  * `c13.driver_config_matches_default`  the driver's type-checker configuration (default passes sharing ONE slot-hash
//!                                         table, 300 ms to build) gives the result of `tc::Config::default()`
use std::{
    cell::RefCell,
    collections::BTreeSet,
    panic::{catch_unwind, AssertUnwindSafe},
    rc::Rc,
    sync::{
        atomic::{AtomicUsize, Ordering},
        OnceLock,
    },
};

use itertools::Itertools;
use storage_layout_extractor::{
    self as sle,
    disassembly::InstructionStream,
    error::{self, execution, unification},
    extractor::{
        chain::{version::EthereumVersion, Chain},
        contract::Contract,
    },
    tc::{
        self,
        lift::{
            dynamic_array_access::DynamicArrayIndex, mapping_index::MappingIndex, mapping_offset::MappingOffset, mul_shifted::MulShiftedValue,
            packed_encoding::PackedEncoding, proxy_slots::ProxySlots, recognise_hashed_slots::StorageSlotHashes, storage_slots::StorageSlots,
            sub_word::SubWordValue, Lift, LiftingPasses,
        },
        rule::InferenceRules,
        TypeChecker,
    },
    vm::{self, value::TCSVD, VM},
    watchdog::{DynWatchdog, LazyWatchdog, Watchdog},
    StorageLayout,
};

use crate::{scale, witness};

/// Observed on the current tree over the regular programs below: a stop first seen by a bulk-copy loop is followed
/// by at most ONE more poll (the copy's error only ends its thread; the main loop - or the next copy loop - polls
/// once more and then the run is over).  A stop seen by the VM main loop or a type-checker loop is followed by none.
const MAX_POLLS_AFTER_COPY_STOP: usize = 1;

const INTERVALS: [usize; 4] = [1, 2, 7, 100];

/// WITNESS lines printed per obligation for one (program, interval); the rest is counted in a SUPPRESSED line
const REPORTS: usize = 3;

// ------------------------------------------------------------------------------------------------------------
// the counting watchdog
// ------------------------------------------------------------------------------------------------------------

/// Answers "stop" to the polls with index in `stop_from..stop_until` and "continue" to all others; counts polls and
/// remembers the poll count at every `poll_every()` call (= the start of a polled loop).
#[derive(Debug)]
pub struct CountingWatchdog {
    every:       usize,
    stop_from:   usize,
    stop_until:  usize,
    polls:       AtomicUsize,
    first_stop:  AtomicUsize,
    loop_starts: RefCell<Vec<usize>>,
}

impl CountingWatchdog {
    /// never stops
    pub fn counting(every: usize) -> Rc<Self> { Self::stopping(every, usize::MAX, usize::MAX) }
    /// stops from poll `k` on
    pub fn stop_from(every: usize, k: usize) -> Rc<Self> { Self::stopping(every, k, usize::MAX) }
    /// answers stop at poll `k` only
    pub fn stop_once(every: usize, k: usize) -> Rc<Self> { Self::stopping(every, k, k + 1) }
    fn stopping(every: usize, stop_from: usize, stop_until: usize) -> Rc<Self> {
        Rc::new(Self { every, stop_from, stop_until, polls: AtomicUsize::new(0), first_stop: AtomicUsize::new(usize::MAX), loop_starts: RefCell::new(vec![]) })
    }
    pub fn in_rc(self: &Rc<Self>) -> DynWatchdog { self.clone() }
    pub fn polls(&self) -> usize { self.polls.load(Ordering::SeqCst) }
    /// index of the first poll that was answered "stop"
    pub fn first_stop(&self) -> Option<usize> {
        let v = self.first_stop.load(Ordering::SeqCst);
        if v == usize::MAX { None } else { Some(v) }
    }
    /// poll count at each `poll_every()` call so far
    pub fn loop_starts(&self) -> Vec<usize> { self.loop_starts.borrow().clone() }
}

impl Watchdog for CountingWatchdog {
    fn should_stop(&self) -> bool {
        let k = self.polls.fetch_add(1, Ordering::SeqCst);
        if self.stop_from <= k && k < self.stop_until {
            self.first_stop.fetch_min(k, Ordering::SeqCst);
            true
        } else {
            false
        }
    }
    fn poll_every(&self) -> usize {
        self.loop_starts.borrow_mut().push(self.polls());
        self.every
    }
}

// ------------------------------------------------------------------------------------------------------------
// programs
// ------------------------------------------------------------------------------------------------------------

#[derive(Default, Clone)]
struct Asm {
    code: Vec<u8>,
}
impl Asm {
    fn op(&mut self, b: u8) -> &mut Self { self.code.push(b); self }
    /// PUSH1..PUSH4 of `v`
    fn push(&mut self, v: u64) -> &mut Self {
        let len = if v < 1 << 8 { 1 } else if v < 1 << 16 { 2 } else if v < 1 << 24 { 3 } else { 4 };
        self.code.push(0x5f + len as u8);
        for i in (0..len).rev() { self.code.push((v >> (8 * i)) as u8); }
        self
    }
    /// PUSHn of n bytes 0xff
    fn push_mask(&mut self, bytes: usize) -> &mut Self {
        self.code.push(0x5f + bytes as u8);
        self.code.extend(std::iter::repeat(0xff).take(bytes));
        self
    }
    fn here(&self) -> usize { self.code.len() }
}

const STOP: u8 = 0x00;
const ADD: u8 = 0x01;
const AND: u8 = 0x16;
const SHA3: u8 = 0x20;
const ADDRESS: u8 = 0x30;
const CALLER: u8 = 0x33;
const CALLDATALOAD: u8 = 0x35;
const CALLDATASIZE: u8 = 0x36;
const CALLDATACOPY: u8 = 0x37;
const CODECOPY: u8 = 0x39;
const EXTCODECOPY: u8 = 0x3c;
const RETURNDATACOPY: u8 = 0x3e;
const POP: u8 = 0x50;
const MLOAD: u8 = 0x51;
const MSTORE: u8 = 0x52;
const SLOAD: u8 = 0x54;
const SSTORE: u8 = 0x55;
const JUMPI: u8 = 0x57;
const GAS: u8 = 0x5a;
const JUMPDEST: u8 = 0x5b;
const CALL: u8 = 0xf1;
const DELEGATECALL: u8 = 0xf4;

/// `single_memory_operation_size_limit` used for every run (the default, 394 bytes, makes 13 iterations)
const MEM_LIMIT: usize = 4096;
/// `CONTRACT_MAXIMUM_SIZE_BYTES`, the bound CODECOPY / EXTCODECOPY use
const CODE_LIMIT: usize = 24_576;

// names of the polled loops
const MAIN: &str = "vm main loop";
const VM_ANY: &str = "vm (main loop or a copy loop)";
const TC_STAGES: [&str; 5] = ["lift", "assign_vars", "infer", "unification", "layout"];

#[derive(Clone, Copy, PartialEq, Eq, Debug)]
enum Copy { CallData, Code, ExtCode, ReturnData, Call, DelegateCall }
impl Copy {
    fn limit(self) -> usize { match self { Copy::Code | Copy::ExtCode => CODE_LIMIT, _ => MEM_LIMIT } }
    /// `(0..min(size, limit)).step_by(32)` makes ceil(min(size, limit) / 32) iterations
    fn iterations(self, size: usize) -> usize { (size.min(self.limit()) + 31) / 32 }
    fn loop_name(self) -> &'static str {
        match self {
            Copy::CallData => "CallDataCopy loop",
            Copy::Code => "CodeCopy loop",
            Copy::ExtCode => "ExtCodeCopy loop",
            Copy::ReturnData => "ReturnDataCopy loop",
            Copy::Call | Copy::DelegateCall => "store_return_data loop",
        }
    }
    /// emits the instruction with a constant `size` operand (and drops what it leaves on the stack); returns the byte
    /// offset of the copying opcode
    fn emit(self, a: &mut Asm, size: u64) -> usize {
        match self {
            Copy::CallData => { a.push(size).push(0).push(0).op(CALLDATACOPY); a.here() - 1 }
            Copy::Code => { a.push(size).push(0).push(0).op(CODECOPY); a.here() - 1 }
            Copy::ReturnData => { a.push(size).push(0).push(0).op(RETURNDATACOPY); a.here() - 1 }
            Copy::ExtCode => { a.push(size).push(0).push(0).op(ADDRESS).op(EXTCODECOPY); a.here() - 1 }
            // retSize retOffset argSize argOffset value address gas
            Copy::Call => { a.push(size).push(0).push(0).push(0).push(0).op(CALLER).op(GAS).op(CALL).op(POP); a.here() - 2 }
            // retSize retOffset argSize argOffset address gas
            Copy::DelegateCall => { a.push(size).push(0).push(0).push(0).op(CALLER).op(GAS).op(DELEGATECALL).op(POP); a.here() - 2 }
        }
    }
}

#[derive(Clone)]
struct Prog {
    name:       String,
    code:       Vec<u8>,
    permissive: bool,
    /// no jumps: the VM main loop makes exactly one iteration per code byte
    straight:   bool,
    /// (byte offset of the opcode, which loop, iterations) of each bulk copy the program runs
    copies:     Vec<(usize, Copy, usize)>,
    /// fork-fan program (class `copy_stop_only_ends_thread`)
    fan:        bool,
}

impl Prog {
    fn straight(name: String, a: Asm, permissive: bool, copies: Vec<(usize, Copy, usize)>) -> Self { Prog { name, code: a.code, permissive, straight: true, copies, fan: false } }

    /// The polls the VM makes on a straight-line program, in order, each with the loop that makes it.  Written from
    /// the statement "polls once per `poll_every` iterations, starting with the first": a loop whose counter runs
    /// 0, 1, .., n-1 polls when `counter % poll_every == 0`, i.e. ceil(n / poll_every) times, the first time BEFORE
    /// any work is done (the off-by-one: one poll even for a single iteration, none for zero iterations).
    fn vm_polls(&self, every: usize) -> Vec<&'static str> {
        let mut v = vec![];
        for c in 0..self.code.len() {
            if c % every == 0 { v.push(MAIN); }
            for (at, kind, iterations) in &self.copies {
                if *at == c { for i in 0..*iterations { if i % every == 0 { v.push(kind.loop_name()); } } }
            }
        }
        v
    }
}

/// storage traffic the type checker has work with: word-sized, masked (packed), mapping and dynamic-array accesses
fn storage_traffic(a: &mut Asm, slots: u64) {
    for i in 0..slots {
        match i % 4 {
            // sstore(i, sload(i) & mask)
            0 => { a.push(i).op(SLOAD).push_mask(20).op(AND).push(i).op(SSTORE); }
            // sstore(i, calldataload(4) & 0xff)
            1 => { a.push(4).op(CALLDATALOAD).push_mask(1).op(AND).push(i).op(SSTORE); }
            // mapping: sstore(keccak(caller ++ i), sload(keccak(caller ++ i)) + 1)
            2 => { a.op(CALLER).push(0).op(MSTORE).push(i).push(0x20).op(MSTORE).push(0x40).push(0).op(SHA3).op(SLOAD).push(1).op(ADD)
                    .op(CALLER).push(0).op(MSTORE).push(i).push(0x20).op(MSTORE).push(0x40).push(0).op(SHA3).op(SSTORE); }
            // dynamic array: sstore(keccak(i) + calldataload(0), caller)
            _ => { a.op(CALLER).push(i).push(0).op(MSTORE).push(0x20).push(0).op(SHA3).push(0).op(CALLDATALOAD).op(ADD).op(SSTORE); }
        }
    }
}

fn programs() -> Vec<Prog> {
    let mut v = vec![];
    // 0. straight-line: VM main loop, and the type checker's five loops through the storage traffic
    let mut a = Asm::default();
    for _ in 0..23 { a.op(JUMPDEST); }
    storage_traffic(&mut a, 12);
    a.op(STOP);
    v.push(Prog::straight("straight-line storage traffic".into(), a, false, vec![]));
    // 1. looping code: JUMPDEST sstore(0, sload(0) + 1) CALLDATASIZE PUSH1 0 JUMPI .. STOP (ends through the visit / fork limits)
    let mut a = Asm::default();
    a.op(JUMPDEST).push(1).push(0).op(SLOAD).op(ADD).push(0).op(SSTORE).op(CALLDATASIZE).push(0).op(JUMPI);
    storage_traffic(&mut a, 3);
    a.op(STOP);
    v.push(Prog { name: "loop with storage traffic".into(), code: a.code, permissive: true, straight: false, copies: vec![], fan: false });
    // 2-7. one bulk copy each (constant size), the copied memory then read and stored so that the later stages see it
    for (c, size, permissive) in [(Copy::CallData, 1500u64, false), (Copy::Code, 2100, true), (Copy::ExtCode, 1000, false), (Copy::ReturnData, 5000, true),
                                  (Copy::Call, 1300, false), (Copy::DelegateCall, 700, true)] {
        let mut a = Asm::default();
        a.push(7).push(1).op(SSTORE);
        let at = c.emit(&mut a, size);
        a.push(0x40).op(MLOAD).push(2).op(SSTORE);
        storage_traffic(&mut a, 2);
        a.op(STOP);
        v.push(Prog::straight(format!("{c:?} copy of {size} bytes"), a, permissive, vec![(at, c, c.iterations(size as usize))]));
    }
    // 8. two copies in a row and one in a second thread: CALLDATASIZE PUSH2 t JUMPI <copy> <copy> .. STOP JUMPDEST <copy> .. STOP
    let mut a = Asm::default();
    a.op(CALLDATASIZE);
    let patch = a.here() + 1;
    a.push(0xffff).op(JUMPI);
    let c0 = Copy::CallData.emit(&mut a, 400);
    let c1 = Copy::Code.emit(&mut a, 300);
    a.push(1).push(0).op(SSTORE).op(STOP);
    let t = a.here();
    a.code[patch] = (t >> 8) as u8;
    a.code[patch + 1] = t as u8;
    a.op(JUMPDEST);
    let c2 = Copy::ReturnData.emit(&mut a, 500);
    a.push(1).push(1).op(SSTORE).op(STOP);
    v.push(Prog { name: "copies in two threads".into(), code: a.code, permissive: false, straight: false,
                  copies: vec![(c0, Copy::CallData, 13), (c1, Copy::Code, 10), (c2, Copy::ReturnData, 16)], fan: false });
    v
}

/// FAN: `width` conditional jumps, each starting a thread that goes straight into a bulk copy.  When the stop is
/// first seen by one of those copy loops, only that thread ends; every other waiting thread runs into its own
/// copy loop and polls again before the VM main loop's counter reaches the next multiple of the interval.
fn fan_program(width: usize) -> Prog {
    // CALLDATASIZE PUSH2 t_i JUMPI  (x width)  PUSH1 1 PUSH1 0 SSTORE STOP   then per target: JUMPDEST <copy 64 bytes> STOP
    let mut a = Asm::default();
    let mut patches = vec![];
    for _ in 0..width {
        a.op(CALLDATASIZE);
        patches.push(a.here() + 1);
        a.push(0xffff).op(JUMPI);
    }
    a.push(1).push(0).op(SSTORE).op(STOP);
    let mut copies = vec![];
    for p in patches {
        let t = a.here();
        a.code[p] = (t >> 8) as u8;
        a.code[p + 1] = t as u8;
        a.op(JUMPDEST);
        copies.push((Copy::CallData.emit(&mut a, 64), Copy::CallData, 2));
        a.op(STOP);
    }
    Prog { name: format!("fan of {width} threads into CALLDATACOPY"), code: a.code, permissive: false, straight: false, copies, fan: true }
}

// ------------------------------------------------------------------------------------------------------------
// running the real pipeline
// ------------------------------------------------------------------------------------------------------------

#[derive(Debug, Clone, PartialEq)]
enum Outcome {
    Layout(StorageLayout),
    /// an error that contains StoppedByWatchdog (how many entries, how many of them are the stop)
    Stopped { entries: usize, stops: usize },
    OtherError(String),
    Panic,
}
impl Outcome {
    fn class(&self) -> String {
        match self {
            Outcome::Layout(l) => format!("Ok(layout with {} slots)", l.slots().len()),
            Outcome::Stopped { entries, stops } => format!("Err({entries} errors, {stops} of them StoppedByWatchdog)"),
            Outcome::OtherError(e) => format!("Err without StoppedByWatchdog: {e}"),
            Outcome::Panic => "PANIC".into(),
        }
    }
}

fn is_stop(e: &error::Error) -> bool {
    matches!(e, error::Error::Execution(execution::Error::StoppedByWatchdog) | error::Error::Unification(unification::Error::StoppedByWatchdog))
}

fn classify(r: std::thread::Result<error::Result<StorageLayout>>) -> Outcome {
    match r {
        Err(_) => Outcome::Panic,
        Ok(Ok(l)) => Outcome::Layout(l),
        Ok(Err(es)) => {
            let stops = es.payloads().iter().filter(|l| is_stop(&l.payload)).count();
            if stops > 0 { Outcome::Stopped { entries: es.len(), stops } } else { Outcome::OtherError(format!("{es:?}").chars().take(200).collect()) }
        }
    }
}

fn vm_config(p: &Prog) -> vm::Config { vm::Config::default().with_memory_max_bytes(MEM_LIMIT).with_permissive_errors(p.permissive) }

/// `tc::Config::default()` with ONE table of slot hashes shared by all runs (building the table takes 300 ms in the
/// test profile; the pass only reads it).  The pass list is `LiftingPasses::default()`'s; `c13.driver_config_matches_default`
/// compares the two configurations on every program.
fn tc_config() -> tc::Config {
    static HASHES: OnceLock<StorageSlotHashes> = OnceLock::new();
    let hashes = HASHES.get_or_init(|| *StorageSlotHashes::new());
    let passes: Vec<Box<dyn Lift>> = vec![
        Box::new(hashes.clone()), ProxySlots::new(), MappingIndex::new(), SubWordValue::new(), MulShiftedValue::new(), PackedEncoding::new(),
        DynamicArrayIndex::new(), StorageSlots::new(), MappingOffset::new(),
    ];
    tc::Config { lifting_passes: LiftingPasses::new(passes), inference_rules: InferenceRules::default() }
}

/// the whole analysis through the public entry point
fn analyze(p: &Prog, tc_cfg: tc::Config, wd: DynWatchdog) -> Outcome {
    let code = p.code.clone();
    let cfg = vm_config(p);
    classify(catch_unwind(AssertUnwindSafe(move || {
        let contract = Contract::new(code, Chain::Ethereum { version: EthereumVersion::Shanghai });
        sle::new(contract, cfg, tc_cfg, wd).analyze()
    })))
}

/// poll accounting of one never-stopping run, stage by stage (the same calls `analyze` / `TypeChecker::run` make)
#[derive(Debug, Default, Clone)]
struct Account {
    /// polls made by the VM, and how many loops it started (`poll_every()` calls)
    vm_polls:  usize,
    vm_loops:  usize,
    /// polls made by lift, assign_vars, infer, unification, layout
    tc_polls:  [usize; 5],
    /// loop iterations the driver can count independently: unique values entering `lift`, values entering
    /// `assign_vars`, registered values seen by `infer`, (unification: none), constant storage slots of the layout loop
    work:      [Option<usize>; 5],
    /// how many loops `TypeChecker::unify` started (2 on the current tree: unification, layout)
    unify_loops: usize,
    ok:        bool,
}

fn account(p: &Prog, every: usize) -> Option<Account> {
    catch_unwind(AssertUnwindSafe(|| {
        let wd = CountingWatchdog::counting(every);
        let mut acc = Account::default();
        let is = InstructionStream::try_from(p.code.as_slice()).ok()?;
        let mut vm = VM::new(is, vm_config(p), wd.in_rc()).ok()?;
        let exec = vm.execute();
        acc.vm_polls = wd.polls();
        acc.vm_loops = wd.loop_starts().len();
        if exec.is_err() { return Some(acc); }
        let result = vm.consume();
        acc.work[0] = Some(result.clone().all_values().into_iter().unique().count());
        let mut t = TypeChecker::new(tc_config(), wd.in_rc());
        let mut seen = wd.polls();
        let lifted = t.lift(result).ok()?;
        acc.tc_polls[0] = wd.polls() - seen;
        seen = wd.polls();
        acc.work[1] = Some(lifted.len());
        t.assign_vars(lifted).ok()?;
        acc.tc_polls[1] = wd.polls() - seen;
        seen = wd.polls();
        acc.work[2] = Some(t.state().values().len());
        t.infer().ok()?;
        acc.tc_polls[2] = wd.polls() - seen;
        seen = wd.polls();
        // `TypeChecker::unify` = unification::unify + the layout loop; the second `poll_every()` call marks the split
        let loops_before = wd.loop_starts().len();
        let layout = t.unify();
        let starts = wd.loop_starts()[loops_before..].to_vec();
        acc.unify_loops = starts.len();
        let split = if starts.len() >= 2 { starts[starts.len() - 1] } else { wd.polls() };
        acc.tc_polls[3] = split - seen;
        acc.tc_polls[4] = wd.polls() - split;
        acc.work[4] = Some(t.state().values().iter().filter(|v| matches!(v.data(), TCSVD::StorageSlot { key } if matches!(key.data(), TCSVD::KnownData { .. }))).count());
        acc.ok = layout.is_ok();
        Some(acc)
    }))
    .ok()
    .flatten()
}

fn ceil_div(a: usize, b: usize) -> usize { (a + b - 1) / b }

fn hex(code: &[u8]) -> String { code.iter().map(|b| format!("{b:02x}")).collect() }

/// the poll indices at which the stop is injected
fn stop_points(n: usize, marks: &[usize]) -> Vec<usize> {
    if n <= 300 { return (0..n).collect(); }
    let mut s = BTreeSet::new();
    let edge = 24 * scale() as usize;
    for k in 0..edge.min(n) { s.insert(k); s.insert(n - 1 - k); }
    for m in marks { for d in 0..5usize { let k = (m + d).saturating_sub(2); if k < n { s.insert(k); } } }
    let strata = 96 * scale() as usize;
    for i in 0..strata { s.insert(i * n / strata); }
    s.into_iter().collect()
}

/// which loop made poll `k` of a run whose watchdog is `wd`
fn owner(p: &Prog, every: usize, acc: &Account, wd: &CountingWatchdog, k: usize) -> &'static str {
    if k < acc.vm_polls {
        if p.straight { return p.vm_polls(every).get(k).copied().unwrap_or(VM_ANY); }
        return if p.copies.is_empty() { MAIN } else { VM_ANY };
    }
    // type-checker phase: the last loop started at or before poll k
    let starts = wd.loop_starts();
    let mut name = "after the vm, before any type-checker loop";
    for (i, s) in starts.iter().enumerate().skip(acc.vm_loops) {
        if *s <= k { name = TC_STAGES.get(i - acc.vm_loops).copied().unwrap_or("a loop after layout building"); }
    }
    name
}

/// stop at every selected poll of one (program, interval); returns (cases, max polls after a stop)
fn stop_everywhere(p: &Prog, every: usize, unmonitored: &Outcome, reached: &mut BTreeSet<&'static str>) -> (usize, usize) {
    let input = |k: String| format!("program={} code={} poll_every={every} permissive={} memory_limit={MEM_LIMIT} watchdog={k}", p.name, hex(&p.code), p.permissive);
    // at most REPORTS lines per obligation for one (program, interval) - a broken loop fails at hundreds of k -, the
    // ones with the largest `weight` (polls after the stop) first
    let mut failures: Vec<(usize, &'static str, String, String, String)> = vec![];
    let mut report = |weight: usize, ob: &'static str, input: String, got: String, want: String| failures.push((weight, ob, input, got, want));
    // (1) never stopping == unmonitored; N = the poll count of this run
    let wd = CountingWatchdog::counting(every);
    let monitored = analyze(p, tc_config(), wd.in_rc());
    let n = wd.polls();
    if &monitored != unmonitored {
        witness("C13", "c13.never_stop_equals_unmonitored", input("never stops".into()), monitored.class(), format!("the unmonitored result {}", unmonitored.class()));
    }
    let Some(acc) = account(p, every) else {
        witness("C13", "c13.never_stop_equals_unmonitored", input("never stops".into()), "the run stage by stage failed".into(), "a layout".into());
        return (1, 0);
    };
    let mut marks = vec![acc.vm_polls];
    for s in acc.tc_polls { marks.push(marks.last().unwrap() + s); }
    // (2) stop from poll k on / at poll k only.  The number of polls the unification loop makes varies from run to run
    // when poll_every > 1 (its counter does not move on empty classes and the class order follows hash order), so N
    // is a guide for choosing k, not a promise: a run that ends before poll k was ever made must equal the unmonitored one.
    let mut cases = 1;
    let mut worst = 0;
    for k in stop_points(n, &marks) {
        for once in [false, true] {
            let wd = if once { CountingWatchdog::stop_once(every, k) } else { CountingWatchdog::stop_from(every, k) };
            let desc = if once { format!("answers stop at poll {k} only") } else { format!("answers stop from poll {k} on") };
            let out = analyze(p, tc_config(), wd.in_rc());
            cases += 1;
            let Some(first) = wd.first_stop() else {
                if &out != unmonitored {
                    report(0, "c13.never_stop_equals_unmonitored", input(format!("{desc} (only {} polls were made)", wd.polls())), out.class(), format!("the unmonitored result {}", unmonitored.class()));
                }
                continue;
            };
            let who = owner(p, every, &acc, &wd, first);
            reached.insert(who);
            if !matches!(out, Outcome::Stopped { .. }) {
                let ob = if once { "c13.single_stop_answer_is_honoured" } else { "c13.stop_at_poll_k_returns_stopped" };
                report(0, ob, format!("{} (poll {first} is made by: {who})", input(desc.clone())), out.class(), "Err containing StoppedByWatchdog".into());
            }
            if once { continue; }
            let after = wd.polls() - first - 1;
            worst = worst.max(after);
            let bound = if who == MAIN || TC_STAGES.contains(&who) { 0 } else { MAX_POLLS_AFTER_COPY_STOP };
            if after > bound {
                let ob = if p.fan && who == VM_ANY { "c13.bounded_polls_after_stop.copy_stop_only_ends_thread" } else { "c13.bounded_polls_after_stop" };
                report(after, ob, format!("{} (poll {first} is made by: {who})", input(desc)), format!("{after} more polls after the first stop answer; result {}", out.class()),
                        format!("<= {bound} more polls"));
            }
        }
    }
    failures.sort_by(|a, b| b.0.cmp(&a.0));
    let mut printed: std::collections::BTreeMap<&'static str, usize> = Default::default();
    for (_, ob, input, got, want) in failures {
        let c = printed.entry(ob).or_insert(0);
        *c += 1;
        if *c <= REPORTS { witness("C13", ob, input, got, want); }
    }
    for (ob, c) in &printed {
        if *c > REPORTS { println!("SUPPRESSED c13 obligation={ob} program={} poll_every={every}: {} more failing stop points", p.name, c - REPORTS); }
    }
    (cases, worst)
}

fn stop_in_programs(test: &str, progs: Vec<Prog>, intervals: &[usize]) {
    std::panic::set_hook(Box::new(|_| {}));
    let (mut cases, mut worst) = (0, 0);
    for p in progs {
        // the unmonitored result: LazyWatchdog and the library's own default configuration
        let unmonitored = analyze(&p, tc::Config::default(), LazyWatchdog.in_rc());
        cases += 1;
        if !matches!(unmonitored, Outcome::Layout(_)) {
            // the programs are written to be analysable; anything else is a broken premise of this driver (or of the tree)
            witness("C13", "c13.never_stop_equals_unmonitored", format!("program={} code={}", p.name, hex(&p.code)), format!("unmonitored run: {}", unmonitored.class()), "Ok(layout)".into());
            continue;
        }
        let shared = analyze(&p, tc_config(), LazyWatchdog.in_rc());
        if shared != unmonitored {
            witness("C13", "c13.driver_config_matches_default", format!("program={} code={}", p.name, hex(&p.code)), shared.class(), unmonitored.class());
        }
        for every in intervals {
            let mut reached = BTreeSet::new();
            let (c, w) = stop_everywhere(&p, *every, &unmonitored, &mut reached);
            cases += c;
            worst = worst.max(w);
            if *every == 1 {
                // with poll_every = 1 every loop that makes at least one iteration polls, and every stage boundary is a stop point
                let mut want: Vec<&'static str> = TC_STAGES.to_vec();
                if p.straight || p.copies.is_empty() { want.push(MAIN); }
                if p.straight { want.extend(p.copies.iter().map(|c| c.1.loop_name())); } else if !p.copies.is_empty() { want.push(VM_ANY); }
                for s in want {
                    if !reached.contains(s) {
                        witness("C13", "c13.driver_reaches_every_loop", format!("program={} code={} poll_every=1 loop={s}", p.name, hex(&p.code)), "no poll of this loop was ever answered (it does not poll, or does no work)".into(), "interrupted at least once".into());
                    }
                }
            }
        }
    }
    println!("INFO {test} max_polls_after_stop={worst}");
    println!("CASES {test} {cases}");
}

#[test]
fn c13_stop_at_every_poll_main_loop_and_type_checker() { stop_in_programs("c13_stop_at_every_poll_main_loop_and_type_checker", programs()[0..2].to_vec(), &INTERVALS); }

#[test]
fn c13_stop_at_every_poll_copy_opcodes() { stop_in_programs("c13_stop_at_every_poll_copy_opcodes", programs()[2..6].to_vec(), &INTERVALS); }

#[test]
fn c13_stop_at_every_poll_return_data_and_threads() { stop_in_programs("c13_stop_at_every_poll_return_data_and_threads", programs()[6..].to_vec(), &INTERVALS); }

/// FAN (see `fan_program`): the bound on polls after the stop, on programs built to defeat it
#[test]
fn c13_stop_in_a_fan_of_copy_threads() { stop_in_programs("c13_stop_in_a_fan_of_copy_threads", vec![fan_program(4), fan_program(12)], &[7, 100]); }

/// (3) polls track work: the VM alone.  Straight-line programs of n code bytes; one bulk copy of s bytes per opcode, s over
/// the boundaries of `step_by(32)` and of the size limits.
#[test]
fn c13_polls_track_work_vm() {
    std::panic::set_hook(Box::new(|_| {}));
    let mut cases = 0;
    let mut progs: Vec<Prog> = vec![];
    for n in [1usize, 2, 6, 7, 8, 99, 100, 101, 200, 201, 1000] {
        let mut a = Asm::default();
        for _ in 0..n - 1 { a.op(JUMPDEST); }
        a.op(STOP);
        progs.push(Prog::straight(format!("{n} one-byte instructions"), a, false, vec![]));
    }
    for c in [Copy::CallData, Copy::Code, Copy::ExtCode, Copy::ReturnData, Copy::Call, Copy::DelegateCall] {
        let l = c.limit() as u64;
        for s in [0u64, 1, 31, 32, 33, 64, 65, 223, 224, 225, 3199, 3200, 3201, l - 1, l, l + 1, l + 33, 1 << 16, 1 << 31] {
            let mut a = Asm::default();
            let at = c.emit(&mut a, s);
            a.op(STOP);
            progs.push(Prog::straight(format!("{c:?} copy of {s} bytes"), a, false, vec![(at, c, c.iterations(s as usize))]));
        }
    }
    // two copies in one program: each loop has its own counter
    let mut a = Asm::default();
    let c0 = Copy::CallData.emit(&mut a, 330);
    let c1 = Copy::Code.emit(&mut a, 750);
    a.op(STOP);
    progs.push(Prog::straight("CallData copy of 330 bytes then Code copy of 750 bytes".into(), a, false, vec![(c0, Copy::CallData, 11), (c1, Copy::Code, 24)]));
    let mut failed = 0;
    for p in &progs {
        for every in [1usize, 2, 3, 7, 32, 100, 1000] {
            let wd = CountingWatchdog::counting(every);
            let r = catch_unwind(AssertUnwindSafe(|| {
                let is = InstructionStream::try_from(p.code.as_slice()).unwrap();
                let mut vm = VM::new(is, vm_config(p), wd.in_rc()).unwrap();
                vm.execute().is_ok()
            }))
            .ok();
            cases += 1;
            let n = p.code.len();
            let want = ceil_div(n, every) + p.copies.iter().map(|c| ceil_div(c.2, every)).sum::<usize>();
            debug_assert_eq!(want, p.vm_polls(every).len());
            if r != Some(true) || wd.polls() != want {
                failed += 1;
                if failed > 4 * REPORTS { continue; }
                witness("C13", "c13.polls_track_work", format!("VM::execute program={} code={} poll_every={every} memory_limit={MEM_LIMIT}", p.name, hex(&p.code)),
                        format!("{} polls (execute ok: {r:?})", wd.polls()),
                        format!("{want} = ceil({n} main-loop iterations / {every}) + sum over the copy loops (iterations {:?}) of ceil(iterations / {every})", p.copies.iter().map(|c| c.2).collect::<Vec<_>>()));
            }
        }
    }
    if failed > 4 * REPORTS { println!("SUPPRESSED c13 obligation=c13.polls_track_work VM::execute: {} more failing (program, interval) pairs", failed - 4 * REPORTS); }
    println!("CASES c13_polls_track_work_vm {cases}");
}

/// (3) polls track work: the whole pipeline, loop by loop
#[test]
fn c13_polls_track_work_stages() {
    std::panic::set_hook(Box::new(|_| {}));
    let mut cases = 0;
    for p in programs() {
        let base = account(&p, 1);
        for every in INTERVALS.into_iter().chain([3, 1000]) {
            cases += 1;
            let input = format!("program={} code={} poll_every={every} memory_limit={MEM_LIMIT}", p.name, hex(&p.code));
            let Some(acc) = account(&p, every).filter(|a| a.ok) else {
                witness("C13", "c13.polls_track_work", input, "the run stage by stage failed".into(), "a layout".into());
                continue;
            };
            // VM: exact for straight-line programs; otherwise a band derived from the poll_every = 1 run of the same program,
            // which counts the iterations of all VM loops together
            if p.straight {
                let want = p.vm_polls(every).len();
                if acc.vm_polls != want {
                    witness("C13", "c13.polls_track_work", format!("{input} loop=vm (main loop over {} bytes, copy loops of {:?} iterations)", p.code.len(), p.copies.iter().map(|c| c.2).collect::<Vec<_>>()),
                            format!("{} polls", acc.vm_polls), format!("{want}"));
                }
            } else if let Some(b) = &base {
                let (lo, hi) = (ceil_div(b.vm_polls, every), b.vm_polls);
                if acc.vm_polls < lo || acc.vm_polls > hi {
                    witness("C13", "c13.polls_track_work", format!("{input} loop=vm"), format!("{} polls", acc.vm_polls), format!("between {lo} and {hi} ({} iterations counted with poll_every=1)", b.vm_polls));
                }
            }
            for s in [0usize, 1, 2, 4] {
                if s == 4 && acc.unify_loops > 2 {
                    println!("INFO c13_polls_track_work_stages TypeChecker::unify started {} polled loops; the layout loop's share is not attributed", acc.unify_loops);
                    continue;
                }
                let w = acc.work[s].unwrap();
                let want = ceil_div(w, every);
                if acc.tc_polls[s] != want {
                    witness("C13", "c13.polls_track_work", format!("{input} loop={}", TC_STAGES[s]), format!("{} polls for {w} iterations", acc.tc_polls[s]), format!("{want} = ceil({w} / {every})"));
                }
            }
            // unification: its counter only moves on non-empty classes and it polls on every visit while the counter sits on a
            // multiple of the interval, so the count is not a function of anything visible from outside: at least one poll
            if acc.tc_polls[3] < 1 {
                witness("C13", "c13.polls_track_work", format!("{input} loop=unification"), "0 polls".into(), ">= 1".into());
            }
        }
    }
    println!("CASES c13_polls_track_work_stages {cases}");
}

/// the unification loop on a hand-built typing state: MANY classes that hold one judgement each and ONE class that needs
/// a merge.  Every class visit is an iteration of the loop, so with interval k the loop polls about (classes x passes) / k
/// times — at least once per k classes of a single pass — and a stop answered at any of those polls is honoured
#[test]
fn c13_unification_polls_track_class_visits() {
    use storage_layout_extractor::{tc::{expression::TE, state::TypeCheckerState, unification}, vm::value::{known::KnownWord, Provenance, RSV, RSVD}};
    std::panic::set_hook(Box::new(|_| {}));
    let build = |n: usize, merge_at: usize| -> TypeCheckerState {
        let mut state = TypeCheckerState::empty();
        for i in 0..n {
            let key = RSV::new_known_value(i as u32, KnownWord::from_le(i as u32), Provenance::Synthetic, None);
            let v = state.register(RSV::new_synthetic(i as u32, RSVD::StorageSlot { key }));
            state.infer(v, TE::bytes(None));
            if i == merge_at { state.infer(v, TE::address()); }
        }
        state
    };
    let mut cases = 0;
    for n in [20usize, 60, 200] {
        for every in [2usize, 3, 7, 10] {
            for merge_at in [0, n / 2, n - 1] {
                cases += 1;
                let wd = CountingWatchdog::counting(every);
                let mut state = build(n, merge_at);
                let dyn_wd = wd.in_rc();
                let r = unification::unify(&mut state, &dyn_wd);
                let polls = wd.polls();
                // one full pass over the n classes alone is n iterations
                if r.is_ok() && (polls + 1) * every < n {
                    witness("C13", "polls.track_work.unification", format!("{n} classes of one judgement each, the class at position {merge_at} with two; interval {every}"), format!("{polls} polls"), format!("at least {} (one per {every} class visits of a single pass)", n / every - 1));
                }
                // a stop from every poll index that a full run reaches is honoured
                for k in [1usize, polls / 2, polls.saturating_sub(1)] {
                    if k == 0 || k >= polls { continue; }
                    let wd = CountingWatchdog::stop_from(every, k);
                    let mut state = build(n, merge_at);
                    let dyn_wd = wd.in_rc();
                    let r = unification::unify(&mut state, &dyn_wd);
                    let stopped = matches!(&r, Err(e) if e.payloads().iter().any(|p| format!("{:?}", p.payload).contains("StoppedByWatchdog")));
                    if !stopped || wd.polls() > k + 2 {
                        witness("C13", "stop.honoured.unification", format!("{n} classes, merge at {merge_at}, interval {every}, stop from poll {k} of {polls}"), format!("stopped={stopped} after {} polls", wd.polls()), format!("a stopped error within 2 polls of poll {k}"));
                    }
                }
            }
        }
    }
    println!("CASES c13_unify_polls {cases}");
}
