//! C07: stack discipline of DUPn / SWAPn / PUSH on the real Stack.
use storage_layout_extractor::vm::{
    state::stack::Stack,
    value::{known::KnownWord, Provenance, RSV, RSVD},
};

use crate::witness;

fn k(n: u32) -> std::sync::Arc<RSV> { RSV::new_known_value(0, KnownWord::from_le(n), Provenance::Synthetic, None) }
fn val(v: &std::sync::Arc<RSV>) -> u32 { match v.data() { RSVD::KnownData { value } => value.value_le().as_u32(), _ => u32::MAX } }
fn dump(s: &Stack) -> Vec<u32> { (0..s.depth() as u32).rev().map(|d| val(s.read(d).unwrap())).collect() }

#[test]
fn c07_stack_dup_swap_push_pop() {
    let mut cases = 0;
    for depth in 1..=20u32 {
        for f in 0..=depth {
            let mut s = Stack::new();
            let mut model: Vec<u32> = vec![];
            for i in 0..depth { s.push(k(i)).unwrap(); model.push(i); }
            // duplicate(f): copies the item f below the top
            let mut s1 = s.clone();
            let r = s1.duplicate(f);
            let mut m1 = model.clone();
            if (f as usize) < m1.len() { let x = m1[m1.len() - 1 - f as usize]; m1.push(x); }
            if r.is_ok() != ((f as usize) < model.len()) || dump(&s1) != m1 {
                witness("C07", "stack.duplicate.model", format!("depth={depth} frame={f}"), format!("{:?} ok={}", dump(&s1), r.is_ok()), format!("{m1:?}"));
            }
            // swap(f): exchanges top with the item f below it (f>0)
            let mut s2 = s.clone();
            let r = s2.swap(f);
            let mut m2 = model.clone();
            let legal = f > 0 && (f as usize) < m2.len();
            if legal { let n = m2.len(); m2.swap(n - 1, n - 1 - f as usize); }
            if r.is_ok() != legal && !(f == 0 && r.is_ok() && dump(&s2) == model) || dump(&s2) != m2 {
                witness("C07", "stack.swap.model", format!("depth={depth} frame={f}"), format!("{:?} ok={}", dump(&s2), r.is_ok()), format!("{m2:?}"));
            }
            cases += 2;
        }
    }
    // overflow at the limit
    let mut s = Stack::new();
    for i in 0..1024 { s.push(k(i)).unwrap(); }
    if s.push(k(0)).is_ok() || s.depth() != 1024 { witness("C07", "stack.push.limit", "1025th push".into(), format!("depth {}", s.depth()), "Err, depth 1024".into()); }
    let mut e = Stack::new();
    if e.pop().is_ok() { witness("C07", "stack.pop.empty", "pop on empty".into(), "Ok".into(), "Err".into()); }
    println!("CASES c07_stack {cases}");
}
