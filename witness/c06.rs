//! C06 (no missed slots): every SLOAD / SSTORE with a literal key on an explored path must leave at least one
//! layout entry at exactly that 256-bit index whenever the analysis succeeds — for reads of never-written slots,
//! plain writes, writes of values so large that they are culled, masked copies of a slot into itself, and mixes
//! of those on one path or on the two arms of a branch.  Keys: small, >= 2^32, >= 2^64, >= 2^128, 2^255, 2^256-1,
//! EIP-1967 constants (keys that are keccak256 of a small number denote array data and are skipped).
use std::collections::BTreeSet;

use ethnum::U256;
use sha3::{Digest, Keccak256};

use crate::{
    c08::{analyze, Out},
    scale,
    witness,
    Rng,
};

fn keccak(bytes: &[u8]) -> U256 {
    let mut h = Keccak256::new();
    h.update(bytes);
    U256::from_be_bytes(h.finalize().as_slice().try_into().expect("32 bytes"))
}

fn p32(c: &mut Vec<u8>, k: U256) { c.push(0x7f); c.extend(k.to_be_bytes()); }
fn pmin(c: &mut Vec<u8>, k: U256) {
    let b = k.to_be_bytes();
    let z = b.iter().take_while(|v| **v == 0).count();
    if z == 32 { c.extend([0x60, 0x00]); } else { c.push(0x5f + (32 - z) as u8); c.extend(&b[z..]); }
}

pub fn literal_keys(extra_random: u64) -> Vec<U256> {
    let one = U256::ONE;
    let mut v = vec![
        U256::ZERO, one, U256::new(3), U256::new(255), U256::new(256),
        one << 32u32, (one << 64u32) - one, one << 64u32, (one << 64u32) + one,
        one << 128u32, (one << 128u32) + one, one << 160u32, one << 255u32, (one << 255u32) + one, U256::MAX,
        // bytes32(uint256(keccak256("eip1967.proxy.implementation")) - 1) and the admin slot
        keccak(b"eip1967.proxy.implementation") - one,
        keccak(b"eip1967.proxy.admin") - one,
    ];
    let mut rng = Rng::seeded(600);
    for _ in 0..extra_random { v.push(rng.word()); }
    // keccak256(n) for the slot numbers the tool recognises denotes the data of the array at slot n
    let hashed: BTreeSet<U256> = (0..10_000u64).map(|n| keccak(&U256::from(n).to_be_bytes())).collect();
    v.retain(|k| !hashed.contains(k));
    v
}

struct Case { ob: &'static str, what: String, code: Vec<u8>, must: Vec<U256> }

fn run_cases(name: &str, cases: Vec<Case>) {
    std::panic::set_hook(Box::new(|_| {}));
    let n = cases.len();
    let workers = 12usize;
    let chunks: Vec<&[Case]> = cases.chunks((n + workers - 1) / workers.max(1)).collect();
    let mut failed = 0usize;
    let results: Vec<Vec<(usize, Out)>> = std::thread::scope(|s| {
        let hs: Vec<_> = chunks.iter().map(|ch| s.spawn(move || ch.iter().enumerate().map(|(i, c)| (i, analyze(&c.code, true))).collect::<Vec<_>>())).collect();
        hs.into_iter().map(|h| h.join().unwrap_or_default()).collect()
    });
    for (ch, rs) in chunks.iter().zip(results) {
        for (i, out) in rs {
            let c = &ch[i];
            let hexcode: String = c.code.iter().map(|b| format!("{b:02x}")).collect();
            match out {
                Out::Panic => witness("C01", "analyze.panic", format!("{}: {hexcode}", c.what), "PANIC".into(), "layout or error".into()),
                Out::Err(_) => failed += 1,
                Out::Ok(slots) => {
                    for k in &c.must {
                        if !slots.iter().any(|(ix, _)| ix == k) {
                            let got: Vec<String> = slots.iter().map(|(ix, off)| format!("{ix:#x}@{off}")).collect();
                            witness("C06", c.ob, format!("{}: {hexcode}", c.what), format!("entries [{}]", got.join(", ")), format!("an entry at index {k:#x}"));
                        }
                    }
                }
            }
        }
    }
    if failed > 0 { println!("NOTE {name}: {failed} of {n} analyses returned an error (C06 speaks about successful analyses only)"); }
    println!("CASES {name} {n}");
}

const MASK_BITS: [u32; 4] = [8, 32, 128, 160];

fn read_only(k: U256, short: bool) -> Vec<u8> { let mut c = vec![]; if short { pmin(&mut c, k) } else { p32(&mut c, k) }; c.extend([0x54, 0x50, 0x00]); c }
fn write_only(k: U256, v: u8, short: bool) -> Vec<u8> { let mut c = vec![0x60, v]; if short { pmin(&mut c, k) } else { p32(&mut c, k) }; c.extend([0x55, 0x00]); c }
fn big_value(k: U256, n: usize) -> Vec<u8> { let mut c = vec![0x36]; for _ in 0..n { c.extend([0x60, 0x01, 0x01]); } p32(&mut c, k); c.extend([0x55, 0x00]); c }
fn masked_self_copy(k: U256, bits: u32) -> Vec<u8> {
    let mut c = vec![];
    p32(&mut c, k);
    c.push(0x54);
    pmin(&mut c, (U256::ONE << bits) - U256::ONE);
    c.push(0x16);
    p32(&mut c, k);
    c.extend([0x55, 0x00]);
    c
}

#[test]
fn c06_slot_reported_for_constant_key_read_only_and_write_only() {
    let mut cases = vec![];
    for k in literal_keys(2 * scale()) {
        cases.push(Case { ob: "slots.read_only", what: format!("PUSH32 {k:#x} SLOAD POP"), code: read_only(k, false), must: vec![k] });
        cases.push(Case { ob: "slots.read_only", what: format!("PUSHn {k:#x} SLOAD POP"), code: read_only(k, true), must: vec![k] });
        // the loaded word is returned
        let mut c = vec![];
        p32(&mut c, k);
        c.extend([0x54, 0x60, 0x00, 0x52, 0x60, 0x20, 0x60, 0x00, 0xf3]);
        cases.push(Case { ob: "slots.read_only", what: format!("return sload({k:#x})"), code: c, must: vec![k] });
        for v in [0u8, 0xff] { cases.push(Case { ob: "slots.write_only", what: format!("sstore({k:#x}, {v})"), code: write_only(k, v, v == 0xff), must: vec![k] }); }
        // sstore(k, calldataload(0))
        let mut c = vec![0x60, 0x00, 0x35];
        p32(&mut c, k);
        c.extend([0x55, 0x00]);
        cases.push(Case { ob: "slots.write_only", what: format!("sstore({k:#x}, calldataload(0))"), code: c, must: vec![k] });
    }
    run_cases("c06_read_only_write_only", cases);
}

#[test]
fn c06_slot_reported_for_constant_key_big_value() {
    let mut cases = vec![];
    for k in literal_keys(scale()) {
        // the stored tree has 1 + 2N nodes: 249 at N = 124, over the default limit of 250 from N = 125 on
        for n in [1usize, 124, 125, 130] {
            cases.push(Case { ob: "slots.big_value", what: format!("sstore({k:#x}, calldatasize (+1)x{n})"), code: big_value(k, n), must: vec![k] });
        }
    }
    // the same with the culled word passing through memory and a DUP before the store
    for k in literal_keys(0).into_iter().step_by(3) {
        let mut c = vec![0x36];
        for _ in 0..126 { c.extend([0x60, 0x01, 0x01]); }
        c.extend([0x80, 0x60, 0x00, 0x52, 0x60, 0x00, 0x51]);
        p32(&mut c, k);
        c.extend([0x55, 0x50, 0x00]);
        cases.push(Case { ob: "slots.big_value", what: format!("sstore({k:#x}, mload(0)) of a culled word"), code: c, must: vec![k] });
    }
    run_cases("c06_big_value", cases);
}

#[test]
fn c06_slot_reported_for_constant_key_masked_self_copy() {
    let mut cases = vec![];
    for k in literal_keys(scale()) {
        for bits in MASK_BITS {
            cases.push(Case { ob: "slots.masked_self_copy", what: format!("sstore({k:#x}, sload({k:#x}) & (2^{bits}-1))"), code: masked_self_copy(k, bits), must: vec![k] });
        }
        // plain write-back of the loaded word
        let mut c = vec![];
        p32(&mut c, k);
        c.push(0x54);
        p32(&mut c, k);
        c.extend([0x55, 0x00]);
        cases.push(Case { ob: "slots.masked_self_copy", what: format!("sstore({k:#x}, sload({k:#x}))"), code: c, must: vec![k] });
    }
    run_cases("c06_masked_self_copy", cases);
}

#[test]
fn c06_slot_reported_for_constant_key_mixed_use() {
    let keys = literal_keys(scale());
    let mut cases = vec![];
    for (i, &k1) in keys.iter().enumerate() {
        let k2 = keys[(i + 7) % keys.len()];
        let k3 = keys[(i + 13) % keys.len()];
        // one path: read k1, write k2, masked self copy of k3, big value into k1
        let mut c = read_only(k1, false);
        c.pop();
        let mut w = write_only(k2, 1, false);
        w.pop();
        c.extend(w);
        let mut m = masked_self_copy(k3, MASK_BITS[i % 4]);
        m.pop();
        c.extend(m);
        c.extend(big_value(k1, 125));
        cases.push(Case { ob: "slots.mixed", what: format!("sload({k1:#x}); sstore({k2:#x},1); masked self copy of {k3:#x}; culled store to {k1:#x}"), code: c, must: vec![k1, k2, k3] });
        // two arms: if calldatasize { sstore(k2, 1) } else { sload(k1) }  — each arm alone is the only access to its key
        let mut c = vec![0x36, 0x61, 0x00, 0x00, 0x57];
        let mut a = read_only(k1, false);
        c.append(&mut a);
        let t = c.len();
        c[2] = (t >> 8) as u8;
        c[3] = t as u8;
        c.push(0x5b);
        c.extend(write_only(k2, 1, false));
        cases.push(Case { ob: "slots.mixed", what: format!("if calldatasize {{ sstore({k2:#x},1) }} else {{ sload({k1:#x}) }}"), code: c, must: vec![k1, k2] });
        // overwrite: sstore(k1, 1); sstore(k1, calldataload(0)); sload(k1) returned; sload(k3) dropped
        let mut c = write_only(k1, 1, false);
        c.pop();
        c.extend([0x60, 0x00, 0x35]);
        p32(&mut c, k1);
        c.push(0x55);
        p32(&mut c, k3);
        c.extend([0x54, 0x50]);
        p32(&mut c, k1);
        c.extend([0x54, 0x60, 0x00, 0x52, 0x60, 0x20, 0x60, 0x00, 0xf3]);
        cases.push(Case { ob: "slots.mixed", what: format!("sstore({k1:#x},1); sstore({k1:#x},calldataload(0)); sload({k3:#x}); return sload({k1:#x})"), code: c, must: vec![k1, k3] });
    }
    run_cases("c06_mixed_use", cases);
}

/// histories on one key and paths that do not end in a halting instruction
#[test]
fn c06_slot_reported_for_constant_key_histories_and_open_ended_paths() {
    let mut cases = vec![];
    for &k in &literal_keys(0) {
        // write 7 then write literal 0 to the same key
        let mut c = vec![0x60, 0x07]; p32(&mut c, k); c.push(0x55); c.extend([0x60, 0x00]); p32(&mut c, k); c.extend([0x55, 0x00]);
        cases.push(Case { ob: "slots.write_then_clear", what: format!("sstore({k:#x},7); sstore({k:#x},0)"), code: c, must: vec![k] });
        // read (result discarded) then write literal 0
        let mut c = vec![]; p32(&mut c, k); c.extend([0x54, 0x50, 0x60, 0x00]); p32(&mut c, k); c.extend([0x55, 0x00]);
        cases.push(Case { ob: "slots.write_then_clear", what: format!("sload({k:#x}); sstore({k:#x},0)"), code: c, must: vec![k] });
        // write 0, write 0 again
        let mut c = vec![0x60, 0x00]; p32(&mut c, k); c.push(0x55); c.extend([0x60, 0x00]); p32(&mut c, k); c.extend([0x55, 0x00]);
        cases.push(Case { ob: "slots.write_then_clear", what: format!("sstore({k:#x},0) twice"), code: c, must: vec![k] });
        // the path runs off the end of the code: no STOP after the access
        let mut c = vec![0x60, 0x01]; p32(&mut c, k); c.push(0x55);
        cases.push(Case { ob: "slots.path_runs_off_the_end", what: format!("sstore({k:#x},1) as the final bytes"), code: c, must: vec![k] });
        let mut c = vec![]; p32(&mut c, k); c.push(0x54);
        cases.push(Case { ob: "slots.path_runs_off_the_end", what: format!("sload({k:#x}) as the final bytes"), code: c, must: vec![k] });
        // a branch arm that stores and falls off the end while the other arm stops: CALLDATASIZE PUSH1 5 JUMPI STOP JUMPDEST PUSH1 2 PUSH32 k SSTORE
        let mut c = vec![0x36, 0x60, 0x05, 0x57, 0x00, 0x5b, 0x60, 0x02]; p32(&mut c, k); c.push(0x55);
        cases.push(Case { ob: "slots.path_runs_off_the_end", what: format!("jumpi arm: sstore({k:#x},2) then end of code"), code: c, must: vec![k] });
    }
    for &k in &literal_keys(0) {
        // read-only slot whose loaded word only feeds an expression that is culled (doubling) and then dropped
        let mut c = vec![]; p32(&mut c, k); c.push(0x54); for _ in 0..9 { c.extend([0x80, 0x01]); } c.extend([0x50, 0x00]);
        cases.push(Case { ob: "slots.read_only", what: format!("sload({k:#x}) doubled 9 times then popped"), code: c, must: vec![k] });
        let mut c = vec![]; p32(&mut c, k); c.push(0x54); for _ in 0..9 { c.extend([0x80, 0x02]); } c.extend([0x60, 0x00, 0x52, 0x00]);
        cases.push(Case { ob: "slots.read_only", what: format!("sload({k:#x}) squared 9 times then written to memory"), code: c, must: vec![k] });
    }
    run_cases("c06_histories", cases);
}

/// however the path ends — STOP, RETURN, REVERT, INVALID, SELFDESTRUCT, an unassigned byte, running off the end of the code,
/// a tolerated bad JUMP — the literal-key accesses made before the end are reported (write, read whose result is dropped, read
/// whose result is used as the beneficiary / return data)
#[test]
fn c06_slot_reported_whatever_ends_the_path() {
    let endings: Vec<(&str, Vec<u8>)> = vec![
        ("STOP", vec![0x00]), ("RETURN", vec![0x60, 0x00, 0x60, 0x00, 0xf3]), ("REVERT", vec![0x60, 0x00, 0x60, 0x00, 0xfd]), ("INVALID", vec![0xfe]),
        ("SELFDESTRUCT", vec![0x33, 0xff]), ("unassigned 0x0c", vec![0x0c]), ("end of code", vec![]), ("bad JUMP", vec![0x60, 0x01, 0x56]),
    ];
    let mut cases = vec![];
    for k in literal_keys(0) {
        for (name, e) in &endings {
            let mut c = vec![0x33]; p32(&mut c, k); c.push(0x55); c.extend(e);
            cases.push(Case { ob: "slots.path_ending", what: format!("sstore({k:#x}, caller); {name}"), code: c, must: vec![k] });
            let mut c = vec![]; p32(&mut c, k); c.extend([0x54, 0x50]); c.extend(e);
            cases.push(Case { ob: "slots.path_ending", what: format!("sload({k:#x}) dropped; {name}"), code: c, must: vec![k] });
            // a branch that writes k and ends this way, while the other arm only stops
            let mut c = vec![0x36, 0x60, 0x05, 0x57, 0x00, 0x5b, 0x60, 0x01]; p32(&mut c, k); c.push(0x55); c.extend(e);
            cases.push(Case { ob: "slots.path_ending", what: format!("if calldatasize {{ sstore({k:#x}, 1); {name} }}"), code: c, must: vec![k] });
        }
        // the loaded word is the SELFDESTRUCT beneficiary
        let mut c = vec![]; p32(&mut c, k); c.extend([0x54, 0xff]);
        cases.push(Case { ob: "slots.path_ending", what: format!("selfdestruct(sload({k:#x}))"), code: c, must: vec![k] });
    }
    run_cases("c06_path_endings", cases);
}

/// one path that touches MANY distinct literal keys (more than any small table would hold): every one of them is reported
#[test]
fn c06_many_distinct_keys_on_one_path_are_all_reported() {
    let mut cases = vec![];
    for (n, mixed) in [(300u64, false), (1100, false), (1100, true), (2100, true)] {
        let mut c = vec![];
        let mut must = vec![];
        for i in 0..n {
            let k = U256::from(1000 + 3 * i);
            if mixed && i % 2 == 0 { pmin(&mut c, k); c.extend([0x54, 0x50]); } else { c.push(0x33); pmin(&mut c, k); c.push(0x55); }
            must.push(k);
        }
        // a few more behind them, never read
        for k in [U256::ONE << 128u32, U256::MAX, keccak(b"eip1967.proxy.admin") - U256::ONE] { c.push(0x33); p32(&mut c, k); c.push(0x55); must.push(k); }
        c.push(0x00);
        cases.push(Case { ob: "slots.many_keys", what: format!("{n} distinct literal keys (reads and writes mixed: {mixed}) and three more writes"), code: c, must });
    }
    run_cases("c06_many_keys", cases);
}

/// literal keys NEAR the hashes the tool recognises (keccak256(n) for small n): one to 33 above, one below, the byte-swapped
/// hash, the hash of the hash — none of them is the recognised hash itself, so each is an ordinary literal key and must be
/// reported at exactly that index
#[test]
fn c06_literal_keys_near_recognised_hashes_are_reported() {
    let mut cases = vec![];
    for n in [0u64, 1, 3, 5, 9999] {
        let h = keccak(&U256::from(n).to_be_bytes());
        let mut near: Vec<(String, U256)> = vec![];
        for k in [1u64, 2, 5, 31, 32, 33] { near.push((format!("keccak({n}) + {k}"), h.wrapping_add(U256::from(k)))); }
        near.push((format!("keccak({n}) - 1"), h.wrapping_sub(U256::ONE)));
        near.push((format!("byte-swapped keccak({n})"), U256::from_le_bytes(h.to_be_bytes())));
        near.push((format!("keccak(keccak({n}))"), keccak(&h.to_be_bytes())));
        for (what, k) in near {
            cases.push(Case { ob: "slots.near_recognised_hash", what: format!("sload({what}) dropped"), code: read_only(k, false), must: vec![k] });
            cases.push(Case { ob: "slots.near_recognised_hash", what: format!("sstore({what}, caller)"), code: { let mut c = vec![0x33]; p32(&mut c, k); c.extend([0x55, 0x00]); c }, must: vec![k] });
        }
    }
    run_cases("c06_near_hashes", cases);
}

/// slots whose type is a PACKED encoding (two fields read out of them by mask), at every kind of literal key, alone and
/// sharing their type with a second slot through a whole-word copy (`sstore(k1, sload(k2))`): each key has its own entries,
/// at exactly that 256-bit index, and no entry names any other index
#[test]
fn c06_packed_slots_at_every_key_and_in_shared_sets_are_reported() {
    let mut cases = vec![];
    let keys = literal_keys(0);
    for (i, &k2) in keys.iter().enumerate() {
        let k1 = keys[(i + 5) % keys.len()];
        if k1 == k2 { continue; }
        // a = sload(k2) & 0xff ; b = (sload(k2) >> 8) & 0xffff ; both dropped into memory
        let fields = |c: &mut Vec<u8>, k: U256| {
            c.extend([0x60, 0xff]); p32(c, k); c.extend([0x54, 0x16, 0x60, 0x00, 0x52]);
            c.extend([0x61, 0xff, 0xff]); p32(c, k); c.extend([0x54, 0x60, 0x08, 0x1c, 0x16, 0x60, 0x20, 0x52]);
        };
        let mut c = vec![]; fields(&mut c, k2); c.push(0x00);
        cases.push(Case { ob: "slots.packed_slot", what: format!("two fields read out of slot {k2:#x}"), code: c, must: vec![k2] });
        let mut c = vec![]; fields(&mut c, k2); p32(&mut c, k2); c.push(0x54); p32(&mut c, k1); c.extend([0x55, 0x00]);
        cases.push(Case { ob: "slots.packed_slot", what: format!("two fields read out of slot {k2:#x}; sstore({k1:#x}, sload({k2:#x}))"), code: c, must: vec![k1, k2] });
        let mut c = vec![]; p32(&mut c, k2); c.push(0x54); p32(&mut c, k1); c.push(0x55); fields(&mut c, k1); fields(&mut c, k2); c.push(0x00);
        cases.push(Case { ob: "slots.packed_slot", what: format!("sstore({k1:#x}, sload({k2:#x})); two fields read out of each"), code: c, must: vec![k1, k2] });
    }
    run_cases("c06_packed_slots", cases);
}

/// a type-checker configuration whose lifting passes were put together through the public `LiftingPasses::add` (the nine
/// default passes, in the default order) reports the same slots as the default configuration
#[test]
fn c06_passes_assembled_through_add_report_the_same_slots() {
    use storage_layout_extractor::{self as sle, extractor::{chain::{version::EthereumVersion, Chain}, contract::Contract}, tc, vm, watchdog::LazyWatchdog,
        tc::lift::{Lift, LiftingPasses, dynamic_array_access::DynamicArrayIndex, mapping_index::MappingIndex, mapping_offset::MappingOffset, mul_shifted::MulShiftedValue, packed_encoding::PackedEncoding,
                   proxy_slots::ProxySlots, recognise_hashed_slots::StorageSlotHashes, storage_slots::StorageSlots, sub_word::SubWordValue}};
    std::panic::set_hook(Box::new(|_| {}));
    let mut cases = 0;
    let keys = literal_keys(0);
    for (i, &k) in keys.iter().enumerate().step_by(3) {
        let k2 = keys[(i + 4) % keys.len()];
        let mut code = write_only(k, 1, false); code.pop();
        code.extend(read_only(k2, false));
        let run = |cfg: tc::Config, code: &[u8]| -> Option<Vec<U256>> {
            let c = code.to_vec();
            std::panic::catch_unwind(std::panic::AssertUnwindSafe(move || {
                let contract = Contract::new(c, Chain::Ethereum { version: EthereumVersion::Shanghai });
                sle::new(contract, vm::Config::default(), cfg, LazyWatchdog.in_rc()).analyze().ok().map(|l| l.slots().iter().map(|s| s.index.0).collect())
            })).ok().flatten()
        };
        let mut lp = LiftingPasses::new(Vec::<Box<dyn Lift>>::new());
        // `new()` of each pass hands out a boxed pass; `add` takes the pass itself
        lp.add(*StorageSlotHashes::new()); lp.add(*ProxySlots::new()); lp.add(*MappingIndex::new()); lp.add(*SubWordValue::new()); lp.add(*MulShiftedValue::new());
        lp.add(*PackedEncoding::new()); lp.add(*DynamicArrayIndex::new()); lp.add(*StorageSlots::new()); lp.add(*MappingOffset::new());
        let with_add = run(tc::Config::default().with_lifting_passes(lp), &code);
        let default = run(tc::Config::default(), &code);
        cases += 1;
        let hexcode: String = code.iter().map(|b| format!("{b:02x}")).collect();
        for key in [k, k2] {
            if let Some(slots) = &with_add {
                if !slots.contains(&key) {
                    witness("C06", "slots.custom_pass_list", format!("the nine default passes assembled with LiftingPasses::add: sstore({k:#x}, 1); sload({k2:#x}): {hexcode}"), format!("entries {slots:x?} (default configuration: {default:x?})"), format!("an entry at index {key:#x}"));
                }
            }
        }
    }
    println!("CASES c06_add_built_passes {cases}");
}
