use crate::c08::analyze_layout;
#[test]
fn c06_probe() {
    let t = std::time::Instant::now();
    for i in 0..20u8 {
        let r = analyze_layout(&[0x60, 0x01, 0x60, i, 0x55, 0x00]);
        if i == 0 { println!("{r:?}"); }
    }
    println!("20 analyses: {:?}", t.elapsed());
}
