//! C18: values respect the size limit and report their true size.
use storage_layout_extractor::vm::value::{Provenance, RSV, RSVD};

use crate::witness;

fn count(v: &std::sync::Arc<RSV>) -> usize { 1 + v.data().children().iter().map(|c| count(c)).sum::<usize>() }

#[test]
fn c18_new_culls_exactly_and_reports_true_size() {
    let mut cases = 0;
    for limit in 1usize..=12 {
        let mut v = RSV::new_value(0, Provenance::Synthetic);
        for step in 0..8 {
            let n = RSV::new(1, RSVD::Add { left: v.clone(), right: v.clone() }, Provenance::Synthetic, Some(limit));
            let real = count(&n);
            if n.size() != real { witness("C18", "vs.new.size_is_node_count", format!("limit={limit} step={step} child size={}", v.size()), format!("size()={}", n.size()), format!("{real}")); }
            if real > limit.max(1) { witness("C18", "vs.new.within_limit", format!("limit={limit} step={step}"), format!("{real} nodes"), format!("<= {limit}")); }
            let should_keep = 1 + 2 * count(&v) <= limit;
            let kept = matches!(n.data(), RSVD::Add { .. });
            if kept != should_keep { witness("C18", "vs.new.culled_iff_over_limit", format!("limit={limit} step={step} child nodes={}", count(&v)), format!("kept={kept}"), format!("kept={should_keep}")); }
            v = n;
            cases += 1;
        }
    }
    println!("CASES c18_new {cases}");
}

/// every value an instruction leaves on the stack / in storage obeys the limit, on real runs
#[test]
fn c18_instruction_results_obey_the_limit() {
    use storage_layout_extractor::{disassembly::InstructionStream, vm::{Config, VM}, watchdog::LazyWatchdog};
    let programs: Vec<(&str, Vec<u8>)> = vec![
        ("sload of a computed key", vec![0x60, 0x01, 0x60, 0x02, 0x01, 0x54, 0x00]),
        ("repeated squaring", vec![0x36, 0x80, 0x02, 0x80, 0x02, 0x80, 0x02, 0x80, 0x02, 0x60, 0x00, 0x55, 0x00]),
        ("repeated add then mstore/mload", vec![0x36, 0x80, 0x01, 0x80, 0x01, 0x80, 0x01, 0x60, 0x00, 0x52, 0x60, 0x00, 0x51, 0x60, 0x00, 0x55, 0x00]),
        ("sha3 of memory", vec![0x36, 0x60, 0x00, 0x52, 0x60, 0x20, 0x60, 0x00, 0x20, 0x80, 0x01, 0x60, 0x00, 0x55, 0x00]),
        // bulk copies whose offset / size operands are themselves grown values (symbolic size and constant size)
        ("calldatacopy with grown symbolic offset and size", vec![0x36, 0x80, 0x01, 0x80, 0x01, 0x80, 0x80, 0x60, 0x00, 0x37, 0x60, 0x00, 0x51, 0x60, 0x00, 0x55, 0x00]),
        ("calldatacopy with grown offset, constant size", vec![0x60, 0x20, 0x36, 0x80, 0x01, 0x80, 0x01, 0x60, 0x00, 0x37, 0x60, 0x00, 0x51, 0x60, 0x00, 0x55, 0x00]),
        ("codecopy / returndatacopy with grown operands", vec![0x36, 0x80, 0x01, 0x80, 0x01, 0x80, 0x80, 0x60, 0x00, 0x39, 0x36, 0x80, 0x01, 0x80, 0x80, 0x60, 0x20, 0x3e, 0x60, 0x00, 0x51, 0x60, 0x00, 0x55, 0x00]),
        ("folded memory key with a constant sub-expression", vec![0x60, 0x07, 0x60, 0x01, 0x60, 0x02, 0x01, 0x36, 0x01, 0x52, 0x00]),
        // path-ending instructions record a value too: RETURN / REVERT of memory that holds grown words, LOG data, SELFDESTRUCT beneficiary
        ("return of two grown words", vec![0x36, 0x80, 0x01, 0x80, 0x01, 0x80, 0x01, 0x80, 0x60, 0x00, 0x52, 0x60, 0x20, 0x52, 0x60, 0x40, 0x60, 0x00, 0xf3]),
        ("revert of two grown words", vec![0x36, 0x80, 0x01, 0x80, 0x01, 0x80, 0x01, 0x80, 0x60, 0x00, 0x52, 0x60, 0x20, 0x52, 0x60, 0x40, 0x60, 0x00, 0xfd]),
        ("log1 of grown data and topic", vec![0x36, 0x80, 0x02, 0x80, 0x02, 0x80, 0x02, 0x80, 0x60, 0x00, 0x52, 0x60, 0x20, 0x60, 0x00, 0xa1, 0x00]),
        ("selfdestruct to a grown beneficiary", vec![0x36, 0x80, 0x01, 0x80, 0x01, 0x80, 0x01, 0xff]),
        ("sha3 of two grown words stored", vec![0x36, 0x80, 0x01, 0x80, 0x01, 0x80, 0x60, 0x00, 0x52, 0x60, 0x20, 0x52, 0x60, 0x40, 0x60, 0x00, 0x20, 0x60, 0x00, 0x55, 0x00]),
        // a word copied back and forth between two slots, and round three slots: the wrappers must not pile up
        ("ping-pong between slots 1 and 2", { let mut v = vec![0x36, 0x60, 0x01, 0x55]; for _ in 0..60 { v.extend([0x60, 0x01, 0x54, 0x60, 0x02, 0x55, 0x60, 0x02, 0x54, 0x60, 0x01, 0x55]); } v.push(0x00); v }),
        ("round trip over slots 1, 2, 3 with an increment", { let mut v = vec![0x36, 0x60, 0x01, 0x55]; for _ in 0..40 { for (a, b) in [(1u8, 2u8), (2, 3), (3, 1)] { v.extend([0x60, a, 0x54, 0x60, 0x01, 0x01, 0x60, b, 0x55]); } } v.push(0x00); v }),
        ("mload / mstore ping-pong between two offsets", { let mut v = vec![0x36, 0x60, 0x00, 0x52]; for _ in 0..60 { v.extend([0x60, 0x00, 0x51, 0x60, 0x20, 0x52, 0x60, 0x20, 0x51, 0x60, 0x00, 0x52]); } v.extend([0x60, 0x00, 0x51, 0x60, 0x00, 0x55, 0x00]); v }),
    ];
    let mut cases = 0;
    for (name, code) in programs {
        for limit in [1usize, 2, 3, 5, 8, 13] {
            let is = InstructionStream::try_from(code.as_slice()).unwrap();
            let mut vm = VM::new(is, Config::default().with_value_size_limit(limit).with_permissive_errors(true), LazyWatchdog.in_rc()).unwrap();
            let _ = vm.execute();
            let res = vm.consume();
            for v in res.all_values() {
                let real = count(&v);
                if v.size() != real { witness("C18", "vs.size_is_node_count", format!("{name} code={code:02x?} limit={limit}"), format!("size()={} for {v}", v.size()), format!("{real}")); }
                // known finding: Storage::load / stores_as_values / Memory::load_slice wrap values with RSV::new(.., None)
                let storage_wrapper = matches!(v.data(), RSVD::SLoad { .. } | RSVD::StorageWrite { .. } | RSVD::UnwrittenStorageValue { .. });
                // ... a write wrapper around a key and a load wrapper around a key and a value that each obey the limit: at most 2 + 3 * limit nodes; anything bigger is not that finding
                let ob = if storage_wrapper && real <= 3 * limit.max(1) + 2 { "vs.instruction_result_within_limit.storage_wrapper_unlimited" } else { "vs.instruction_result_within_limit" };
                if real > limit.max(1) { witness("C18", ob, format!("{name} code={code:02x?} limit={limit}"), format!("{real} nodes: {v}"), format!("<= {limit}")); }
            }
            cases += 1;
        }
    }
    println!("CASES c18_runs {cases}");
}

/// the list-carrying constructors (Packed spans, Concat, Log topics) report the node count of their children
#[test]
fn c18_list_constructors_report_true_size() {
    use storage_layout_extractor::vm::value::PackedSpan;
    let leaf = || RSV::new_value(0, Provenance::Synthetic);
    let pair = || RSV::new(1, RSVD::Add { left: leaf(), right: leaf() }, Provenance::Synthetic, None);
    let mut cases = 0;
    for n in 0..5usize {
        let kids: Vec<_> = (0..n).map(|i| if i % 2 == 0 { pair() } else { leaf() }).collect();
        let want: usize = 1 + kids.iter().map(|k| count(k)).sum::<usize>();
        let spans = kids.iter().enumerate().map(|(i, k)| PackedSpan::new(i * 32, 8 + 8 * i, k.clone())).collect();
        for (name, v) in [
            ("Packed", RSV::new(2, RSVD::Packed { elements: spans }, Provenance::Synthetic, None)),
            ("Concat", RSV::new(2, RSVD::Concat { values: kids.clone() }, Provenance::Synthetic, None)),
        ] {
            if v.size() != want || count(&v) != want { witness("C18", "vs.child_size.sum_of_children", format!("{name} with {n} children of {} nodes", want - 1), format!("size()={} nodes={}", v.size(), count(&v)), format!("{want}")); }
            // and a value built on top of it is culled exactly when it really exceeds the limit
            let limit = want + 1;
            let top = RSV::new(3, RSVD::Not { value: v.clone() }, Provenance::Synthetic, Some(limit));
            if !matches!(top.data(), RSVD::Not { .. }) { witness("C18", "vs.new.culled_iff_over_limit", format!("Not({name} of {want} nodes) with limit {limit}"), "culled".into(), "kept".into()); }
            cases += 1;
        }
        let log = RSV::new(2, RSVD::Log { data: leaf(), topics: kids.clone() }, Provenance::Synthetic, None);
        if log.size() != want + 1 { witness("C18", "vs.child_size.sum_of_children", format!("Log with {n} topics"), format!("size()={}", log.size()), format!("{}", want + 1)); }
        cases += 1;
    }
    println!("CASES c18_lists {cases}");
}

/// "a larger result is replaced by a FRESH opaque value": values culled separately — at the same instruction, from equal
/// or from different over-limit data — are pairwise different opaque values, and differ from every value that existed before
#[test]
fn c18_culled_values_are_fresh() {
    let mut cases = 0;
    for limit in [1usize, 2, 5] {
        let leaves: Vec<_> = (0..3).map(|_| RSV::new_value(0, Provenance::Synthetic)).collect();
        let mut culled = vec![];
        for ip in [7u32, 7, 7, 9] {
            for l in &leaves {
                // 1 + 2 * (1 + 2) = 7 nodes > limit
                let inner = RSV::new(ip, RSVD::Add { left: l.clone(), right: l.clone() }, Provenance::Synthetic, None);
                let big = RSV::new(ip, RSVD::Multiply { left: inner.clone(), right: inner }, Provenance::Synthetic, Some(limit));
                if !matches!(big.data(), RSVD::Value { .. }) { continue; }
                culled.push((ip, big));
                cases += 1;
            }
        }
        for i in 0..culled.len() {
            if leaves.iter().any(|l| l.data() == culled[i].1.data()) {
                witness("C18", "vs.new.culled_value_is_fresh", format!("limit={limit} cull #{i} at ip {}", culled[i].0), "equals a value that existed before".into(), "a fresh opaque value".into());
            }
            for j in 0..i {
                if culled[i].1.data() == culled[j].1.data() {
                    witness("C18", "vs.new.culled_value_is_fresh", format!("limit={limit} culls #{j} (ip {}) and #{i} (ip {})", culled[j].0, culled[i].0), format!("the same opaque value {}", culled[i].1), "two different fresh values".into());
                    break;
                }
            }
        }
    }
    println!("CASES c18_fresh {cases}");
}

/// "the size a value reports always equals the number of nodes it actually contains" at EVERY stage: the values the VM hands
/// over, the lifted values, and the values registered with the type checker (rebuilt by another constructor)
#[test]
fn c18_reported_size_is_node_count_at_every_stage() {
    use storage_layout_extractor::{disassembly::InstructionStream, tc, vm::{Config, VM}, watchdog::LazyWatchdog};
    fn count_tc(v: &storage_layout_extractor::vm::value::TCBoxedVal) -> usize { 1 + v.data().children().iter().map(|c| count_tc(c)).sum::<usize>() }
    let programs: Vec<(&str, Vec<u8>)> = vec![
        ("packed write", vec![0x60, 0xff, 0x60, 0x00, 0x35, 0x16, 0x60, 0x08, 0x1b, 0x61, 0xff, 0x00, 0x19, 0x60, 0x01, 0x54, 0x16, 0x17, 0x60, 0x01, 0x55, 0x00]),
        ("mapping store of a sum", vec![0x60, 0x01, 0x36, 0x01, 0x60, 0x02, 0x02, 0x33, 0x5f, 0x52, 0x60, 0x01, 0x60, 0x20, 0x52, 0x60, 0x40, 0x5f, 0x20, 0x55, 0x00]),
        ("repeated add then store", vec![0x36, 0x80, 0x01, 0x80, 0x01, 0x80, 0x01, 0x60, 0x00, 0x55, 0x00]),
        ("sha3 of memory stored", vec![0x36, 0x60, 0x00, 0x52, 0x60, 0x20, 0x60, 0x00, 0x20, 0x80, 0x01, 0x60, 0x00, 0x55, 0x00]),
    ];
    let mut cases = 0;
    for (name, code) in programs {
        for limit in [5usize, 10, 250] {
            let is = InstructionStream::try_from(code.as_slice()).unwrap();
            let mut vm = VM::new(is, Config::default().with_value_size_limit(limit).with_permissive_errors(true), LazyWatchdog.in_rc()).unwrap();
            let _ = vm.execute();
            let res = vm.consume();
            let mut checker = tc::TypeChecker::new(tc::Config::default(), LazyWatchdog.in_rc());
            let Ok(lifted) = checker.lift(res) else { continue };
            for v in &lifted {
                let real = count(v);
                if v.size() != real { witness("C18", "vs.size_is_node_count", format!("{name} code={code:02x?} limit={limit} (lifted value)"), format!("size()={} for {v}", v.size()), format!("{real}")); }
            }
            if checker.assign_vars(lifted).is_err() { continue; }
            for v in checker.values_under_analysis_cloned() {
                let real = count_tc(&v);
                if v.size() != real { witness("C18", "vs.size_is_node_count", format!("{name} code={code:02x?} limit={limit} (value registered with the type checker)"), format!("size()={} for {v}", v.size()), format!("{real}")); }
            }
            cases += 1;
        }
    }
    println!("CASES c18_stages {cases}");
}

/// D29 (recorded): the result of an SLOAD whose key is itself an SLOAD result holds that key TWICE (the load node and the
/// unwritten-value placeholder under it), and neither wrapper is subject to the size limit, so every link of an SLOAD chain
/// doubles the value (and the analysis time with it).  Measured deterministically by the reported sizes on a short chain.
#[test]
fn c18_nested_sload_results_double() {
    use storage_layout_extractor::{disassembly::InstructionStream, vm::{Config, VM}, watchdog::LazyWatchdog};
    let mut cases = 0;
    for links in [2usize, 4, 8] {
        let mut code = vec![0x36u8];
        code.extend(std::iter::repeat(0x54).take(links));
        code.extend([0x5f, 0x55, 0x00]);
        let limit = 10usize;
        let is = InstructionStream::try_from(code.as_slice()).unwrap();
        let mut vm = VM::new(is, Config::default().with_value_size_limit(limit), LazyWatchdog.in_rc()).unwrap();
        let _ = vm.execute();
        let res = vm.consume();
        cases += 1;
        let biggest = res.all_values().iter().map(|v| v.size()).max().unwrap_or(0);
        if biggest > 3 * limit + 2 {
            witness("C18", "vs.instruction_result_within_limit.d29_nested_storage_wrappers_double", format!("CALLDATASIZE followed by {links} SLOADs, stored: {code:02x?} limit={limit}"), format!("a value of {biggest} nodes"), format!("<= {limit} (at most {} for a storage wrapper around a key and a value within the limit)", 3 * limit + 2));
        }
    }
    println!("CASES c18_nested_sload {cases}");
}

/// culling happens ONLY above the configured limit: a value that a run without any limit builds with N nodes is built with
/// the same N nodes under every limit >= N (limits above the default 250 included), whichever instruction builds it —
/// arithmetic, SLOAD of a stored big value, MLOAD, SHA3, a storage write
#[test]
fn c18_values_within_the_configured_limit_are_not_culled() {
    use storage_layout_extractor::{disassembly::InstructionStream, vm::{Config, VM}, watchdog::LazyWatchdog};
    // CALLER squared k times, then stored to slot 0, loaded back, stored to slot 1 / hashed / moved through memory
    let prog = |k: usize, tail: &[u8]| -> Vec<u8> { let mut c = vec![0x33]; for _ in 0..k { c.extend([0x80, 0x02]); } c.extend(tail); c };
    let tails: Vec<(&str, Vec<u8>)> = vec![
        ("sstore(0, v); sstore(1, sload(0))", vec![0x5f, 0x55, 0x5f, 0x54, 0x60, 0x01, 0x55, 0x00]),
        ("mstore(0, v); sstore(1, mload(0))", vec![0x5f, 0x52, 0x5f, 0x51, 0x60, 0x01, 0x55, 0x00]),
        ("sstore(1, v + 1)", vec![0x60, 0x01, 0x01, 0x60, 0x01, 0x55, 0x00]),
        ("mstore(0, v); sstore(1, keccak(0, 32))", vec![0x5f, 0x52, 0x60, 0x20, 0x5f, 0x20, 0x60, 0x01, 0x55, 0x00]),
    ];
    let written_to_slot_1 = |code: &[u8], limit: usize| -> Option<usize> {
        let is = InstructionStream::try_from(code).ok()?;
        let mut vm = VM::new(is, Config::default().with_value_size_limit(limit), LazyWatchdog.in_rc()).ok()?;
        let _ = vm.execute();
        let res = vm.consume();
        res.all_values().iter().filter_map(|v| match v.data() {
            RSVD::StorageWrite { key, value } if matches!(key.data(), RSVD::KnownData { value: k } if k.value_le() == ethnum::U256::ONE) => Some(count(value)),
            _ => None,
        }).max()
    };
    let mut cases = 0;
    for k in [3usize, 6, 7] {
        for (tname, tail) in &tails {
            let code = prog(k, tail);
            let Some(n) = written_to_slot_1(&code, usize::MAX / 4) else { continue };
            for limit in [n + 4, 257, 300, 1000, 100_000] {
                if limit < n + 4 { continue; }
                cases += 1;
                let got = written_to_slot_1(&code, limit);
                if got != Some(n) {
                    witness("C18", "vs.culled_only_above_the_configured_limit", format!("caller squared {k} times; {tname}: {code:02x?} limit={limit}"), format!("the value written to slot 1 has {got:?} nodes"), format!("{n} nodes, as without a limit (it is within the limit)"));
                }
            }
        }
    }
    println!("CASES c18_not_culled_within_limit {cases}");
}
