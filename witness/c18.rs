//! C18: values respect the size limit and report their true size.
use storage_layout_extractor::vm::value::{Provenance, RSV, RSVD};

use crate::witness;

fn count(v: &std::sync::Arc<RSV>) -> usize { 1 + v.data().children().iter().map(|c| count(c)).sum::<usize>() }

#[test]
fn c18_new_culls_exactly_and_reports_true_size() {
    let mut cases = 0;
    for limit in 1usize..=12 {
        let mut v = RSV::new_value(0, Provenance::Synthetic);
        for step in 0..8 {
            let n = RSV::new(1, RSVD::Add { left: v.clone(), right: v.clone() }, Provenance::Synthetic, Some(limit));
            let real = count(&n);
            if n.size() != real { witness("C18", "vs.new.size_is_node_count", format!("limit={limit} step={step} child size={}", v.size()), format!("size()={}", n.size()), format!("{real}")); }
            if real > limit.max(1) { witness("C18", "vs.new.within_limit", format!("limit={limit} step={step}"), format!("{real} nodes"), format!("<= {limit}")); }
            let should_keep = 1 + 2 * count(&v) <= limit;
            let kept = matches!(n.data(), RSVD::Add { .. });
            if kept != should_keep { witness("C18", "vs.new.culled_iff_over_limit", format!("limit={limit} step={step} child nodes={}", count(&v)), format!("kept={kept}"), format!("kept={should_keep}")); }
            v = n;
            cases += 1;
        }
    }
    println!("CASES c18_new {cases}");
}
