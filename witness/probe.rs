//! ad-hoc probe (not part of any check): VX_PROBE="<hex prologue>:<hex block>:<hex epilogue>:<reps>" times one analysis
use crate::c08::{analyze, Out};
#[test]
fn probe_timing() {
    let Ok(spec) = std::env::var("VX_PROBE") else { return };
    for one in spec.split(',') {
        let p: Vec<&str> = one.split(':').collect();
        let hx = |s: &str| -> Vec<u8> { (0..s.len() / 2).map(|i| u8::from_str_radix(&s[2 * i..2 * i + 2], 16).unwrap()).collect() };
        let mut code = hx(p[0]);
        for _ in 0..p[3].parse::<usize>().unwrap() { code.extend(hx(p[1])); }
        code.extend(hx(p[2]));
        let t = std::time::Instant::now();
        let r = analyze(&code, true);
        println!("PROBE {one} -> {} in {} ms", match r { Out::Panic => "PANIC".to_string(), Out::Err(e) => format!("Err {}", &e[..e.len().min(60)]), Out::Ok(s) => format!("Ok {} slots {:?}", s.len(), s.iter().map(|(i, o)| format!("{i:#x}@{o}")).collect::<Vec<_>>()) }, t.elapsed().as_millis());
    }
}
